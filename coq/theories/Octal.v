(* Mirror of rash_core/src/utils.rs::parse_octal (after the fix of K1):
     match s.len() { 3 | 4 => u32::from_str_radix(s, 8), _ => Err }
   [s.len()] is the BYTE length; from_str_radix accepts one leading '+', then one or
   more digits 0..7 (u32 cannot overflow with <= 4 digits).  No slicing => no panic. *)
From Coq Require Import List String Ascii Bool NArith.
Import ListNotations.
Open Scope string_scope.

Inductive ores := OOk (n : N) | OErr.

Definition odigit (c : ascii) : option N :=
  let n := N_of_ascii c in
  if andb (N.leb 48 n) (N.leb n 55) then Some (n - 48)%N else None.

Fixpoint odigits (s : string) (acc : N) : option N :=
  match s with
  | EmptyString => Some acc
  | String c r => match odigit c with Some d => odigits r (8 * acc + d) | None => None end
  end.

(* core::num::from_str_radix for an unsigned type, radix 8 *)
Definition from_str_radix8 (s : string) : option N :=
  match s with
  | EmptyString => None
  | String "+" EmptyString => None
  | String "+" r => odigits r 0
  | _ => odigits s 0
  end.

Definition parse_octal (s : string) : ores :=
  match String.length s with
  | 3 | 4 => match from_str_radix8 s with Some n => OOk n | None => OErr end
  | _ => OErr
  end.

(* the pre-fix code, kept to state what K1 was (and to let the check recognise a
   regression to it):  4 => from_str_radix(s.get(1..).unwrap(), 8) *)
Inductive ores_old := OldOk (n : N) | OldErr | OldPanic.
Definition is_char_boundary1 (s : string) : bool :=
  (* byte 1 starts a char iff it is not a UTF-8 continuation byte 10xxxxxx *)
  match s with
  | String _ (String c _) => let n := N_of_ascii c in negb (andb (N.leb 128 n) (N.ltb n 192))
  | _ => true
  end.
Definition parse_octal_old (s : string) : ores_old :=
  match String.length s with
  | 3 => match from_str_radix8 s with Some n => OldOk n | None => OldErr end
  | 4 => if is_char_boundary1 s
         then match s with String _ r => match from_str_radix8 r with Some n => OldOk n | None => OldErr end | _ => OldErr end
         else OldPanic
  | _ => OldErr
  end.

(* format!("{:o}", n) *)
Fixpoint to_octal_fuel (fuel : nat) (n : N) (acc : string) : string :=
  match fuel with
  | O => acc
  | S f =>
      let acc' := String (ascii_of_N (48 + n mod 8)) acc in
      if N.eqb (n / 8) 0 then acc' else to_octal_fuel f (n / 8) acc'
  end.
Definition to_octal (n : N) : string := to_octal_fuel (S (N.to_nat (N.log2 n))) n "".

Example to_octal_ex : to_octal 420 = "644" /\ to_octal 0 = "0" /\ to_octal 2541 = "4755".
Proof. repeat split. Qed.
