(* Executable case runner for the state family (C03-C06): decodes one s-expression
   case, runs the mirrors of StateMods.v / Pacman.v and prints the observation. *)
From Coq Require Import List String Ascii Bool NArith.
From RashV Require Import Sexp Fs Octal StateMods Pacman StateSpec SeqSpec.
Import ListNotations.
Open Scope string_scope. Open Scope list_scope.

Definition dec_path (e : sexp) : option path :=
  match e with
  | SList l => map_opt (fun a => match a with Atom s => Some s | _ => None end) l
  | _ => None
  end.

Definition dec_node (e : sexp) : option (path * node) :=
  match e with
  | SList [Atom "f"; p; c; m] =>
      match dec_path p, atom_bytes c, atom_N m with
      | Some p, Some c, Some m => Some (p, NFile c m) | _, _, _ => None end
  | SList [Atom "d"; p; m] =>
      match dec_path p, atom_N m with Some p, Some m => Some (p, NDir m) | _, _ => None end
  | SList [Atom "l"; p; t] =>
      match dec_path p, dec_path t with Some p, Some t => Some (p, NLink t) | _, _ => None end
  | _ => None
  end.

Definition dec_mode (e : sexp) : option modespec :=
  match e with
  | Atom "none" => Some MNone
  | Atom "preserve" => Some MPreserve
  | SList [Atom "m"; s] => option_map MStr (atom_bytes s)
  | _ => None
  end.

Definition dec_fmode (e : sexp) : option (option string) :=
  match e with
  | Atom "none" => Some None
  | SList [Atom "m"; s] => option_map Some (atom_bytes s)
  | _ => None
  end.

Definition dec_fstate (e : sexp) : option fstate :=
  match e with
  | Atom "absent" => Some SAbsent | Atom "directory" => Some SDirectory
  | Atom "file" => Some SFile | Atom "touch" => Some STouch | _ => None
  end.

Definition dec_task (e : sexp) : option task :=
  match e with
  | SList [Atom "copy"; SList [Atom "content"; c]; d; m] =>
      match atom_bytes c, dec_path d, dec_mode m with
      | Some c, Some d, Some m => Some (TCopy {| cp_input := IContent c; cp_dest := d; cp_mode := m |})
      | _, _, _ => None end
  | SList [Atom "copy"; SList [Atom "src"; s]; d; m] =>
      match dec_path s, dec_path d, dec_mode m with
      | Some s, Some d, Some m => Some (TCopy {| cp_input := ISrc s; cp_dest := d; cp_mode := m |})
      | _, _, _ => None end
  | SList [Atom "template"; s; d; m; r] =>
      match dec_path s, dec_path d, dec_mode m with
      | Some s, Some d, Some m =>
          match r with
          | Atom "none" => Some (TTemplate {| tp_src := s; tp_dest := d; tp_mode := m |} None)
          | SList [Atom "some"; t] =>
              option_map (fun t => TTemplate {| tp_src := s; tp_dest := d; tp_mode := m |} (Some t)) (atom_bytes t)
          | _ => None
          end
      | _, _, _ => None end
  | SList [Atom "file"; p; st; m] =>
      match dec_path p, dec_fstate st, dec_fmode m with
      | Some p, Some st, Some m => Some (TFile {| fp_path := p; fp_state := st; fp_mode := m |})
      | _, _, _ => None end
  | _ => None
  end.

Definition enc_path (p : path) : sexp := SList (map Atom p).
Definition enc_node (n : option node) : sexp :=
  match n with
  | None => Atom "none"
  | Some (NFile c m) => SList [Atom "f"; bytes_atom c; show_N m]
  | Some (NDir m) => SList [Atom "d"; show_N m]
  | Some (NLink t) => SList [Atom "l"; enc_path t]
  end.
Definition enc_result (r : result) : sexp :=
  match r with ROk true => Atom "changed" | ROk false => Atom "ok" | RErr => Atom "err" end.

(* run a list of tasks one after the other (errors do not stop the list), reporting per
   task: result, number of managed actions it performed *)
Fixpoint run_tasks (e : env) (ts : list (task * bool)) (s : st) : list sexp * st :=
  match ts with
  | [] => ([], s)
  | (t, check) :: r =>
      let '(res, s1) := run_task e t check {| sw := sw s; slog := [] |} in
      let n := N.of_nat (List.length (filter managed (slog s1))) in
      let '(out, s2) := run_tasks e r s1 in
      (SList [enc_result res; show_N n] :: out, s2)
  end.

Definition dec_tc (e : sexp) : option (task * bool) :=
  match e with
  | SList [t; c] => match dec_task t, atom_bool c with Some t, Some c => Some (t, c) | _, _ => None end
  | _ => None
  end.

(* (fs (env UMASK TMPMODE) (world NODE...) (obs PATH...) (tasks (TASK CHECK)...)) *)
Definition run_fs (e : sexp) : option sexp :=
  match e with
  | SList [Atom "fs"; SList [Atom "env"; um; tm]; SList (Atom "world" :: ns);
           SList (Atom "obs" :: ps); SList (Atom "tasks" :: ts)] =>
      match atom_N um, atom_N tm, map_opt dec_node ns, map_opt dec_path ps, map_opt dec_tc ts with
      | Some um, Some tm, Some ns, Some ps, Some ts =>
          let env := {| umask := um; tmpmode := tm |} in
          let '(out, s) := run_tasks env ts {| sw := of_list ns; slog := [] |} in
          Some (SList [SList (Atom "res" :: out); SList (Atom "obs" :: map enc_node (obs (sw s) ps))])
      | _, _, _, _, _ => None
      end
  | _ => None
  end.

(* (declared (env UMASK TMPMODE) TASK (world NODE...) (before NODE...)) : does the declared state of TASK
   hold in that world?  evaluated on the IMPLEMENTATION's observed final state *)
Definition run_declared (e : sexp) : option sexp :=
  match e with
  | SList [Atom "declared"; SList [Atom "env"; um; tm]; t; SList (Atom "world" :: ns); SList (Atom "before" :: bs)] =>
      match atom_N um, atom_N tm, dec_task t, map_opt dec_node ns, map_opt dec_node bs with
      | Some um, Some tm, Some t, Some ns, Some bs =>
          let env := {| umask := um; tmpmode := tm |} in
          Some (SList [show_bool (declared_b t (of_list bs) (of_list ns));
                       show_bool (known_empty_create env t (of_list bs));
                       show_bool (known_type_mismatch t (of_list bs));
                       show_bool (known_absent_dangling t (of_list bs));
                       show_bool (N.eqb (mask_perm (tmpmode env)) (mask_perm (file_create_mode env)))])
      | _, _, _, _, _ => None
      end
  | _ => None
  end.

(* (noninterf (env UMASK TMPMODE) (world NODE...) (tasks TASK...)) : is the hypothesis of the sequence
   theorem (Sequences.second_pass_is_noop) met by this first pass? *)
Definition run_noninterf (e : sexp) : option sexp :=
  match e with
  | SList [Atom "noninterf"; SList [Atom "env"; um; tm]; SList (Atom "world" :: ns); SList (Atom "tasks" :: ts)] =>
      match atom_N um, atom_N tm, map_opt dec_node ns, map_opt dec_task ts with
      | Some um, Some tm, Some ns, Some ts =>
          Some (show_bool (noninterf_b {| umask := um; tmpmode := tm |} ts {| sw := of_list ns; slog := [] |}))
      | _, _, _, _ => None
      end
  | _ => None
  end.

(* ---- pacman ---- *)
Definition atom_nat3 (a b c : sexp) : option (nat * nat * nat) :=
  match atom_N a, atom_N b, atom_N c with
  | Some a, Some b, Some c => Some (N.to_nat a, N.to_nat b, N.to_nat c)
  | _, _, _ => None
  end.
Definition show_nat (n : nat) : sexp := show_N (N.of_nat n).
Definition dec_strs (l : list sexp) : option (list string) := map_opt atom_bytes l.
Definition dec_pstate (e : sexp) : option pstate :=
  match e with
  | Atom "present" => Some PPresent | Atom "absent" => Some PAbsent | Atom "sync" => Some PSync
  | _ => None end.
Definition enc_strs (l : list string) : sexp := SList (map bytes_atom l).
Definition enc_inv (i : invocation) : sexp :=
  match i with
  | IQuery => Atom "query" | IQueryExplicit => Atom "query-explicit" | IQueryUpgrades => Atom "query-upgrades"
  | IRefresh => Atom "refresh" | ISysupgrade => Atom "sysupgrade"
  | ISync p => SList [Atom "sync"; enc_strs p] | IRemove p => SList [Atom "remove"; enc_strs p]
  end.

Definition dec_ptask (e : sexp) : option (pparams * bool) :=
  match e with
  | SList [SList (Atom "names" :: ns); st; uc; up; chk] =>
      match dec_strs ns, dec_pstate st, atom_bool uc, atom_bool up, atom_bool chk with
      | Some ns, Some st, Some uc, Some up, Some chk =>
          Some ({| pp_names := ns; pp_state := st; pp_update_cache := uc; pp_upgrade := up |}, chk)
      | _, _, _, _, _ => None
      end
  | _ => None
  end.

Fixpoint run_ptasks (ts : list (pparams * bool)) (s : pst) : list sexp * pst :=
  match ts with
  | [] => ([], s)
  | (p, chk) :: r =>
      let '(res, s1) := pacman p chk {| pdb := pdb s; plog := [] |} in
      let '(out, s2) := run_ptasks r s1 in
      (SList [show_bool (pr_changed res); enc_strs (pr_installed res); enc_strs (pr_removed res);
              show_bool (pr_upgraded res); SList (map enc_inv (plog s1))] :: out, s2)
  end.

(* (pacman (db (INST...) (EXPL...) SYSVER DBVER UPSTREAM) (tasks PTASK...)) *)
Definition run_pacman (e : sexp) : option sexp :=
  match e with
  | SList [Atom "pacman"; SList [Atom "db"; SList inst; SList expl; sv; dv; uv]; SList (Atom "tasks" :: ts)] =>
      match dec_strs inst, dec_strs expl, atom_nat3 sv dv uv, map_opt dec_ptask ts with
      | Some inst, Some expl, Some (sv, dv, uv), Some ts =>
          let '(out, s) := run_ptasks ts {| pdb := {| installed := inst; explicit := expl; sysver := sv; dbver := dv; upstream := uv |}; plog := [] |} in
          Some (SList [SList (Atom "res" :: out);
                       SList [Atom "db"; enc_strs (installed (pdb s)); enc_strs (explicit (pdb s));
                              show_nat (sysver (pdb s)); show_nat (dbver (pdb s)); show_nat (upstream (pdb s))]])
      | _, _, _, _ => None
      end
  | _ => None
  end.

(* (octal xHEX) *)
Definition run_octal (e : sexp) : option sexp :=
  match e with
  | SList [Atom "octal"; s] =>
      match atom_bytes s with
      | Some s => Some (match parse_octal s with OOk n => SList [Atom "ok"; show_N n] | OErr => Atom "err" end)
      | None => None
      end
  | _ => None
  end.
