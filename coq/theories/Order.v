(* The order in which docopt::parse tries the expanded usages after the fix of K11:
   `expanded_usages.sort_by(|a, b| b.cmp(a))`, i.e. descending byte-wise order, then the first match. *)
From Coq Require Import List String Bool.
Import ListNotations.
Open Scope list_scope.

(* descending byte-wise order on strings, as `sort_by(|a, b| b.cmp(a))` *)
Definition geb (a b : string) : bool := String.leb b a.

Fixpoint insert (x : string) (l : list string) : list string :=
  match l with
  | [] => [x]
  | y :: r => if geb x y then x :: y :: r else y :: insert x r
  end.
Fixpoint sort (l : list string) : list string :=
  match l with [] => [] | x :: r => insert x (sort r) end.


(* the matching stage: first sorted usage that matches *)
Definition choose (matches : string -> bool) (usages : list string) : option string :=
  find matches (sort usages).

