(* C05, sequence half: a second pass over a sequence of state tasks is a no-op reported ok, provided
   no later task of the first pass disturbs what an earlier task reads (a decidable condition on the
   first pass, [noninterf_b], which the oracle evaluates on every generated sequence). *)
From Coq Require Import List String Ascii Bool NArith Lia.
From RashV Require Import Fs Octal StateMods StateSpec SeqSpec FsLemmas CopyProofs FileProofs TemplatePacmanProofs StateProofs Frame.
Import ListNotations.
Open Scope list_scope.

Lemma is_prefix_app p q x : is_prefix (p ++ q) x = true -> is_prefix p x = true.
Proof.
  revert x. induction p as [|a p IH]; intros x H; [reflexivity|].
  destruct x as [|b x]; cbn in *; [discriminate|].
  apply andb_true_iff in H as [H1 H2]. rewrite H1. cbn. now apply IH.
Qed.

Lemma reads_closed t p q : reads t (p ++ q) = true -> reads t p = true.
Proof.
  unfold reads. intro H. apply orb_true_iff in H as [H|H].
  - apply is_prefix_app in H. now rewrite H.
  - destruct (source t) as [s|]; [|discriminate]. apply is_prefix_app in H. rewrite H. apply orb_true_r.
Qed.

Lemma prefixes_from_complete acc p x :
  is_prefix p x = true -> p <> [] -> In (acc ++ p) (prefixes_from acc x).
Proof.
  revert acc x. induction p as [|a p IH]; intros acc x H N; [contradiction|].
  destruct x as [|b x]; cbn in H; [discriminate|]. apply andb_true_iff in H as [H1 H2].
  apply String.eqb_eq in H1. subst b. cbn [prefixes_from].
  destruct p as [|a' p'].
  - left. reflexivity.
  - right. specialize (IH (acc ++ [a]) x H2 ltac:(discriminate)). now rewrite <- app_assoc in IH.
Qed.

Lemma reads_in_read_paths t p : reads t p = true -> In p (read_paths t).
Proof.
  unfold reads, read_paths. intro H. destruct p as [|a p]; [now left|]. right. apply in_or_app.
  apply orb_true_iff in H as [H|H].
  - left. apply (prefixes_from_complete [] (a :: p) (target t) H). discriminate.
  - right. destruct (source t) as [s|]; [|discriminate].
    apply (prefixes_from_complete [] (a :: p) s H). discriminate.
Qed.

Lemma reads_ok_reads t : reads_ok (reads t) t.
Proof.
  destruct t as [p|p r|p]; cbn; unfold reads; cbn.
  - split; [now rewrite is_prefix_refl|]. destruct (cp_input p) as [c|s]; cbn; [exact I|].
    rewrite is_prefix_refl. apply orb_true_r.
  - split; [now rewrite is_prefix_refl|]. rewrite is_prefix_refl. apply orb_true_r.
  - now rewrite is_prefix_refl.
Qed.

Lemma onode_eqb_eq a b : onode_eqb a b = true -> a = b.
Proof.
  destruct a as [[c m|m|t]|], b as [[c' m'|m'|t']|]; cbn; intro H; try discriminate; try reflexivity.
  - apply andb_true_iff in H as [H1 H2]. apply String.eqb_eq in H1. apply N.eqb_eq in H2. now subst.
  - apply N.eqb_eq in H. now subst.
  - apply path_eqb_eq in H. now subst.
Qed.

Lemma wf_task_b_wf t : wf_task_b t = true -> wf_task t.
Proof. destruct t as [p|p r|p]; cbn; auto. destruct (fp_path p); [discriminate|]. intros _. discriminate. Qed.

Lemma rel_of_b t w1 w2 l1 l2 :
  agree_b t w1 w2 = true -> nolink_b t w1 = true ->
  rel (reads t) {| sw := w1; slog := l1 |} {| sw := w2; slog := l2 |}.
Proof.
  unfold agree_b, nolink_b. rewrite !forallb_forall. intros A L. split; cbn [sw]; intros p Hp.
  - apply onode_eqb_eq. apply A. now apply reads_in_read_paths.
  - apply negb_true_iff. apply L. now apply reads_in_read_paths.
Qed.

(* a task that is stable in w is stable in every world that agrees with w on what it reads *)
Theorem stable_transfers e t w w' :
  stable e t w -> agree_b t w w' = true -> nolink_b t w = true -> stable e t w'.
Proof.
  intros S A L l.
  pose proof (run_task_frame (reads t) (reads_closed t) e t false
                {| sw := w; slog := l |} {| sw := w'; slog := l |} (rel_of_b t w w' l l A L) (reads_ok_reads t)) as F.
  rewrite (S l) in F. destruct (run_task e t false {| sw := w'; slog := l |}) as [r s'] eqn:E.
  destruct F as [F1 [_ (a & A1 & A2 & A3)]]. cbn [fst snd slog] in *.
  assert (a = []).
  { rewrite <- (app_nil_r l) in A1 at 1. now apply app_inv_head in A1. }
  destruct (A3 H) as [_ ->]. now rewrite <- F1.
Qed.

Lemma run_all_cons e t r s :
  run_all e (t :: r) s = (fst (run_task e t false s) :: fst (run_all e r (snd (run_task e t false s))),
                          snd (run_all e r (snd (run_task e t false s)))).
Proof.
  cbn [run_all]. destruct (run_task e t false s) as [res s1]. cbn [fst snd].
  destruct (run_all e r s1) as [out s2]. reflexivity.
Qed.

Lemma all_stable_after_first_pass e ts : forall s,
  noninterf_b e ts s = true -> Forall (fun t => stable e t (sw (snd (run_all e ts s)))) ts.
Proof.
  induction ts as [|t r IH]; intros s H; [constructor|].
  cbn [noninterf_b] in H. rewrite run_all_cons. cbn [snd].
  destruct (run_task e t false s) as [res s1] eqn:E. cbn [fst snd] in *.
  apply andb_true_iff in H as [H1 H]. apply andb_true_iff in H as [H2 H]. apply andb_true_iff in H as [H3 H].
  apply andb_true_iff in H as [H4 H]. apply andb_true_iff in H as [H5 H6].
  destruct res as [ch|]; [|discriminate].
  constructor; [|now apply IH].
  apply (stable_transfers e t (sw s1)); [|assumption|assumption].
  intro l. eapply fs_idempotent; [exact E|now apply wf_task_b_wf|assumption].
Qed.

(* C05: applying the whole sequence a second time changes nothing and reports ok for every task *)
Theorem second_pass_is_noop e ts s0 l :
  noninterf_b e ts s0 = true ->
  let w1 := sw (snd (run_all e ts s0)) in
  run_all e ts {| sw := w1; slog := l |} = (map (fun _ => ROk false) ts, {| sw := w1; slog := l |}).
Proof.
  intro H. cbv zeta. apply pass_of_stable_tasks_is_noop. now apply all_stable_after_first_pass.
Qed.

(* non-vacuity: three tasks sharing ancestors - a directory tree is created, a file copied into it,
   a sibling touched with a mode - satisfy the condition; and a sequence whose second task undoes the
   first does not *)
Definition seq_env := {| umask := 18; tmpmode := 420 |}.
Definition seq_w0 : world := of_list [([], NDir 493); (["src"%string], NFile "hello" 420)].
Definition seq_ok : list task :=
  [ TFile {| fp_path := ["a"; "b"]%string; fp_state := SDirectory; fp_mode := Some "0750"%string |};
    TCopy {| cp_input := ISrc ["src"%string]; cp_dest := ["a"; "b"; "f"]%string; cp_mode := MStr "0600" |};
    TFile {| fp_path := ["a"; "c"]%string; fp_state := STouch; fp_mode := Some "0644"%string |} ].
Definition seq_bad : list task :=
  [ TCopy {| cp_input := IContent "one"; cp_dest := ["f"%string]; cp_mode := MNone |};
    TCopy {| cp_input := IContent "two"; cp_dest := ["f"%string]; cp_mode := MNone |} ].

Example seq_ok_satisfies :
  noninterf_b seq_env seq_ok {| sw := seq_w0; slog := [] |} = true
  /\ fst (run_all seq_env seq_ok {| sw := seq_w0; slog := [] |}) = [ROk true; ROk true; ROk true].
Proof. split; vm_compute; reflexivity. Qed.

Example seq_bad_is_excluded_and_really_flips :
  noninterf_b seq_env seq_bad {| sw := seq_w0; slog := [] |} = false
  /\ let s1 := snd (run_all seq_env seq_bad {| sw := seq_w0; slog := [] |}) in
     fst (run_all seq_env seq_bad {| sw := sw s1; slog := [] |}) = [ROk true; ROk true].
Proof. split; vm_compute; reflexivity. Qed.
