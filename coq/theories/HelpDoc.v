(* C11: mirror of docopt::parse_help - the text that is printed when help is requested, and from
   which the usage section is read: the file is split at newlines, the first line is skipped, lines
   are taken while they contain a hash sign (unanchored regex: hash, then the rest of the line), the
   captured rest is dropped when it starts with a bang, its FIRST blank is removed, two fixed note
   lines and an empty line are appended, everything is joined with newlines. *)
From Coq Require Import List String Ascii Bool.
Import ListNotations.
Open Scope string_scope. Open Scope list_scope.

Fixpoint rev_str (s acc : string) : string :=
  match s with EmptyString => acc | String c r => rev_str r (String c acc) end.

(* str::split at newline *)
Fixpoint split_nl (s : string) (cur : string) : list string :=
  match s with
  | EmptyString => [rev_str cur ""]
  | String c r => if Ascii.eqb c "010" then rev_str cur "" :: split_nl r "" else split_nl r (String c cur)
  end.

(* the text after the first hash sign of a line, if there is one (the regex is not anchored) *)
Fixpoint after_hash (l : string) : option string :=
  match l with
  | EmptyString => None
  | String "#" r => Some r
  | String _ r => after_hash r
  end.

(* str::replacen(blank, empty, 1) *)
Fixpoint drop_first_blank (s : string) : string :=
  match s with
  | EmptyString => EmptyString
  | String " " r => r
  | String c r => String c (drop_first_blank r)
  end.

Definition starts_bang (s : string) : bool := match s with String "!" _ => true | _ => false end.

(* map_while: stop at the first line without a hash sign *)
Fixpoint doc_lines (ls : list string) : list string :=
  match ls with
  | [] => []
  | l :: r => match after_hash l with
              | Some t => t :: doc_lines r
              | None => []
              end
  end.

Definition note1 := "Note: Options must be preceded by `--`. If not, you are passing options directly to rash.".
Definition note2 := "For more information check rash options with `rash --help`.".

Fixpoint join_nl (ls : list string) : string :=
  match ls with
  | [] => ""
  | [x] => x
  | x :: r => x ++ String "010" (join_nl r)
  end.

Definition help_lines (file : string) : list string :=
  map drop_first_blank (filter (fun t => negb (starts_bang t)) (doc_lines (tl (split_nl file "")))).
Definition parse_help (file : string) : string := join_nl (help_lines file ++ [note1; note2; ""]).
