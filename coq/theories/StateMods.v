(* Mirrors of the state modules' decision logic:
     copy.rs::copy_file + change_permissions
     file.rs::define_file (+ apply_permissions_if_necessary, apply_permissions_recursively,
                             find_first_existing_directory, fail_if_not_exist)
     template.rs::render_content (the rendered text is supplied by the caller: minijinja
                             is outside the model)
   Each function takes [check : bool] and threads the world + action log of Fs.v. *)
From Coq Require Import List String Ascii Bool NArith.
From RashV Require Import Fs Octal.
Import ListNotations.
Open Scope string_scope. Open Scope list_scope. Open Scope N_scope.

Inductive result := ROk (changed : bool) | RErr.

(* ------------------------------------------------------------------ copy *)
Inductive input := IContent (c : string) | ISrc (p : path).
Inductive modespec := MNone | MPreserve | MStr (s : string).
Record copy_params := { cp_input : input; cp_dest : path; cp_mode : modespec }.

(* the open "file descriptor" copy_file reads: the node it refers to *)
Definition change_permissions (s : st) (dest : path) (dest_mode : N) (mode : N) (check : bool)
  : option (st * bool) :=
  if N.eqb (mask_perm dest_mode) (mask_perm mode) then Some (s, false)
  else if check then Some (s, true)
  else match sys_chmod s dest mode with Some s' => Some (s', true) | None => None end.

Definition read_src (w : world) (src : path) : option string :=
  match stat w src with Some (NFile c _) => Some c | _ => None end.

(* 1. open dest for reading, else create it (real run) or use an anonymous tempfile (check).
      Result: state, and (content, st_mode) of the opened file; None = the read fails (EISDIR) *)
Definition open_dest (e : env) (dest : path) (check : bool) (s0 : st) : option (st * option (string * N)) :=
  match stat (sw s0) dest with
  | Some (NFile c m) => Some (s0, Some (c, st_mode (NFile c m)))
  | Some (NDir _) => Some (s0, None)
  | _ =>
      if check then Some (log1 s0 ATmpAnon (sw s0), Some ("", ifreg + mask_perm (tmpmode e)))
      else match sys_create e s0 dest with
           | Some s1 => Some (s1, Some ("", ifreg + mask_perm (file_create_mode e)))
           | None => None
           end
  end.

Definition desired_content (i : input) (w : world) : option string :=
  match i with
  | IContent c => Some c
  | ISrc src => read_src w src
  end.

(* 3. write the content if it differs (toggling the write bit of a read-only file) *)
Definition content_phase (dest : path) (content want : string) (dest_mode : N) (check : bool) (s1 : st)
  : option (st * bool) :=
  if String.eqb content want then Some (s1, false)
  else if check then Some (s1, true)
  else
    let readonly := N.eqb (N.land dest_mode any_write) 0 in
    let sa := if readonly then sys_chmod s1 dest (N.lor dest_mode write_bit) else Some s1 in
    match sa with
    | None => None
    | Some sa =>
        match sys_write sa dest want with
        | None => None
        | Some sb =>
            if readonly
            then match sys_chmod sb dest dest_mode with Some sc => Some (sc, true) | None => None end
            else Some (sb, true)
        end
    end.

(* 4. mode *)
Definition mode_phase (p : copy_params) (dest_mode : N) (check : bool) (ch1 : bool) (s2 : st) : result * st :=
  let dest := cp_dest p in
  match cp_mode p with
  | MNone => (ROk ch1, s2)
  | MPreserve =>
      match cp_input p with
      | ISrc src =>
          match stat (sw s2) src with
          | Some n =>
              match change_permissions s2 dest dest_mode (st_mode n) check with
              | Some (s3, ch2) => (ROk (orb ch1 ch2), s3)
              | None => (RErr, s2)
              end
          | None => (RErr, s2)
          end
      | IContent _ => (RErr, s2)
      end
  | MStr ms =>
      match parse_octal ms with
      | OErr => (RErr, s2)
      | OOk m =>
          match change_permissions s2 dest dest_mode m check with
          | Some (s3, ch2) => (ROk (orb ch1 ch2), s3)
          | None => (RErr, s2)
          end
      end
  end.

Definition copy_file (e : env) (p : copy_params) (check : bool) (s0 : st) : result * st :=
  let dest := cp_dest p in
  match open_dest e dest check s0 with
  | None => (RErr, s0)
  | Some (s1, None) => (RErr, s1)
  | Some (s1, Some (content, dest_mode)) =>
      match desired_content (cp_input p) (sw s1) with
      | None => (RErr, s1)
      | Some want =>
          match content_phase dest content want dest_mode check s1 with
          | None => (RErr, s1)
          | Some (s2, ch1) => mode_phase p dest_mode check ch1 s2
          end
      end
  end.

(* -------------------------------------------------------------- template *)
Record template_params := { tp_src : path; tp_dest : path; tp_mode : modespec }.

(* [rendered] : what minijinja makes of the source text (None = render error / not UTF-8) *)
Definition template (e : env) (p : template_params) (rendered : option string) (check : bool) (s0 : st)
  : result * st :=
  let mode : option modespec :=
    match tp_mode p with
    | MPreserve =>
        match stat (sw s0) (tp_src p) with
        | Some n => Some (MStr (to_octal (mask_perm (st_mode n))))
        | None => None
        end
    | m => Some m
    end in
  match mode with
  | None => (RErr, s0)
  | Some m =>
      match read_src (sw s0) (tp_src p), rendered with
      | Some _, Some text =>
          copy_file e {| cp_input := IContent text; cp_dest := tp_dest p; cp_mode := m |} check s0
      | _, _ => (RErr, s0)
      end
  end.

(* ------------------------------------------------------------------ file *)
Inductive fstate := SAbsent | SDirectory | SFile | STouch.
Record file_params := { fp_path : path; fp_state : fstate; fp_mode : option string }.

Definition apply_permissions_if_necessary (n : node) (octal : N) (p : path) (check : bool) (s : st)
  : result * st :=
  if N.eqb (mask_perm (st_mode n)) octal then (ROk false, s)
  else if check then (ROk true, s)
  else match sys_chmod s p octal with Some s' => (ROk true, s') | None => (RErr, s) end.

Definition fail_if_not_exist (p : path) (s : st) : result * st :=
  match stat (sw s) p with Some _ => (ROk false, s) | None => (RErr, s) end.

(* the directories create_dir_all had to create are exactly the prefixes that were not
   directories before; apply_permissions_recursively chmods them deepest first *)
Fixpoint chmod_all (s : st) (ps : list path) (m : N) : option st :=
  match ps with
  | [] => Some s
  | q :: r => match sys_chmod s q m with Some s' => chmod_all s' r m | None => None end
  end.

Definition define_file (e : env) (p : file_params) (check : bool) (s : st) : result * st :=
  let pa := fp_path p in
  match fp_state p with
  | SFile =>
      match fp_mode p with
      | Some ms =>
          match parse_octal ms with
          | OErr => (RErr, s)
          | OOk m => match stat (sw s) pa with
                     | Some n => apply_permissions_if_necessary n m pa check s
                     | None => fail_if_not_exist pa s
                     end
          end
      | None => fail_if_not_exist pa s
      end
  | SAbsent =>
      match stat (sw s) pa with
      | Some (NFile _ _) =>
          if check then (ROk true, s)
          else match sys_unlink s pa with Some s' => (ROk true, s') | None => (RErr, s) end
      | Some (NDir _) =>
          if check then (ROk true, s)
          else match sys_rmtree s pa with Some s' => (ROk true, s') | None => (RErr, s) end
      | _ => (ROk false, s)
      end
  | SDirectory =>
      match fp_mode p with
      | Some ms =>
          match parse_octal ms with
          | OErr => (RErr, s)
          | OOk m =>
              match stat (sw s) pa with
              | Some n => apply_permissions_if_necessary n m pa check s
              | None =>
                  if check then (ROk true, s)
                  else
                    let created := filter (fun q => negb (is_dir (sw s) q)) (prefixes pa) in
                    match sys_mkdir_all e s pa with
                    | None => (RErr, s)
                    | Some s1 =>
                        match chmod_all s1 (rev created) m with
                        | Some s2 => (ROk true, s2)
                        | None => (RErr, s1)
                        end
                    end
              end
          end
      | None =>
          match stat (sw s) pa with
          | Some _ => (ROk false, s)
          | None =>
              if check then (ROk true, s)
              else match sys_mkdir_all e s pa with Some s1 => (ROk true, s1) | None => (RErr, s) end
          end
      end
  | STouch =>
      match fp_mode p with
      | Some ms =>
          match parse_octal ms with
          | OErr => (RErr, s)
          | OOk m =>
              match stat (sw s) pa with
              | Some n => apply_permissions_if_necessary n m pa check s
              | None =>
                  if check then (ROk true, s)
                  else match sys_create e s pa with
                       | None => (RErr, s)
                       | Some s1 => match sys_chmod s1 pa m with
                                    | Some s2 => (ROk true, s2)
                                    | None => (RErr, s1)
                                    end
                       end
              end
          end
      | None =>
          match stat (sw s) pa with
          | Some _ => (ROk false, s)
          | None =>
              if check then (ROk true, s)
              else match sys_create e s pa with Some s1 => (ROk true, s1) | None => (RErr, s) end
          end
      end
  end.

(* ------------------------------------------------ one task of any of the three modules *)
Inductive task :=
| TCopy (p : copy_params)
| TTemplate (p : template_params) (rendered : option string)
| TFile (p : file_params).

Definition run_task (e : env) (t : task) (check : bool) (s : st) : result * st :=
  match t with
  | TCopy p => copy_file e p check s
  | TTemplate p r => template e p r check s
  | TFile p => define_file e p check s
  end.

(* valid.rs::get_task: check_mode = global || task keyword *)
Definition effective_check (global task_kw : bool) : bool := if global then true else task_kw.
