(* C12, last clause ("a parameter whose template yields `omit` is dropped and the others are
   unaffected"): mirror of jinja::render_map.  The entries of a mapping (module parameters, task
   vars, set_vars values, a mapping loop item) are rendered in order; each rendered entry is added
   to the variables the later entries see (names that exist already keep their value: the spread
   `context!{..current, ..new}` looks names up from the left); an entry whose rendering is exactly
   the omit placeholder raises OmitParam and is skipped; any other error ends the whole mapping.
   How one string renders (MiniJinja) is the section's oracle. *)
From Coq Require Import List String Bool.
Import ListNotations.
Open Scope string_scope. Open Scope list_scope.

Inductive rres := ROk (v : string) | ROmit | RErr.
Definition ostore := list (string * string).          (* first hit wins *)

Section generic.
  Variable tpl : Type.
  Variable rnd : ostore -> tpl -> rres.               (* render_string followed by skip_omit *)

  Fixpoint render_map_o (cur : ostore) (kvs : list (string * tpl)) : option (list (string * string)) :=
    match kvs with
    | [] => Some []
    | (k, t) :: r =>
        match rnd cur t with
        | RErr => None
        | ROmit => render_map_o cur r
        | ROk v => option_map (cons (k, v)) (render_map_o (cur ++ [(k, v)]) r)
        end
    end.

  (* the variables the entry after [kvs] is rendered with *)
  Fixpoint ctx_after (cur : ostore) (kvs : list (string * tpl)) : option ostore :=
    match kvs with
    | [] => Some cur
    | (k, t) :: r =>
        match rnd cur t with
        | RErr => None
        | ROmit => ctx_after cur r
        | ROk v => ctx_after (cur ++ [(k, v)]) r
        end
    end.

  (* the same loop without the OmitParam arm: what render_map would be if `omit` did not exist *)
  Fixpoint render_map_plain (cur : ostore) (kvs : list (string * tpl)) : option (list (string * string)) :=
    match kvs with
    | [] => Some []
    | (k, t) :: r =>
        match rnd cur t with
        | ROk v => option_map (cons (k, v)) (render_map_plain (cur ++ [(k, v)]) r)
        | _ => None
        end
    end.

  (* an omitted entry is exactly as if it had not been written: the entries before it, and the
     entries after it, render to what they render to in the mapping without it *)
  Theorem omitted_entry_is_as_if_absent : forall a cur k t b,
    (forall c, ctx_after cur a = Some c -> rnd c t = ROmit) ->
    render_map_o cur (a ++ (k, t) :: b) = render_map_o cur (a ++ b).
  Proof.
    induction a as [|[k0 t0] a IH]; intros cur k t b H; cbn [app render_map_o].
    - now rewrite (H cur eq_refl).
    - cbn [ctx_after] in H. destruct (rnd cur t0) as [v| |].
      + now rewrite (IH _ k t b H).
      + now apply IH.
      + reflexivity.
  Qed.

  (* ... and the variables seen by whatever is rendered next are the same too *)
  Theorem omitted_entry_leaves_the_context : forall a cur k t b,
    (forall c, ctx_after cur a = Some c -> rnd c t = ROmit) ->
    ctx_after cur (a ++ (k, t) :: b) = ctx_after cur (a ++ b).
  Proof.
    induction a as [|[k0 t0] a IH]; intros cur k t b H; cbn [app ctx_after].
    - now rewrite (H cur eq_refl).
    - cbn [ctx_after] in H. destruct (rnd cur t0) as [v| |]; [now apply IH|now apply IH|reflexivity].
  Qed.

  (* nothing is invented: every entry of the result comes from an entry of the mapping that rendered
     to that value, under that key, and the order is kept *)
  Fixpoint subseq_keys (res : list (string * string)) (kvs : list (string * tpl)) : Prop :=
    match res, kvs with
    | [], _ => True
    | _ :: _, [] => False
    | (k, v) :: r, (k', _) :: kvs' => (k = k' /\ subseq_keys r kvs') \/ subseq_keys res kvs'
    end.
  Theorem result_keys_come_from_the_mapping : forall kvs cur res,
    render_map_o cur kvs = Some res -> subseq_keys res kvs.
  Proof.
    induction kvs as [|[k t] r IH]; intros cur res H; cbn [render_map_o] in H.
    - inversion H. exact I.
    - destruct (rnd cur t) as [v| |]; [|apply IH in H|discriminate].
      + destruct (render_map_o (cur ++ [(k, v)]) r) as [l|] eqn:E; [|discriminate]. inversion H; subst.
        cbn [subseq_keys]. left. split; [reflexivity|]. now apply (IH _ _ E).
      + destruct res as [|[k1 v1] res']; [exact I|]. cbn [subseq_keys]. now right.
  Qed.

  (* a mapping in which no entry renders to the placeholder is untouched by the omit machinery *)
  Theorem without_omit_nothing_differs : forall kvs cur,
    (forall c t, rnd c t <> ROmit) -> render_map_o cur kvs = render_map_plain cur kvs.
  Proof.
    induction kvs as [|[k t] r IH]; intros cur H; cbn [render_map_o render_map_plain]; [reflexivity|].
    destruct (rnd cur t) as [v| |] eqn:E; [now rewrite IH|now apply H in E|reflexivity].
  Qed.
End generic.

(* ---- an executable instance for the correspondence: the four ways an entry is written in the
   generated scripts ---- *)
Inductive oval :=
| OLit (s : string)            (* plain text *)
| OVar (k : string)            (* "{{ k }}": an undefined name is an error (strict mode) *)
| OOmit                        (* "{{ omit }}" *)
| ODefOmit (k : string).       (* "{{ k | default(omit) }}" *)

Fixpoint olookup (st : ostore) (k : string) : option string :=
  match st with [] => None | (k', v) :: r => if String.eqb k k' then Some v else olookup r k end.

Definition rnd_o (st : ostore) (v : oval) : rres :=
  match v with
  | OLit s => ROk s
  | OVar k => match olookup st k with Some x => ROk x | None => RErr end
  | OOmit => ROmit
  | ODefOmit k => match olookup st k with Some x => ROk x | None => ROmit end
  end.

Definition render_entries := render_map_o oval rnd_o.

Example omit_example :
  render_entries [("host", "h1")]
    [("a", OLit "x"); ("b", OOmit); ("c", OVar "a"); ("d", ODefOmit "nope"); ("e", ODefOmit "host"); ("host", OLit "h2"); ("f", OVar "host")]
  = Some [("a", "x"); ("c", "x"); ("e", "h1"); ("host", "h2"); ("f", "h1")].
Proof. reflexivity. Qed.
Example omit_then_reference_fails :
  render_entries [] [("b", OOmit); ("c", OVar "b")] = None.
Proof. reflexivity. Qed.
