(* C10 on the mirror of the code: every documented spelling of a token sequence is normalised by
   normalize_options to the same canonical argument vector. *)
From Coq Require Import List String Ascii Bool Lia.
From RashV Require Import Tail NormOpts.
Import ListNotations.
Open Scope string_scope. Open Scope list_scope.

Inductive ntok := NWord (w : string) | NFlag (d : odesc) | NVal (d : odesc) (v : string).

Definition cstr (k : ntok) : string :=
  match k with NWord w => w | NFlag d => simple_repr d | NVal d v => simple_repr d +s+ "=" +s+ v end.
(* what the first pass leaves: a valued option followed by its value as a separate word *)
Definition inter (k : ntok) : list string :=
  match k with NWord w => [w] | NFlag d => [simple_repr d] | NVal d v => [simple_repr d; v] end.

(* a word or value that does not start with a dash - ANY such text, brackets and bars included *)
Definition plain (w : string) : bool := negb (starts_with "-" w).

Record wf_t (t : list odesc) : Prop := {
  wf_find : forall d, In d t -> ofind t (simple_repr d) = Some d /\ starts_with "-" (simple_repr d) = true;
  wf_shortc : forall d s, In d t -> od_short d = Some s ->
              exists c, s = String "-" (String c "") /\ c <> "-"%char /\ c <> "="%char /\ ofind t s = Some d;
  wf_longc : forall d l, In d t -> od_long d = Some l ->
             exists r, l = String "-" (String "-" r) /\ contains_char "=" r = false /\ ofind t l = Some d
}.

Definition tok_ok (t : list odesc) (k : ntok) : Prop :=
  match k with
  | NWord w => plain w = true
  | NFlag d => In d t /\ is_withparam d = false
  | NVal d v => In d t /\ is_withparam d = true /\ plain v = true
  end.

(* ---- second pass ---- *)
Lemma phase2_inter t (W : wf_t t) : forall toks first,
  Forall (tok_ok t) toks ->
  phase2 false t first (flat_map inter toks) false = Some (map cstr toks).
Proof.
  induction toks as [|k r IH]; intros first F; [reflexivity|].
  inversion F as [|? ? Hk Hr]; subst. specialize (IH first Hr).
  destruct k as [w|d|d v]; cbn [flat_map inter app map cstr].
  - cbn in Hk. unfold plain in Hk. apply negb_true_iff in Hk.
    cbn [phase2]. rewrite Hk. now rewrite IH.
  - destruct Hk as [Hin Hnp]. destruct (wf_find t W d Hin) as [Hf Hs].
    cbn [phase2]. rewrite Hs, Hf, Hnp. now rewrite IH.
  - destruct Hk as (Hin & Hp & Hv). destruct (wf_find t W d Hin) as [Hf Hs].
    unfold plain in Hv. apply negb_true_iff in Hv.
    cbn [phase2]. rewrite Hs, Hf, Hp. cbn [phase2]. rewrite Hv. cbn [andb]. now rewrite IH.
Qed.

(* ---- first pass: the documented spellings of one token (or of a short cluster) ---- *)
Definition short_char (d : odesc) : ascii :=
  match od_short d with Some (String _ (String c _)) => c | _ => " "%char end.
Fixpoint cluster_chars (ds : list odesc) : string :=
  match ds with [] => "" | d :: r => String (short_char d) (cluster_chars r) end.

Definition flag_ok (t : list odesc) (d : odesc) : Prop :=
  In d t /\ is_withparam d = false /\ exists s, od_short d = Some s.

Inductive SpellN (t : list odesc) : list ntok -> list string -> Prop :=
| SNWord w : plain w = true -> SpellN t [NWord w] [w]
| SNLongFlag d l : In d t -> is_withparam d = false -> od_long d = Some l -> SpellN t [NFlag d] [l]
| SNLongEq d l v : In d t -> is_withparam d = true -> od_long d = Some l -> SpellN t [NVal d v] [l +s+ "=" +s+ v]
| SNLongSp d l v : In d t -> is_withparam d = true -> od_long d = Some l -> plain v = true -> SpellN t [NVal d v] [l; v]
| SNShorts ds : ds <> [] -> Forall (flag_ok t) ds -> SpellN t (map NFlag ds) ["-" +s+ cluster_chars ds]
| SNShortsAttached ds d s v :
    Forall (flag_ok t) ds -> In d t -> is_withparam d = true -> od_short d = Some s ->
    v <> "" -> starts_with "=" v = false ->
    contains_char (short_char d) (cluster_chars ds) = false ->
    SpellN t (map NFlag ds ++ [NVal d v]) ["-" +s+ cluster_chars ds +s+ String (short_char d) v]
| SNShortsEq ds d s v :
    Forall (flag_ok t) ds -> In d t -> is_withparam d = true -> od_short d = Some s -> v <> "" ->
    contains_char (short_char d) (cluster_chars ds) = false ->
    SpellN t (map NFlag ds ++ [NVal d v]) ["-" +s+ cluster_chars ds +s+ String (short_char d) ("=" +s+ v)]
| SNShortsSp ds d s v :
    Forall (flag_ok t) ds -> In d t -> is_withparam d = true -> od_short d = Some s -> plain v = true ->
    contains_char (short_char d) (cluster_chars ds) = false ->
    SpellN t (map NFlag ds ++ [NVal d v]) ["-" +s+ cluster_chars ds +s+ String (short_char d) ""; v].

Inductive SpellNAll (t : list odesc) : list ntok -> list string -> Prop :=
| SANil : SpellNAll t [] []
| SACons k ws ks' ws' : SpellN t k ws -> SpellNAll t ks' ws' -> SpellNAll t (k ++ ks') (ws ++ ws').

Lemma split_eq1_go_no s : forall acc, contains_char "=" s = false ->
  (fix go s acc := match s with
                   | EmptyString => (rev_s acc "", None)
                   | String "=" r => (rev_s acc "", Some r)
                   | String c r => go r (String c acc)
                   end) s acc = (rev_s (rev_s s acc) "", @None string).
Proof.
  induction s as [|c r IH]; intros acc H; [reflexivity|]. cbn in H. apply orb_false_iff in H as [H1 H2].
  assert (E : Ascii.eqb "="%char c = false) by exact H1.
  destruct c as [[] [] [] [] [] [] [] []]; try (cbn; now rewrite IH); discriminate E.
Qed.

(* reversing twice *)
Lemma rev_s_app s : forall acc, rev_s s acc = (rev_s s "" +s+ acc).
Proof.
  induction s as [|c r IH]; intro acc; cbn; [reflexivity|]. rewrite IH, (IH (String c "")).
  clear IH. induction (rev_s r "") as [|x y IHy]; cbn; [reflexivity|now rewrite IHy].
Qed.
Lemma append_nil_r s : s +s+ "" = s. Proof. induction s; cbn; [reflexivity|now rewrite IHs]. Qed.
Lemma append_assoc a b c : (a +s+ b) +s+ c = a +s+ (b +s+ c).
Proof. induction a; cbn; [reflexivity|now rewrite IHa]. Qed.
Lemma rev_s_invol s : rev_s (rev_s s "") "" = s.
Proof.
  induction s as [|c r IH]; [reflexivity|]. cbn. rewrite (rev_s_app r (String c "")).
  assert (G : forall a b, rev_s (a +s+ b) "" = (rev_s b "" +s+ rev_s a "")).
  { induction a as [|x y IHy]; intro b; cbn; [now rewrite append_nil_r|].
    rewrite (rev_s_app (y +s+ b)), IHy, (rev_s_app y (String x "")), append_assoc. reflexivity. }
  rewrite G. cbn. now rewrite IH.
Qed.

Lemma split_eq1_no s : contains_char "=" s = false -> split_eq1 s = (s, None).
Proof. intro H. unfold split_eq1. rewrite split_eq1_go_no by assumption. cbn. now rewrite rev_s_invol. Qed.

Lemma split_eq1_val_go s v : forall acc, contains_char "=" s = false ->
  (fix go s acc := match s with
                   | EmptyString => (rev_s acc "", None)
                   | String "=" r => (rev_s acc "", Some r)
                   | String c r => go r (String c acc)
                   end) (s +s+ String "=" v) acc = (rev_s (rev_s s acc) "", Some v).
Proof.
  induction s as [|c r IH]; intros acc H; [reflexivity|]. cbn in H. apply orb_false_iff in H as [H1 H2].
  assert (E : Ascii.eqb "="%char c = false) by exact H1.
  destruct c as [[] [] [] [] [] [] [] []]; try (cbn; now rewrite IH); discriminate E.
Qed.
Lemma split_eq1_val s v : contains_char "=" s = false -> split_eq1 (s +s+ "=" +s+ v) = (s, Some v).
Proof. intro H. unfold split_eq1. cbn [append]. rewrite split_eq1_val_go by assumption. cbn. now rewrite rev_s_invol. Qed.

Lemma long_simple_repr d l : od_long d = Some l -> simple_repr d = l.
Proof. intro H. unfold simple_repr. now rewrite H. Qed.

Lemma contains_app c a b : contains_char c (a +s+ b) = orb (contains_char c a) (contains_char c b).
Proof. induction a as [|x y IH]; cbn; [reflexivity|]. rewrite IH. now rewrite orb_assoc. Qed.

(* unstacking a run of flags *)
Lemma unstack_flags t (W : wf_t t) arg : forall ds rest,
  Forall (flag_ok t) ds ->
  unstack t arg (cluster_chars ds +s+ rest) = map simple_repr ds ++ unstack t arg rest.
Proof.
  induction ds as [|d ds IH]; intros rest F; [reflexivity|].
  inversion F as [|? ? (Hin & Hnp & s & Hs) Fr]; subst.
  destruct (wf_shortc t W d s Hin Hs) as (c & -> & Hc1 & Hc2 & Hf).
  cbn [cluster_chars append unstack]. unfold short_char. rewrite Hs.
  rewrite Hf, Hnp. cbn [map app]. now rewrite IH.
Qed.

Lemma after_first_skip c a b : contains_char c a = false -> after_first c (a +s+ String c b) = Some b.
Proof.
  induction a as [|x y IH]; cbn; intro H; [now rewrite Ascii.eqb_refl|].
  apply orb_false_iff in H as [H1 H2]. rewrite H1. now apply IH.
Qed.

Lemma flat_inter_flags ds : flat_map inter (map NFlag ds) = map simple_repr ds.
Proof. induction ds as [|d r IH]; cbn; [reflexivity|now rewrite IH]. Qed.

Lemma phase1_word_plain t w : plain w = true -> phase1_word t w = [w].
Proof.
  unfold plain. intro H. apply negb_true_iff in H.
  destruct w as [|c r]; [reflexivity|]. cbn in H.
  destruct c as [[] [] [] [] [] [] [] []]; try reflexivity. discriminate H.
Qed.

Lemma phase1_word_short t c r : c <> "-"%char ->
  phase1_word t (String "-" (String c r)) = unstack t (String "-" (String c r)) (String c r).
Proof.
  intro H. assert (E : Ascii.eqb c "-" = false) by (now apply Ascii.eqb_neq).
  destruct c as [[] [] [] [] [] [] [] []]; try reflexivity. discriminate E.
Qed.

Lemma cluster_no_eq t (W : wf_t t) ds : Forall (flag_ok t) ds ->
  contains_char "=" (cluster_chars ds) = false /\ contains_char "-" (cluster_chars ds) = false.
Proof.
  induction 1 as [|d r (Hin & _ & s & Hs) _ IH]; [split; reflexivity|].
  destruct (wf_shortc t W d s Hin Hs) as (c & -> & Hc1 & Hc2 & _). destruct IH as [I1 I2].
  cbn [cluster_chars contains_char]. unfold short_char. rewrite Hs. rewrite I1, I2. split; apply orb_false_iff; split; auto.
  - apply Ascii.eqb_neq. congruence.
  - apply Ascii.eqb_neq. congruence.
Qed.

Lemma short_char_spec t (W : wf_t t) d s : In d t -> od_short d = Some s ->
  s = String "-" (String (short_char d) "") /\ short_char d <> "-"%char /\ short_char d <> "="%char /\ ofind t s = Some d.
Proof.
  intros Hin Hs. destruct (wf_shortc t W d s Hin Hs) as (c & -> & Hc1 & Hc2 & Hf).
  unfold short_char. rewrite Hs. auto.
Qed.

Lemma cluster_head t (W : wf_t t) ds tail_ :
  ds <> [] -> Forall (flag_ok t) ds -> exists c r, cluster_chars ds +s+ tail_ = String c r /\ c <> "-"%char.
Proof.
  intros Hne F. destruct ds as [|d r]; [congruence|]. inversion F as [|? ? (Hin & _ & s & Hs) _]; subst.
  destruct (short_char_spec t W d s Hin Hs) as (_ & Hc & _). cbn. eauto.
Qed.

Lemma phase1_spell t (W : wf_t t) k ws : SpellN t k ws -> phase1 t ws = flat_map inter k.
Proof.
  intro S. destruct S; unfold phase1; cbn [flat_map]; rewrite ?app_nil_r; cbn [inter].
  - now apply phase1_word_plain.
  - destruct (wf_longc t W d l H H1) as (r & -> & Hne & _). rewrite (long_simple_repr d _ H1).
    cbn [phase1_word inter]. rewrite split_eq1_no; [reflexivity|]. cbn. exact Hne.
  - destruct (wf_longc t W d l H H1) as (r & -> & Hne & Hfd). rewrite (long_simple_repr d _ H1).
    cbn [append phase1_word inter].
    change (String "-" (String "-" (r +s+ String "=" v))) with ((String "-" (String "-" r)) +s+ "=" +s+ v).
    rewrite split_eq1_val; [now rewrite Hfd, H0|]. cbn. exact Hne.
  - destruct (wf_longc t W d l H H1) as (r & -> & Hne & _). rewrite (long_simple_repr d _ H1).
    cbn [phase1_word inter]. rewrite split_eq1_no by (cbn; exact Hne).
    rewrite (phase1_word_plain t v H2). reflexivity.
  - destruct (cluster_head t W ds "" H H0) as (c & r & E & Hc). rewrite append_nil_r in E.
    cbn [append]. rewrite E, (phase1_word_short t c r Hc), <- E.
    rewrite <- (append_nil_r (cluster_chars ds)) at 2. rewrite (unstack_flags t W _ ds "" H0).
    cbn [unstack]. now rewrite app_nil_r, flat_inter_flags.
  - (* -abcoV *)
    destruct (short_char_spec t W d s H0 H2) as (Es & Hc1 & Hc2 & Hf).
    assert (Hhead : exists c r, cluster_chars ds +s+ String (short_char d) v = String c r /\ c <> "-"%char).
    { destruct ds as [|d0 r0]; [cbn; eauto|]. eapply cluster_head; eauto. discriminate. }
    destruct Hhead as (c & r & E & Hc). cbn [append]. rewrite E, (phase1_word_short t c r Hc), <- E.
    rewrite (unstack_flags t W _ ds _ H). cbn [unstack]. rewrite <- Es, Hf, H1.
    change (String "-" (cluster_chars ds +s+ String (short_char d) v)) with ((String "-" (cluster_chars ds)) +s+ String (short_char d) v).
    rewrite after_first_skip.
    + destruct v as [|x y]; [congruence|].
      assert (Nx : x <> "="%char).
      { intro Ex. subst x. unfold starts_with in H4. cbn in H4. discriminate H4. }
      assert (Hx : match String x y with String "=" r' => r' | _ => String x y end = String x y).
      { destruct x as [[] [] [] [] [] [] [] []]; try reflexivity. congruence. }
      rewrite Hx. rewrite flat_map_app, flat_inter_flags. reflexivity.
    + cbn [contains_char]. rewrite H5. assert (Ascii.eqb (short_char d) "-" = false) by (now apply Ascii.eqb_neq). now rewrite H6.
  - (* -abco=V *)
    destruct (short_char_spec t W d s H0 H2) as (Es & Hc1 & Hc2 & Hf).
    assert (Hhead : exists c r, cluster_chars ds +s+ String (short_char d) (String "=" v) = String c r /\ c <> "-"%char).
    { destruct ds as [|d0 r0]; [cbn; eauto|]. eapply cluster_head; eauto. discriminate. }
    destruct Hhead as (c & r & E & Hc). cbn [append]. rewrite E, (phase1_word_short t c r Hc), <- E.
    rewrite (unstack_flags t W _ ds _ H). cbn [unstack]. rewrite <- Es, Hf, H1.
    change (String "-" (cluster_chars ds +s+ String (short_char d) (String "=" v))) with ((String "-" (cluster_chars ds)) +s+ String (short_char d) (String "=" v)).
    rewrite after_first_skip.
    + destruct v as [|x y]; [congruence|]. rewrite flat_map_app, flat_inter_flags. reflexivity.
    + cbn [contains_char]. rewrite H4. assert (Ascii.eqb (short_char d) "-" = false) by (now apply Ascii.eqb_neq). now rewrite H5.
  - (* -abco V *)
    destruct (short_char_spec t W d s H0 H2) as (Es & Hc1 & Hc2 & Hf).
    assert (Hhead : exists c r, cluster_chars ds +s+ String (short_char d) "" = String c r /\ c <> "-"%char).
    { destruct ds as [|d0 r0]; [cbn; eauto|]. eapply cluster_head; eauto. discriminate. }
    destruct Hhead as (c & r & E & Hc). cbn [append]. rewrite E, (phase1_word_short t c r Hc), <- E.
    rewrite (unstack_flags t W _ ds _ H). cbn [unstack]. rewrite <- Es, Hf, H1.
    change (String "-" (cluster_chars ds +s+ String (short_char d) "")) with ((String "-" (cluster_chars ds)) +s+ String (short_char d) "").
    rewrite after_first_skip.
    + rewrite (phase1_word_plain t v H3), flat_map_app, flat_inter_flags. cbn. now rewrite <- app_assoc.
    + cbn [contains_char]. rewrite H4. assert (Ascii.eqb (short_char d) "-" = false) by (now apply Ascii.eqb_neq). now rewrite H5.
Qed.

Lemma phase1_spell_all t (W : wf_t t) ks ws : SpellNAll t ks ws -> phase1 t ws = flat_map inter ks.
Proof.
  induction 1 as [|k ws ks' ws' S _ IH]; [reflexivity|].
  unfold phase1 in *. rewrite !flat_map_app, IH. f_equal. now apply (phase1_spell t W).
Qed.

(* every documented spelling of the tokens normalises to the canonical argument vector *)
Theorem normalize_spelling t ks ws :
  wf_t t -> SpellNAll t ks ws -> Forall (tok_ok t) ks -> normalize_options t ws = Some (map cstr ks).
Proof.
  intros W S F. unfold normalize_options. rewrite (phase1_spell_all t W ks ws S).
  destruct (flat_map inter ks) as [|x l] eqn:E.
  - destruct ks as [|k r]; [reflexivity|]. destruct k; discriminate E.
  - rewrite <- E. now apply phase2_inter.
Qed.

Corollary equivalent_spellings_normalise_alike t ks a b :
  wf_t t -> SpellNAll t ks a -> SpellNAll t ks b -> Forall (tok_ok t) ks ->
  normalize_options t a = normalize_options t b.
Proof. intros W A B F. now rewrite (normalize_spelling t ks a W A F), (normalize_spelling t ks b W B F). Qed.

(* non-vacuity: the option table of the sweep, as the code describes it, is well formed *)
Definition sweep_odescs : list odesc :=
  [ {| od_kind := OSimple; od_short := Some "-f"; od_long := Some "--force" |};
    {| od_kind := OWithParam (Some "dd"); od_short := Some "-o"; od_long := Some "--out" |};
    {| od_kind := OSimple; od_short := Some "-q"; od_long := None |};
    {| od_kind := OWithParam None; od_short := None; od_long := Some "--level" |} ].
Example sweep_odescs_wf : wf_t sweep_odescs.
Proof.
  split.
  - intros d Hin. cbn in Hin. repeat destruct Hin as [<-|Hin]; try destruct Hin; split; reflexivity.
  - intros d s Hin Hs. cbn in Hin. repeat destruct Hin as [<-|Hin]; try destruct Hin; cbn in Hs; inversion Hs; subst;
      eexists; (split; [reflexivity|split; [discriminate|split; [discriminate|reflexivity]]]).
  - intros d l Hin Hl. cbn in Hin. repeat destruct Hin as [<-|Hin]; try destruct Hin; cbn in Hl; inversion Hl; subst;
      eexists; (split; [reflexivity|split; reflexivity]).
Qed.
