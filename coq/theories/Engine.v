(* Mirror of the task engine: context.rs::Context::exec, task/mod.rs::Task::{exec, exec_module,
   exec_module_rendered, extend_vars, render_params, is_exec, render_iterator, is_changed},
   jinja/mod.rs::render_map, modules set_vars / debug / assert / command / include, and
   bin/rash.rs::main's control flow, over a small expression/template language that stands
   for minijinja (fragment validated by the correspondence runs). *)
From Coq Require Import List String Ascii Bool NArith ZArith.
From RashV Require Sexp.
Import ListNotations.
Open Scope string_scope. Open Scope list_scope.
Notation "a +s+ b" := (String.append a b) (at level 60, right associativity).

(* ------------------------------------------------------------------ values, store *)
Inductive val :=
| VUndef
| VStr (s : string)
| VBool (b : bool)
| VNum (n : N)
| VMap (m : list (string * val))
| VNone                                  (* none / null *)
| VList (n : nat).                       (* a sequence of n elements (only its emptiness matters here) *)

Definition store := list (string * val).     (* first hit wins: prepending shadows *)

Fixpoint lookup (st : store) (k : string) : val :=
  match st with
  | [] => VUndef
  | (k', v) :: r => if String.eqb k' k then v else lookup r k
  end.

Fixpoint lookup_path (v : val) (p : list string) : val :=
  match p with
  | [] => v
  | k :: r => match v with VMap m => lookup_path (lookup m k) r | _ => VUndef end
  end.

Definition get (st : store) (p : list string) : val :=
  match p with [] => VUndef | k :: r => lookup_path (lookup st k) r end.

(* ------------------------------------------------------------------ expressions, templates *)
Inductive expr :=
| EVar (p : list string)
| EStr (s : string)
| EBool (b : bool)
| EEq (a b : expr)
| ENe (a b : expr)
| ENot (a : expr)
| EAnd (a b : expr)
| EOr (a b : expr)
| EDefined (p : list string)
| ENotDefined (p : list string).

Definition truthy (v : val) : bool :=
  match v with
  | VUndef => false
  | VStr s => negb (String.eqb s "")
  | VBool b => b
  | VNum n => negb (N.eqb n 0)
  | VMap m => match m with [] => false | _ => true end
  | VNone => false
  | VList n => match n with O => false | _ => true end
  end.

Definition val_eqb (a b : val) : bool :=
  match a, b with
  | VStr x, VStr y => String.eqb x y
  | VBool x, VBool y => Bool.eqb x y
  | VNum x, VNum y => N.eqb x y
  | _, _ => false
  end.

Fixpoint eval (st : store) (e : expr) : val :=
  match e with
  | EVar p => get st p
  | EStr s => VStr s
  | EBool b => VBool b
  | EEq a b => VBool (val_eqb (eval st a) (eval st b))
  | ENe a b => VBool (negb (val_eqb (eval st a) (eval st b)))
  | ENot a => VBool (negb (truthy (eval st a)))
  | EAnd a b => if truthy (eval st a) then VBool (truthy (eval st b)) else VBool false
  | EOr a b => if truthy (eval st a) then VBool true else VBool (truthy (eval st b))
  | EDefined p => VBool (match get st p with VUndef => false | _ => true end)
  | ENotDefined p => VBool (match get st p with VUndef => true | _ => false end)
  end.

(* is_render_string: {% if E %}true{% else %}false{% endif %}; testing an undefined value is an error *)
Definition cond (st : store) (e : expr) : option bool :=
  match e with
  | EVar p => match get st p with VUndef => None | v => Some (truthy v) end
  | _ => Some (truthy (eval st e))
  end.

Inductive tpart := TLit (s : string) | TVar (p : list string) | TExp (e : expr).
Definition template := list tpart.

Definition N_to_text (n : N) : string := RashV.Sexp.N_to_string n.

Definition show_val (v : val) : option string :=
  match v with
  | VUndef => None                      (* strict undefined *)
  | VStr s => Some s
  | VBool true => Some "true"
  | VBool false => Some "false"
  | VNum n => Some (N_to_text n)
  | VMap _ => Some "{..}"               (* never generated *)
  | VNone => Some "none"
  | VList _ => Some "[..]"              (* never generated *)
  end.

Fixpoint render (st : store) (t : template) : option string :=
  match t with
  | [] => Some ""
  | TLit s :: r => option_map (append s) (render st r)
  | TVar p :: r => match show_val (get st p), render st r with
                   | Some a, Some b => Some (a +s+ b) | _, _ => None end
  | TExp e :: r => match show_val (eval st e), render st r with
                   | Some a, Some b => Some (a +s+ b) | _, _ => None end
  end.

(* ------------------------------------------------------------------ tasks *)
Inductive modcall :=
| MDebugMsg (t : template)
| MDebugVar (p : list string)
| MSetVars (kvs : list (string * template))
| MSetLit (k : string) (v : val)                       (* set_vars with one typed YAML literal: [], {}, ~, 0, "", ... *)
| MAssert (es : list expr)
| MCommand (label : string) (out : string) (rc : N)    (* sh: printf out; echo label >> log; exit rc *)
| MCopy (label : string)                               (* copy content=label to ROOT/out/label *)
| MInclude (file : string)
| MBadParam.                                           (* debug with an unknown parameter *)

Record task := {
  t_when : option expr;
  t_loop : option (list template);
  t_register : option string;
  t_vars : list (string * template);
  t_ignore : bool;
  t_changed_when : option expr;
  t_mod : modcall
}.

Inductive event :=
| EvOut (s : string)        (* one record written to stdout in raw mode *)
| EvAny                     (* an ignored error whose text is not modelled *)
| EvEffect (label : string) (* the managed system was touched: marker line / file created *).

Inductive outcome (A : Type) := Ok (a : A) | Fail.
Arguments Ok {A} a. Arguments Fail {A}.

(* file system of scripts: name -> tasks (None = the file does not parse / has an invalid task) *)
Definition files := list (string * option (list task)).
Fixpoint find_file (fs : files) (n : string) : option (option (list task)) :=
  match fs with
  | [] => None
  | (k, v) :: r => if String.eqb k n then Some v else find_file r n
  end.

(* builtins: rash.path / rash.dir of a script name *)
Definition dirname (n : string) : string :=
  (fix go (s acc cur : string) : string :=
     match s with
     | EmptyString => acc
     | String "/" r => go r (acc +s+ cur +s+ "/") ""
     | String c r => go r acc (cur +s+ String c "")
     end) n "" "".
Definition builtins (root n : string) : val :=
  let d := dirname n in
  VMap [("path", VStr (root +s+ "/" +s+ n));
        ("dir", VStr (match d with
                      | EmptyString => root
                      | _ => root +s+ "/" +s+ substring 0 (String.length d - 1) d
                      end))].

(* jinja::render_map: parameters rendered in order, an earlier parameter is visible to the
   later ones unless an existing variable has the same name *)
Fixpoint render_map (cur : store) (kvs : list (string * template)) : option (list (string * string)) :=
  match kvs with
  | [] => Some []
  | (k, t) :: r =>
      match render cur t with
      | None => None
      | Some v => match render_map (cur ++ [(k, VStr v)]) r with
                  | Some l => Some ((k, v) :: l)
                  | None => None
                  end
      end
  end.

(* Task::extend_vars: rendered task vars in front of the incoming store *)
Definition extend_vars (t : task) (st : store) : option store :=
  match render_map st (t_vars t) with
  | Some l => Some (map (fun '(k, v) => (k, VStr v)) l ++ st)
  | None => None
  end.

Definition result_val (changed : bool) (output : option string) (extra : list (string * val)) : val :=
  VMap [("changed", VBool changed);
        ("output", match output with Some o => VStr o | None => VUndef end);
        ("extra", VMap extra)].

(* what a module returns: changed, output, extra, resulting store *)
Record mres := { m_changed : bool; m_output : option string; m_extra : list (string * val); m_vars : store }.

Inductive mout :=
| MOk (evs : list event) (r : mres)
| MErr (evs : list event) (msg : option string)    (* module error; message if modelled *)
| MRenderErr.                                       (* rendering the parameters failed *)

Definition runner := list task -> store -> list event * outcome store.

(* The recorded deviations of the code from the property text, as switches: all true = the
   mirror of the current code, all false = the behaviour the properties describe. *)
Record quirks := {
  q_render_not_ignorable : bool;  (* K5: a failure while rendering when/params/loop ends the run even under ignore_errors *)
  q_item_leaks : bool;            (* K2: the loop's `item` layer stays in the store after the loop *)
  q_include_discards : bool;      (* K4: variables written inside an included file are dropped on return *)
  q_no_task_vars : bool           (* K3: changed_when / assert / debug var do not see the task's own vars *)
}.
Definition mirror_quirks := {| q_render_not_ignorable := true; q_item_leaks := true; q_include_discards := true; q_no_task_vars := true |}.
Definition spec_quirks := {| q_render_not_ignorable := false; q_item_leaks := false; q_include_discards := false; q_no_task_vars := false |}.

Fixpoint remove_nth {A} (n : nat) (l : list A) : list A :=
  match l with
  | [] => []
  | x :: r => match n with O => r | S n' => x :: remove_nth n' r end
  end.

Section exec.
  Variable q : quirks.
  Variable root : string.
  Variable fs : files.
  Variable run_inc : runner.     (* how an included file is run (one unit of fuel less) *)

  Fixpoint assert_all (st : store) (es : list expr) : mout :=
    match es with
    | [] => MOk [] {| m_changed := false; m_output := None; m_extra := []; m_vars := st |}
    | e :: r => match cond st e with
                | Some true => assert_all st r
                | Some false => MErr [] (Some "assert")
                | None => MErr [] None
                end
    end.

  (* Module::exec. [st] is the store the module receives (NOT extended by the task's vars),
     [ext] the extended store its parameters were rendered with *)
  Definition exec_mod (t : task) (st ext : store) : mout :=
    let seen := if q_no_task_vars q then st else ext in
    match t_mod t with
    | MDebugMsg tp =>
        match render ext tp with
        | Some s => MOk [] {| m_changed := false; m_output := Some s; m_extra := []; m_vars := st |}
        | None => MRenderErr
        end
    | MDebugVar p =>
        match show_val (get seen p) with
        | Some s => MOk [] {| m_changed := false; m_output := Some s; m_extra := []; m_vars := st |}
        | None => MErr [] None
        end
    | MSetVars kvs =>
        match render_map ext kvs with
        | None => MRenderErr
        | Some l =>
            MOk [] {| m_changed := false; m_output := None; m_extra := [];
                      m_vars := fold_left (fun acc '(k, v) => (k, VStr v) :: acc) l st |}
        end
    | MSetLit k v =>
        MOk [] {| m_changed := false; m_output := None; m_extra := []; m_vars := (k, v) :: st |}
    | MAssert es => match assert_all seen es with
                    | MOk evs r => MOk evs {| m_changed := false; m_output := None; m_extra := []; m_vars := st |}
                    | x => x
                    end
    | MCommand label out rc =>
        if N.eqb rc 0
        then MOk [EvEffect label]
                 {| m_changed := true; m_output := match out with EmptyString => None | _ => Some out end;
                    m_extra := [("rc", VNum 0); ("stderr", VStr "")]; m_vars := st |}
        else MErr [EvEffect label] (Some "")
    | MCopy label =>
        MOk [EvEffect label]
            {| m_changed := true; m_output := Some (root +s+ "/out/" +s+ label); m_extra := []; m_vars := st |}
    | MInclude file =>
        match find_file fs file with
        | None => MErr [] None
        | Some None => MErr [] None
        | Some (Some its) =>
            let inc := ("rash", builtins root file) :: st in
            match run_inc its inc with
            | (evs, Ok st') =>
                MOk evs {| m_changed := false; m_output := None; m_extra := [];
                           m_vars := ("rash", lookup st "rash") :: (if q_include_discards q then inc else st') |}
            | (evs, Fail) => MErr evs None
            end
        end
    | MBadParam => MErr [] None
    end.

  Definition is_include (t : task) : bool := match t_mod t with MInclude _ => true | _ => false end.

  Definition ignored_event (msg : option string) : event :=
    match msg with Some "assert" => EvAny | Some m => EvOut m | None => EvAny end.

  (* Task::exec_module + exec_module_rendered *)
  (* a failure raised while rendering (vars, when, params, loop) *)
  Definition render_failure (t : task) (st : store) : list event * outcome store :=
    if andb (negb (q_render_not_ignorable q)) (t_ignore t) then ([EvAny], Ok st) else ([], Fail).

  Definition exec_module (t : task) (st : store) : list event * outcome store :=
    match extend_vars t st with
    | None => render_failure t st
    | Some ext =>
        match (match t_when t with Some e => cond ext e | None => Some true end) with
        | None => render_failure t st
        | Some false => ([], Ok st)
        | Some true =>
            match exec_mod t st ext with
            | MRenderErr => render_failure t st
            | MErr evs msg =>
                if t_ignore t then (evs ++ [ignored_event msg], Ok st) else (evs, Fail)
            | MOk evs r =>
                match (match t_changed_when t with
                       | Some e => if q_no_task_vars q then cond (m_vars r) e
                                   else match extend_vars t (m_vars r) with
                                        | Some ext' => cond ext' e
                                        | None => None
                                        end
                       | None => Some (m_changed r)
                       end) with
                | None =>
                    (* changed_when failed to render: the module has run; in the code the error propagates *)
                    if andb (negb (q_render_not_ignorable q)) (t_ignore t) then (evs ++ [EvAny], Ok st) else (evs, Fail)
                | Some ch =>
                    let line := if is_include t then []
                                else [EvOut (match m_output r with Some o => o | None => "" end)] in
                    let newv := match t_register t with
                                | Some reg => (reg, result_val (m_changed r) (m_output r) (m_extra r)) :: m_vars r
                                | None => m_vars r
                                end in
                    (evs ++ line, Ok newv)
                end
            end
        end
    end.

  Fixpoint render_items (ext : store) (l : list template) : option (list string) :=
    match l with
    | [] => Some []
    | i :: r => match render ext i, render_items ext r with
                | Some a, Some b => Some (a :: b) | _, _ => None end
    end.

  Fixpoint exec_items (t : task) (its : list string) (ctx : store) : list event * outcome store :=
    match its with
    | [] => ([], Ok ctx)
    | it :: r =>
        match exec_module t (("item", VStr it) :: ctx) with
        | (evs, Ok ctx') =>
            (* the module's writes are in front of the `item` layer *)
            let ctx'' := if q_item_leaks q then ctx'
                         else remove_nth (List.length ctx' - List.length ctx - 1) ctx' in
            let '(evs', res) := exec_items t r ctx'' in (evs ++ evs', res)
        | (evs, Fail) => (evs, Fail)
        end
    end.

  (* Task::exec *)
  Definition exec_task (t : task) (st : store) : list event * outcome store :=
    match t_loop t with
    | None => exec_module t st
    | Some items =>
        match extend_vars t (("item", VStr "") :: st) with
        | None => render_failure t st
        | Some ext =>
            match render_items ext items with
            | None => render_failure t st
            | Some its => exec_items t its st
            end
        end
    end.

  (* Context::exec *)
  Fixpoint exec_list (ts : list task) (st : store) : list event * outcome store :=
    match ts with
    | [] => ([], Ok st)
    | t :: r =>
        match exec_task t st with
        | (evs, Ok st') => let '(evs', res) := exec_list r st' in (evs ++ evs', res)
        | (evs, Fail) => (evs, Fail)
        end
    end.
End exec.

Fixpoint run_tasks (q : quirks) (root : string) (fs : files) (fuel : nat) (ts : list task) (st : store)
  : list event * outcome store :=
  match fuel with
  | O => ([], Fail)
  | S f => exec_list q root fs (run_tasks q root fs f) ts st
  end.

(* ------------------------------------------------------------------ bin/rash.rs::main *)
Inductive docopt_result := DAccept (vars : store) | DReject | DHelp (text : string).

Record run_result := { r_events : list event; r_exit_ok : bool }.

(* main: docopt first, then parse_file of the WHOLE file (None = some task is invalid), then exec *)
Definition main (q : quirks) (root : string) (fs : files) (fuel : nat) (script : string) (d : docopt_result)
                (env : store) : run_result :=
  match d with
  | DReject => {| r_events := []; r_exit_ok := false |}
  | DHelp text => {| r_events := [EvOut text]; r_exit_ok := true |}
  | DAccept vars =>
      match find_file fs script with
      | None | Some None => {| r_events := []; r_exit_ok := false |}
      | Some (Some ts) =>
          let st := ("rash", builtins root script) :: vars ++ env in
          match run_tasks q root fs fuel ts st with
          | (evs, Ok _) => {| r_events := evs; r_exit_ok := true |}
          | (evs, Fail) => {| r_events := evs; r_exit_ok := false |}
          end
      end
  end.
