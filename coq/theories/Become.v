(* C14 / C15: mirror of the `become` branch of task/mod.rs::exec_module - how the target user is
   looked up, which of the three execution paths is taken (in process / forked child / credentials
   dropped in the main process before a transfer_pid exec), with which credentials the module runs
   and what the main process keeps.  setgid/setuid/fork/execve themselves are the kernel's contract. *)
From Coq Require Import List String Ascii Bool NArith Lia.
Import ListNotations.
Open Scope string_scope. Open Scope list_scope. Open Scope N_scope.

Record user := { u_name : string; u_uid : N; u_gid : N }.
Definition passwd := list user.

Definition by_name (db : passwd) (n : string) : option user := find (fun u => String.eqb (u_name u) n) db.
Definition by_uid (db : passwd) (i : N) : option user := find (fun u => N.eqb (u_uid u) i) db.

(* str::parse::<u32>: an optional '+', then one or more ASCII digits, value below 2^32 *)
Definition digit (c : ascii) : option N :=
  let n := N_of_ascii c in if andb (N.leb 48 n) (N.leb n 57) then Some (n - 48) else None.
Fixpoint digits (s : string) (acc : N) : option N :=
  match s with
  | EmptyString => Some acc
  | String c r => match digit c with
                  | Some d => let v := acc * 10 + d in if N.ltb v 4294967296 then digits r v else None
                  | None => None
                  end
  end.
Definition parse_u32 (s : string) : option N :=
  let body := match s with String "+" r => r | _ => s end in
  match body with EmptyString => None | _ => digits body 0 end.

(* User::from_name(become_user), else become_user.parse::<u32>() and User::from_uid: the entry found
   carries BOTH the uid and the primary gid that will be set *)
Definition lookup_user (db : passwd) (s : string) : option user :=
  match by_name db s with
  | Some u => Some u
  | None => match parse_u32 s with Some i => by_uid db i | None => None end
  end.

(* task/valid.rs::get_task: how the command line (--become, -u USER) and the task keywords combine: become if either
   says so; the task's own become_user wins over the command line's *)
Record global_params := { g_become : bool; g_user : string }.
Definition effective_become (g : global_params) (t_become : bool) : bool := if g_become g then true else t_become.
Definition effective_user (g : global_params) (t_user : option string) : string :=
  match t_user with Some u => u | None => g_user g end.

Record creds := { c_uid : N; c_gid : N }.

Inductive path_taken :=
| InProcess                 (* become off, or the target is the current user: nothing changes *)
| ForkedChild               (* the module runs in a child that dropped to the target; the parent waits *)
| DropThenExec              (* command + transfer_pid: the main process itself drops, then execs *)
| UserNotFound.             (* the task fails *)

Record become_params := { b_become : bool; b_user : string; b_is_command : bool; b_transfer_pid : bool }.

Definition path_of (db : passwd) (cur : creds) (p : become_params) : path_taken :=
  if negb (b_become p) then InProcess
  else match lookup_user db (b_user p) with
       | None => UserNotFound
       | Some u =>
           if N.eqb (u_uid u) (c_uid cur) then InProcess
           else if andb (b_is_command p) (b_transfer_pid p) then DropThenExec
           else ForkedChild
       end.

(* credentials the module code runs with / credentials of the main process afterwards *)
Definition module_creds (db : passwd) (cur : creds) (p : become_params) : option creds :=
  match path_of db cur p with
  | InProcess => Some cur
  | ForkedChild | DropThenExec =>
      match lookup_user db (b_user p) with
      | Some u => Some {| c_uid := u_uid u; c_gid := u_gid u |}
      | None => None
      end
  | UserNotFound => None
  end.
Definition main_creds_after (db : passwd) (cur : creds) (p : become_params) : creds :=
  match path_of db cur p with
  | DropThenExec => match module_creds db cur p with Some c => c | None => cur end   (* the process is replaced anyway *)
  | _ => cur
  end.

(* ------------------------------------------------------------------ theorems *)
Lemma find_some_in {A} (f : A -> bool) l x : find f l = Some x -> In x l /\ f x = true.
Proof. apply find_some. Qed.

(* the module runs with the uid AND the primary gid of ONE passwd entry - the one named, or the one
   with that number - never with a gid made up from the number *)
Theorem become_sets_uid_and_gid_of_the_entry db cur p c :
  b_become p = true -> module_creds db cur p = Some c -> c <> cur ->
  exists u, In u db /\ c_uid c = u_uid u /\ c_gid c = u_gid u /\
            (u_name u = b_user p \/ parse_u32 (b_user p) = Some (u_uid u)).
Proof.
  unfold module_creds, path_of. intros B. rewrite B. cbn [negb].
  unfold lookup_user.
  destruct (by_name db (b_user p)) as [u|] eqn:En.
  - apply find_some_in in En as [Hin Hn]. apply String.eqb_eq in Hn.
    destruct (N.eqb (u_uid u) (c_uid cur)).
    + intros H; inversion H; subst. contradiction.
    + destruct (andb (b_is_command p) (b_transfer_pid p)); intros H _; inversion H; subst; exists u; cbn; auto.
  - destruct (parse_u32 (b_user p)) as [i|] eqn:Ep; [|discriminate].
    destruct (by_uid db i) as [u|] eqn:Eu; [|discriminate].
    apply find_some_in in Eu as [Hin Hi]. apply N.eqb_eq in Hi. subst i.
    destruct (N.eqb (u_uid u) (c_uid cur)).
    + intros H; inversion H; subst. contradiction.
    + destruct (andb (b_is_command p) (b_transfer_pid p)); intros H _; inversion H; subst; exists u; cbn; auto.
Qed.

(* a name wins over a number: `become_user: "1000"` means the user NAMED 1000 if there is one *)
Theorem name_has_precedence db s u : by_name db s = Some u -> lookup_user db s = Some u.
Proof. unfold lookup_user. now intros ->. Qed.

(* C15: the main process keeps its own credentials, whatever the task does - unless it hands the
   process over (transfer_pid), in which case there is no "afterwards" *)
Theorem main_process_keeps_its_credentials db cur p :
  path_of db cur p <> DropThenExec -> main_creds_after db cur p = cur.
Proof. unfold main_creds_after. destruct (path_of db cur p); congruence. Qed.

(* C15: without become, or when the target is the current user, nothing at all differs *)
Theorem no_become_no_change db cur p : b_become p = false -> path_of db cur p = InProcess /\ module_creds db cur p = Some cur.
Proof. intro B. unfold module_creds, path_of. rewrite B. auto. Qed.

(* C14: under become a transfer_pid command never forks: the process that execs is the main one (same
   PID), with the target's uid and gid *)
Theorem transfer_under_become_does_not_fork db cur p u :
  b_become p = true -> b_is_command p = true -> b_transfer_pid p = true ->
  lookup_user db (b_user p) = Some u -> u_uid u <> c_uid cur ->
  path_of db cur p = DropThenExec /\ module_creds db cur p = Some {| c_uid := u_uid u; c_gid := u_gid u |}.
Proof.
  intros B C T L N. unfold module_creds, path_of. rewrite B, L, C, T. cbn [negb andb].
  apply N.eqb_neq in N. rewrite N. auto.
Qed.

(* an unknown user fails the task (and nothing runs with any other identity) *)
Theorem unknown_user_fails db cur p :
  b_become p = true -> lookup_user db (b_user p) = None -> path_of db cur p = UserNotFound /\ module_creds db cur p = None.
Proof. intros B L. unfold module_creds, path_of. rewrite B, L. auto. Qed.

(* a task's own become_user is honoured whatever the command line says *)
Theorem task_user_wins g u : effective_user g (Some u) = u.
Proof. reflexivity. Qed.
Theorem command_line_become_applies_to_every_task g tb : g_become g = true -> effective_become g tb = true.
Proof. unfold effective_become. now intros ->. Qed.

(* K32: on the transfer_pid path the main process has given its credentials away before execvp is
   even tried - if the exec then fails (and the failure is ignored) the script goes on as the other user *)
Theorem main_credentials_lost_on_handover_refuted_K32 :
  let db := [ {| u_name := "root"; u_uid := 0; u_gid := 0 |}; {| u_name := "nobody"; u_uid := 65534; u_gid := 65534 |} ] in
  let cur := {| c_uid := 0; c_gid := 0 |} in
  let p := {| b_become := true; b_user := "nobody"; b_is_command := true; b_transfer_pid := true |} in
  path_of db cur p = DropThenExec /\ main_creds_after db cur p = {| c_uid := 65534; c_gid := 65534 |} /\ main_creds_after db cur p <> cur.
Proof. cbv zeta. split; [vm_compute; reflexivity|]. split; [vm_compute; reflexivity|]. vm_compute. discriminate. Qed.

(* sanity: a passwd with a user whose gid differs from its uid, by name and by number; a numeric string
   that is also a NAME; out-of-range and malformed numbers *)
Definition pw_ex : passwd :=
  [ {| u_name := "root"; u_uid := 0; u_gid := 0 |}; {| u_name := "sync"; u_uid := 4; u_gid := 65534 |};
    {| u_name := "nobody"; u_uid := 65534; u_gid := 65534 |}; {| u_name := "7"; u_uid := 1000; u_gid := 1001 |};
    {| u_name := "lp"; u_uid := 7; u_gid := 7 |} ].
Example lookup_examples :
  option_map u_gid (lookup_user pw_ex "sync") = Some 65534 /\ option_map u_gid (lookup_user pw_ex "4") = Some 65534
  /\ option_map u_uid (lookup_user pw_ex "7") = Some 1000 /\ option_map u_uid (lookup_user pw_ex "+4") = Some 4
  /\ option_map u_uid (lookup_user pw_ex "004") = Some 4
  /\ lookup_user pw_ex "4294967296" = None /\ lookup_user pw_ex "-1" = None /\ lookup_user pw_ex "" = None
  /\ lookup_user pw_ex "+" = None /\ lookup_user pw_ex "4 " = None /\ lookup_user pw_ex "5" = None.
Proof. repeat split; vm_compute; reflexivity. Qed.
