(* C12: the way a string value travels into a module parameter.
   - [scan]: minijinja's lexer as far as it matters here: text before the first opening
     delimiter ("{{", "{%", "{#") is literal;
   - the two pipelines of jinja::_render (force_string = true / false);
   - set_vars' second render; the YAML plain-scalar resolution that re-types a rendered text.
   minijinja's expression evaluation is a Section variable with two stated laws. *)
From Coq Require Import List String Ascii Bool NArith.
Import ListNotations.
Open Scope string_scope. Open Scope list_scope.

(* does the text contain an opening template delimiter *)
Fixpoint has_open (s : string) : bool :=
  match s with
  | String "{" (String c r as t) =>
      if orb (Ascii.eqb c "{") (orb (Ascii.eqb c "%") (Ascii.eqb c "#")) then true else has_open t
  | String _ r => has_open r
  | EmptyString => false
  end.

Inductive yval := YNull | YBool (b : bool) | YNum (text : string) | YStr (s : string) | YOther.

(* ---- YAML 1.2 core-schema resolution of a one-line plain scalar (serde_yaml), conservative:
   [plain_string s = true] only when s certainly resolves to the string s itself ---- *)
Definition is_digit (c : ascii) : bool := let n := N_of_ascii c in andb (N.leb 48 n) (N.leb n 57).
Definition is_alpha (c : ascii) : bool :=
  let n := N_of_ascii c in orb (andb (N.leb 65 n) (N.leb n 90)) (andb (N.leb 97 n) (N.leb n 122)).
Fixpoint all_chars (f : ascii -> bool) (s : string) : bool :=
  match s with EmptyString => true | String c r => andb (f c) (all_chars f r) end.
Definition reserved_word (s : string) : bool :=
  existsb (String.eqb s) ["null"; "Null"; "NULL"; "true"; "True"; "TRUE"; "false"; "False"; "FALSE";
                           "nan"; "NaN"; "NAN"; "inf"; "Inf"; "INF"; "y"; "n"; "yes"; "no"; "on"; "off"].
(* a plain string for sure: starts with a letter, consists of letters, digits, '_' and single
   inner '-' or '.', and is not one of the reserved words *)
Definition safe_char (c : ascii) : bool :=
  orb (is_alpha c) (orb (is_digit c) (orb (Ascii.eqb c "_") (orb (Ascii.eqb c "-") (Ascii.eqb c ".")))).
Definition plain_string (s : string) : bool :=
  match s with
  | EmptyString => false
  | String c r => andb (is_alpha c) (andb (all_chars safe_char r) (negb (reserved_word s)))
  end.

Section pipelines.
  (* minijinja: render a template text against a store in which variable "x" holds the string v *)
  Variable render_tpl : string -> string -> option string.   (* template text -> value of x -> output *)
  Variable yaml_parse : string -> yval.                       (* serde_yaml::from_str on a rendered text *)

  (* the two laws the theorems rest on (validated by the correspondence run, recorded in the trusted base) *)
  Definition Law_literal : Prop := forall t v, has_open t = false -> render_tpl t v = Some t.
  Definition Law_substitute : Prop := forall v, render_tpl "{{ x }}" v = Some v.
  Definition Law_yaml_plain : Prop := forall s, plain_string s = true -> yaml_parse s = YStr s.

  (* jinja::_render on a string parameter *)
  Definition param_pipeline (force_string : bool) (t v : string) : option yval :=
    match render_tpl t v with
    | None => None
    | Some out => Some (if force_string then YStr out else yaml_parse out)
    end.

  (* set_vars: the parameter was rendered once (force_string) by render_params, the module renders
     the RESULT again, typed *)
  Definition set_vars_pipeline (t v : string) : option yval :=
    match param_pipeline true t v with
    | Some (YStr once) => param_pipeline false once v
    | x => x
    end.

  (* text without delimiters reaches the module unchanged *)
  Theorem literal_param_verbatim : Law_literal -> forall t v, has_open t = false -> param_pipeline true t v = Some (YStr t).
  Proof. intros L t v H. unfold param_pipeline. now rewrite (L t v H). Qed.

  (* a substituted value arrives byte for byte, whatever it contains: no second evaluation, no
     YAML parse, no trimming *)
  Theorem substituted_param_verbatim : Law_substitute -> forall v, param_pipeline true "{{ x }}" v = Some (YStr v).
  Proof. intros L v. unfold param_pipeline. now rewrite (L v). Qed.

  (* set_vars / vars keep a value that is a plain YAML string without delimiters; outside that
     class the code re-evaluates (K6) or re-types (K7) *)
  Definition known_retyped (v : string) : bool := negb (andb (plain_string v) (negb (has_open v))).

  Theorem set_vars_keeps_plain_strings :
    Law_literal -> Law_substitute -> Law_yaml_plain ->
    forall v, known_retyped v = false -> set_vars_pipeline "{{ x }}" v = Some (YStr v).
  Proof.
    intros L1 L2 L3 v H. unfold known_retyped in H. apply negb_false_iff, andb_true_iff in H as [Hp Ho].
    apply negb_true_iff in Ho. unfold set_vars_pipeline. rewrite (substituted_param_verbatim L2 v).
    unfold param_pipeline. rewrite (L1 v v Ho). now rewrite (L3 v Hp).
  Qed.

  Theorem typed_param_keeps_plain_strings :
    Law_substitute -> Law_yaml_plain ->
    forall v, plain_string v = true -> param_pipeline false "{{ x }}" v = Some (YStr v).
  Proof. intros L2 L3 v H. unfold param_pipeline. now rewrite (L2 v), (L3 v H). Qed.
End pipelines.

(* the deviations, exhibited on an evaluator that satisfies the laws *)
Definition toy_render (t v : string) : option string :=
  if String.eqb t "{{ x }}" then Some v
  else if String.eqb t "{{ 1 + 1 }}" then Some "2"
  else if has_open t then None else Some t.
Definition toy_yaml (s : string) : yval :=
  if plain_string s then YStr s else if String.eqb s "k: v" then YOther else if String.eqb s "2" then YNum "2" else YStr s.

Lemma toy_laws : Law_literal toy_render /\ Law_substitute toy_render /\ Law_yaml_plain toy_yaml.
Proof.
  split; [|split].
  - intros t v H. unfold toy_render.
    destruct (String.eqb t "{{ x }}") eqn:E1; [apply String.eqb_eq in E1; subst; discriminate|].
    destruct (String.eqb t "{{ 1 + 1 }}") eqn:E2; [apply String.eqb_eq in E2; subst; discriminate|].
    now rewrite H.
  - intro v. reflexivity.
  - intros s H. unfold toy_yaml. rewrite H. reflexivity.
Qed.

(* K6: a value that contains template code is executed on its way through set_vars *)
Theorem set_vars_single_pass_refuted_K6 :
  set_vars_pipeline toy_render toy_yaml "{{ x }}" "{{ 1 + 1 }}" = Some (YNum "2") /\ known_retyped "{{ 1 + 1 }}" = true.
Proof. split; reflexivity. Qed.

(* K7: a string that looks like YAML turns into a mapping in a typed context *)
Theorem typed_string_preserved_refuted_K7 :
  param_pipeline toy_render toy_yaml false "{{ x }}" "k: v" = Some YOther /\ known_retyped "k: v" = true.
Proof. split; reflexivity. Qed.

Example plain_examples :
  plain_string "hello" = true /\ plain_string "a-b.c_9" = true /\ plain_string "true" = false /\
  plain_string "7" = false /\ plain_string "" = false /\ plain_string "k: v" = false /\ plain_string " x" = false.
Proof. repeat split. Qed.
