(* C15: what crosses the process boundary under `become`: the child's resulting store is sent
   as serde_json::to_string(&Value) and read back with from_str + Value::from_serialize.
   Model of the value layer of that codec (the JSON text layer is trusted). *)
From Coq Require Import List String Bool ZArith.
Import ListNotations.
Open Scope list_scope.

Inductive mval :=                       (* a minijinja value *)
| MUndef | MNone | MBool (b : bool) | MInt (z : Z) | MStr (s : string)
| MSeq (l : list mval) | MMap (m : list (string * mval)).

Inductive json := JNull | JBool (b : bool) | JNum (z : Z) | JString (s : string)
| JArr (l : list json) | JObj (m : list (string * json)).

Fixpoint to_json (v : mval) : json :=
  match v with
  | MUndef | MNone => JNull              (* Serialize for Value: undefined and none both become unit *)
  | MBool b => JBool b
  | MInt z => JNum z
  | MStr s => JString s
  | MSeq l => JArr (map to_json l)
  | MMap m => JObj (map (fun kv => (fst kv, to_json (snd kv))) m)
  end.

Fixpoint of_json (j : json) : mval :=
  match j with
  | JNull => MNone
  | JBool b => MBool b
  | JNum z => MInt z
  | JString s => MStr s
  | JArr l => MSeq (map of_json l)
  | JObj m => MMap (map (fun kv => (fst kv, of_json (snd kv))) m)
  end.

(* values that survive: everything except an undefined value somewhere inside *)
Fixpoint stable (v : mval) : bool :=
  match v with
  | MUndef => false
  | MSeq l => forallb stable l
  | MMap m => forallb (fun kv => stable (snd kv)) m
  | _ => true
  end.

Section mval_ind.
  Variable P : mval -> Prop.
  Hypothesis H0 : P MUndef. Hypothesis H1 : P MNone. Hypothesis H2 : forall b, P (MBool b).
  Hypothesis H3 : forall z, P (MInt z). Hypothesis H4 : forall s, P (MStr s).
  Hypothesis H5 : forall l, Forall P l -> P (MSeq l).
  Hypothesis H6 : forall m, Forall (fun kv => P (snd kv)) m -> P (MMap m).
  Fixpoint mval_ind' (v : mval) : P v :=
    match v with
    | MUndef => H0 | MNone => H1 | MBool b => H2 b | MInt z => H3 z | MStr s => H4 s
    | MSeq l => H5 l ((fix f (l : list mval) : Forall P l :=
                         match l with [] => Forall_nil _ | x :: r => Forall_cons _ (mval_ind' x) (f r) end) l)
    | MMap m => H6 m ((fix f (m : list (string * mval)) : Forall (fun kv => P (snd kv)) m :=
                         match m with [] => Forall_nil _ | x :: r => Forall_cons _ (mval_ind' (snd x)) (f r) end) m)
    end.
End mval_ind.

Theorem roundtrip v : stable v = true -> of_json (to_json v) = v.
Proof.
  induction v using mval_ind'; cbn; intro S; try reflexivity; try discriminate.
  - f_equal. rewrite map_map. induction l as [|x r IH]; [reflexivity|].
    cbn in S. apply andb_true_iff in S as [Sx Sr]. inversion H; subst. cbn. f_equal; auto.
  - f_equal. rewrite map_map. induction m as [|[k x] r IH]; [reflexivity|].
    cbn in S. apply andb_true_iff in S as [Sx Sr]. inversion H; subst. cbn in *. f_equal; [f_equal; auto|auto].
Qed.

(* nested, unicode (strings are arbitrary byte strings), numeric, boolean, none, large: all stable *)
Example stable_example :
  stable (MMap [("a"%string, MSeq [MInt 1; MStr "é"; MBool true; MNone]); ("b"%string, MInt (-5)%Z)]) = true.
Proof. reflexivity. Qed.

(* an undefined value does not survive: it comes back as none *)
Theorem roundtrip_undefined_refuted : of_json (to_json MUndef) <> MUndef.
Proof. discriminate. Qed.

(* the decision logic of the parent: child exited 0 and sent a store -> that store decoded;
   anything else -> the task failed (and ignore_errors was already applied inside the child) *)
Inductive child_report := ChildOk (store : mval) | ChildFailed.
Definition parent_result (r : child_report) : option mval :=
  match r with ChildOk st => Some (of_json (to_json st)) | ChildFailed => None end.

Theorem become_same_store st : stable st = true -> parent_result (ChildOk st) = Some st.
Proof. intro S. cbn. now rewrite roundtrip. Qed.
