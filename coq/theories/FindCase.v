(* Case runner for C16. *)
From Coq Require Import List String Ascii Bool NArith.
From RashV Require Import Sexp Find.
Import ListNotations.
Open Scope string_scope. Open Scope list_scope.

Fixpoint dec_tree (e : sexp) : option tree :=
  match e with
  | SList [Atom "f"; n; s] => match atom_bytes n, atom_N s with Some n, Some s => Some (F n s) | _, _ => None end
  | SList [Atom "l"; n] => option_map L (atom_bytes n)
  | SList (Atom "d" :: n :: kids) =>
      match atom_bytes n,
            (fix go (l : list sexp) : option (list tree) :=
               match l with
               | [] => Some []
               | x :: r => match dec_tree x, go r with Some y, Some t => Some (y :: t) | _, _ => None end
               end) kids with
      | Some n, Some ks => Some (D n ks)
      | _, _ => None
      end
  | _ => None
  end.

Definition dec_re (e : sexp) : option re :=
  match e with
  | Atom "any" => Some RAny
  | SList [Atom "sub"; s] => option_map RSub (atom_bytes s)
  | SList [Atom "pre"; s] => option_map RPre (atom_bytes s)
  | SList [Atom "suf"; s] => option_map RSuf (atom_bytes s)
  | SList [Atom "full"; s] => option_map RFull (atom_bytes s)
  | _ => None
  end.

Definition dec_ftype (e : sexp) : option ftype :=
  match e with
  | Atom "any" => Some TAny | Atom "directory" => Some TDirectory | Atom "file" => Some TFile | Atom "link" => Some TLink
  | _ => None end.

Definition dec_root (e : sexp) : option (list string * tree) :=
  match e with
  | SList [SList pre; t] => match map_opt atom_bytes pre, dec_tree t with Some p, Some t => Some (p, t) | _, _ => None end
  | _ => None
  end.

Definition enc_kind (k : kind) : sexp := Atom (match k with KFile => "f" | KDir => "d" | KLink => "l" end).

(* (find (roots (PRE TREE)...) TYPE HIDDEN RECURSE (patterns RE...) (excludes RE...) SIZE|none) *)
Definition run_find (e : sexp) : option sexp :=
  match e with
  | SList [Atom "find"; SList (Atom "roots" :: rs); ft; h; r; SList (Atom "patterns" :: ps); SList (Atom "excludes" :: xs); sz] =>
      match map_opt dec_root rs, dec_ftype ft, atom_bool h, atom_bool r, map_opt dec_re ps, map_opt dec_re xs with
      | Some rs, Some ft, Some h, Some r, Some ps, Some xs =>
          let size := match sz with Atom "none" => Some None | a => option_map Some (atom_N a) end in
          match size with
          | None => None
          | Some size =>
              let p := {| f_type := ft; f_hidden := h; f_recurse := r; f_patterns := ps; f_excludes := xs; f_size := size |} in
              Some (SList (map (fun en => SList (map bytes_atom (e_path en))) (find_impl p rs)))
          end
      | _, _, _, _, _, _ => None
      end
  | _ => None
  end.
