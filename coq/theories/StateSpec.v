(* Reference ("declared state") for the state modules, written from the property text of
   C04, and the decidable classes of the recorded findings K8/K9. *)
From Coq Require Import List String Ascii Bool NArith.
From RashV Require Import Fs Octal StateMods Pacman.
Import ListNotations.
Open Scope string_scope. Open Scope list_scope. Open Scope N_scope.

Definition node_perm (n : node) : N :=
  match n with NFile _ m => mask_perm m | NDir m => mask_perm m | NLink _ => 511 end.

(* requested permission bits of a copy/template task, read in the world before the task *)
Definition want_mode (wb : world) (src : option path) (m : modespec) : option (option N) :=
  match m with
  | MNone => Some None
  | MStr s => match parse_octal s with OOk n => Some (Some (mask_perm n)) | OErr => None end
  | MPreserve =>
      match src with
      | Some sp => match stat wb sp with Some n => Some (Some (node_perm n)) | None => None end
      | None => None
      end
  end.

Definition mode_ok (want : option (option N)) (have : N) : bool :=
  match want with
  | Some None => true
  | Some (Some m) => N.eqb have m
  | None => false
  end.

(* no mode requested: an existing regular destination keeps the permission bits it had *)
Definition keep_mode_ok (wb : world) (dest : path) (m : modespec) (have : N) : bool :=
  match m with
  | MNone => match stat wb dest with Some (NFile _ m0) => N.eqb have (mask_perm m0) | _ => true end
  | _ => true
  end.

Definition file_mode_ok (ms : option string) (have : N) : bool :=
  match ms with
  | None => true
  | Some s => match parse_octal s with OOk n => N.eqb have n | OErr => false end
  end.

(* declared_b t before after : the state task t declares holds in [after] *)
Definition declared_b (t : task) (wb wa : world) : bool :=
  match t with
  | TCopy p =>
      let want := match cp_input p with
                  | IContent c => Some c
                  | ISrc sp => read_src wb sp
                  end in
      let srcp := match cp_input p with ISrc sp => Some sp | _ => None end in
      match want, stat wa (cp_dest p) with
      | Some c, Some (NFile c' m') =>
          andb (andb (String.eqb c c') (mode_ok (want_mode wb srcp (cp_mode p)) (mask_perm m')))
               (keep_mode_ok wb (cp_dest p) (cp_mode p) (mask_perm m'))
      | _, _ => false
      end
  | TTemplate p rendered =>
      match rendered, stat wa (tp_dest p) with
      | Some c, Some (NFile c' m') =>
          andb (andb (String.eqb c c') (mode_ok (want_mode wb (Some (tp_src p)) (tp_mode p)) (mask_perm m')))
               (keep_mode_ok wb (tp_dest p) (tp_mode p) (mask_perm m'))
      | _, _ => false
      end
  | TFile p =>
      match fp_state p with
      | SAbsent => match lstat wa (fp_path p) with None => true | Some _ => false end
      | SFile =>
          match stat wa (fp_path p) with
          | Some n => file_mode_ok (fp_mode p) (node_perm n)
          | None => false
          end
      | SDirectory =>
          match stat wa (fp_path p) with
          | Some (NDir m) => file_mode_ok (fp_mode p) (mask_perm m)
          | _ => false
          end
      | STouch =>
          match stat wa (fp_path p) with
          | Some (NFile _ m) => file_mode_ok (fp_mode p) (mask_perm m)
          | _ => false
          end
      end
  end.

(* scope of the theorems about copy-from-src / template: source and destination are not
   the same file (otherwise "the content of src" is itself changed by the task) *)
Definition no_alias (t : task) (w : world) : bool :=
  match t with
  | TCopy p =>
      match cp_input p with
      | ISrc src => negb (path_eqb (res w src) (res w (cp_dest p)))
      | IContent _ => true
      end
  | TTemplate p _ => negb (path_eqb (res w (tp_src p)) (res w (tp_dest p)))
  | TFile _ => true
  end.

(* ---- recorded finding classes (call-site granularity) ---- *)
(* what template hands to copy_file *)
Definition template_copy_params (p : template_params) (w : world) (text : string) : option copy_params :=
  match tp_mode p with
  | MPreserve =>
      match stat w (tp_src p) with
      | Some n => Some {| cp_input := IContent text; cp_dest := tp_dest p;
                          cp_mode := MStr (to_octal (mask_perm (st_mode n))) |}
      | None => None
      end
  | m => Some {| cp_input := IContent text; cp_dest := tp_dest p; cp_mode := m |}
  end.

(* the anonymous file check mode opens in place of a missing destination gets the permission bits a
   newly created destination gets (both are 0666 & ~umask; the harness probes it per umask) *)
Definition tmp_like_create (e : env) : Prop := mask_perm (tmpmode e) = mask_perm (file_create_mode e).

(* a numeric mode that differs from the bits a created file gets: a chmod follows the creation *)
Definition mode_pending (e : env) (p : copy_params) : bool :=
  match cp_mode p with
  | MStr ms => match parse_octal ms with
               | OOk m => negb (N.eqb (mask_perm (file_create_mode e)) (mask_perm m))
               | OErr => false
               end
  | _ => false
  end.

(* K8: copy/template whose desired content is empty onto a destination that does not exist, with no
   chmod to follow: the file is created but the task reports ok (and check mode, which compares with
   an anonymous empty file, reports ok too) *)
Definition kec_copy (e : env) (p : copy_params) (w : world) : bool :=
  match stat w (cp_dest p) with
  | Some _ => false
  | None =>
      andb (match cp_input p with
            | IContent c => String.eqb c ""
            | ISrc sp => match read_src w sp with Some c => String.eqb c "" | None => true end
            end)
           (negb (mode_pending e p))
  end.
Definition known_empty_create (e : env) (t : task) (w : world) : bool :=
  match t with
  | TCopy p => kec_copy e p w
  | TTemplate p (Some c) => match template_copy_params p w c with Some cp => kec_copy e cp w | None => false end
  | _ => false
  end.

(* K9: file state=directory on an existing non-directory / state=touch on an existing
   non-regular-file: reports ok (or only chmods) and leaves the type as it is *)
Definition known_type_mismatch (t : task) (w : world) : bool :=
  match t with
  | TFile p =>
      match fp_state p, stat w (fp_path p) with
      | SDirectory, Some (NFile _ _) => true
      | STouch, Some (NDir _) => true
      | _, _ => false
      end
  | _ => false
  end.

(* K9: file state=absent on a dangling symlink: metadata() follows the link, fails, and the
   task reports ok with the link still in place *)
Definition known_absent_dangling (t : task) (w : world) : bool :=
  match t with
  | TFile p =>
      match fp_state p, lstat w (fp_path p), stat w (fp_path p) with
      | SAbsent, Some (NLink _), None => true
      | _, _, _ => false
      end
  | _ => false
  end.

(* ---- pacman: declared package state ---- *)
Definition subset (a b : list string) : bool := forallb (fun x => mem x b) a.
Definition pdeclared_b (p : pparams) (d : db) : bool :=
  match pp_state p with
  | PPresent => subset (pp_names p) (installed d)
  | PAbsent => forallb (fun x => negb (mem x (installed d))) (pp_names p)
  | PSync => andb (subset (pp_names p) (explicit d)) (subset (explicit d) (pp_names p))
  end.

(* K19: state=sync naming a package that is installed as a dependency: `--sync --needed`
   skips it, so the explicit set never reaches the declared one and every run reports changed *)
Definition known_sync_dependency (p : pparams) (d : db) : bool :=
  match pp_state p with
  | PSync => existsb (fun x => andb (mem x (installed d)) (negb (mem x (explicit d)))) (pp_names p)
  | _ => false
  end.

(* K24: check mode does not refresh the sync database (it must not modify the machine), so with
   update_cache + upgrade it answers "upgradable?" from the stale database, while the real run
   refreshes first: the two answers differ exactly when the refresh changes the answer *)
Definition known_check_skips_refresh (p : pparams) (d : db) : bool :=
  andb (pp_update_cache p) (andb (pp_upgrade p) (xorb (upgradable d) (upgradable (db_refresh d)))).
