(* C11: "any task in the file is not a mapping with exactly one module plus known task keywords":
   mirror of task/new.rs::validate_attrs followed by task/valid.rs::get_module_name, and of
   task::read_tasks over a whole file (a file is accepted only if EVERY entry is).
   A YAML mapping never has two equal keys (serde_yaml rejects the file), so the keys are distinct. *)
From Coq Require Import List String Bool.
Import ListNotations.
Open Scope string_scope. Open Scope list_scope.

(* a key of the task mapping: a string, or anything else (number, boolean, null, sequence, mapping) *)
Inductive tkey := KStr (s : string) | KOther.

(* one entry of the task list as YAML gives it *)
Inductive rawtask := RMap (keys : list tkey) | RNotMap.   (* string, number, null, sequence ... *)

(* modules::MODULES *)
Definition modules : list string :=
  ["assert"; "command"; "copy"; "debug"; "file"; "find"; "include"; "pacman"; "set_vars"; "template"].
(* the fields of struct Task (derive FieldNames) less the three internal ones: Task::is_attr *)
Definition keywords : list string :=
  ["become"; "become_user"; "changed_when"; "check_mode"; "ignore_errors"; "name"; "loop"; "register"; "vars"; "when"].

Definition mem (s : string) (l : list string) : bool := existsb (String.eqb s) l.
Definition is_module (s : string) : bool := mem s modules.
Definition is_attr (s : string) : bool := mem s keywords.

(* validate_attrs: a mapping, every key a string, every key a module or a keyword *)
Definition key_ok (k : tkey) : bool :=
  match k with KStr s => orb (is_module s) (is_attr s) | KOther => false end.
Definition key_is_module (k : tkey) : bool := match k with KStr s => is_module s | KOther => false end.

(* get_module_name: exactly one of the keys names a module *)
Definition valid_task (t : rawtask) : bool :=
  match t with
  | RNotMap => false
  | RMap ks => andb (forallb key_ok ks) (Nat.eqb (List.length (filter key_is_module ks)) 1)
  end.

(* read_tasks: the file's tasks are built (and then run) only if every entry is valid *)
Definition valid_file (ts : list rawtask) : bool := forallb valid_task ts.

(* ------------------------------------------------------------------ theorems *)
Lemma filter_length_one {A} (f : A -> bool) (l : list A) :
  List.length (filter f l) = 1 -> exists a b x, l = a ++ x :: b /\ f x = true /\ forallb (fun y => negb (f y)) (a ++ b) = true.
Proof.
  induction l as [|y l IH]; cbn [filter]; [discriminate|].
  destruct (f y) eqn:E; cbn [length].
  - intro H. exists [], l, y. cbn [app]. split; [reflexivity|]. split; [exact E|].
    assert (L : List.length (filter f l) = 0) by (injection H; auto).
    clear H IH E. induction l as [|z l IH]; [reflexivity|]. cbn [filter] in L. cbn [forallb].
    destruct (f z); [discriminate L|]. cbn. now apply IH.
  - intro H. destruct (IH H) as (a & b & x & -> & Hx & Hr). exists (y :: a), b, x. cbn [app forallb]. rewrite E. cbn.
    split; [reflexivity|]. split; assumption.
Qed.

(* the accepted tasks are exactly the mappings with string keys that consist of ONE module key and,
   beside it, known keywords only *)
Theorem valid_task_iff ks :
  valid_task (RMap ks) = true <->
  exists a b m, ks = a ++ KStr m :: b /\ is_module m = true /\
                forallb (fun k => match k with KStr s => andb (is_attr s) (negb (is_module s)) | KOther => false end) (a ++ b) = true.
Proof.
  cbn [valid_task]. split.
  - intro H. apply andb_true_iff in H as [Hok Hone]. apply PeanoNat.Nat.eqb_eq in Hone.
    destruct (filter_length_one _ _ Hone) as (a & b & x & -> & Hx & Hr).
    destruct x as [m|]; [|cbn [key_is_module] in Hx; discriminate Hx]. exists a, b, m. split; [reflexivity|]. split; [exact Hx|].
    rewrite forallb_app in Hok. cbn [forallb] in Hok. apply andb_true_iff in Hok as [Ha Hb]. apply andb_true_iff in Hb as [_ Hb].
    rewrite forallb_app in Hr |- *. apply andb_true_iff in Hr as [Ra Rb].
    assert (G : forall l, forallb key_ok l = true -> forallb (fun y => negb (key_is_module y)) l = true ->
                          forallb (fun k => match k with KStr s => andb (is_attr s) (negb (is_module s)) | KOther => false end) l = true).
    { induction l as [|k l IH]; [reflexivity|]. cbn [forallb]. intros H1 H2.
      apply andb_true_iff in H1 as [K1 L1]. apply andb_true_iff in H2 as [K2 L2]. rewrite (IH L1 L2), andb_true_r.
      destruct k as [s|]; [|cbn [key_ok] in K1; discriminate K1]. cbn [key_ok key_is_module] in K1, K2.
      destruct (is_module s); [discriminate K2|]. cbn [orb negb] in K1 |- *. now rewrite K1. }
    now rewrite (G a Ha Ra), (G b Hb Rb).
  - intros (a & b & m & -> & Hm & Hr). rewrite forallb_app in Hr. apply andb_true_iff in Hr as [Ra Rb].
    assert (G : forall l, forallb (fun k => match k with KStr s => andb (is_attr s) (negb (is_module s)) | KOther => false end) l = true ->
                          forallb key_ok l = true /\ filter key_is_module l = []).
    { induction l as [|k l IH]; [split; reflexivity|]. cbn [forallb filter]. intro H. apply andb_true_iff in H as [K L].
      destruct (IH L) as [I1 I2]. destruct k as [s|]; [|discriminate K]. apply andb_true_iff in K as [K1 K2]. apply negb_true_iff in K2.
      cbn [key_ok key_is_module]. rewrite K1, K2, I1, I2. split; [now rewrite orb_true_r|reflexivity]. }
    destruct (G a Ra) as [A1 A2]. destruct (G b Rb) as [B1 B2].
    rewrite forallb_app, filter_app. cbn [forallb filter key_ok key_is_module]. rewrite Hm, A1, A2, B1, B2. reflexivity.
Qed.

(* whatever else a task carries, ONE key that is neither a module nor a keyword - or not a string -
   makes it invalid: near-miss spellings are not forgiven *)
Theorem unknown_key_invalidates a b k : key_ok k = false -> valid_task (RMap (a ++ k :: b)) = false.
Proof.
  intro H. cbn [valid_task]. rewrite forallb_app. cbn [forallb]. rewrite H. now rewrite andb_false_r.
Qed.

(* ... and one invalid entry anywhere invalidates the file: none of its tasks is built *)
Theorem invalid_entry_invalidates_file a b t : valid_task t = false -> valid_file (a ++ t :: b) = false.
Proof.
  intro H. unfold valid_file. rewrite forallb_app. cbn [forallb]. rewrite H. now rewrite andb_false_r.
Qed.
Theorem valid_file_iff ts : valid_file ts = true <-> forall t, In t ts -> valid_task t = true.
Proof. apply forallb_forall. Qed.

(* ---- the VALUES of three keywords are checked when the task is built (task/valid.rs::get_task; K53, K54 fixed):
   `when` and `changed_when` must be absent (null), a boolean, a number, a string, or a list of those;
   `check_mode` must be absent or a boolean.  Anything else refuses the script. ---- *)
Inductive yv := YNull | YBool | YNum | YStr | YSeq (l : list yv) | YMap.
Definition scalar (v : yv) : bool := match v with YBool | YNum | YStr => true | _ => false end.
Definition cond_ok (v : yv) : bool :=
  match v with
  | YNull | YBool | YNum | YStr => true
  | YSeq l => forallb scalar l
  | YMap => false
  end.
Definition flag_ok (v : yv) : bool := match v with YNull | YBool => true | _ => false end.
Record taskvals := { v_when : yv; v_changed_when : yv; v_check_mode : yv }.
Definition values_ok (tv : taskvals) : bool :=
  andb (cond_ok (v_when tv)) (andb (cond_ok (v_changed_when tv)) (flag_ok (v_check_mode tv))).
Definition valid_entry (t : rawtask) (tv : taskvals) : bool := andb (valid_task t) (values_ok tv).
Definition valid_entries (ts : list (rawtask * taskvals)) : bool := forallb (fun p => valid_entry (fst p) (snd p)) ts.

(* a condition that cannot be read is never "no condition": the task - and with it the file - is refused *)
Theorem unreadable_condition_invalidates t tv :
  cond_ok (v_when tv) = false \/ cond_ok (v_changed_when tv) = false \/ flag_ok (v_check_mode tv) = false ->
  valid_entry t tv = false.
Proof.
  unfold valid_entry, values_ok. intros [H|[H|H]]; rewrite H; now rewrite ?andb_false_r.
Qed.
Theorem invalid_values_invalidate_file a b t tv :
  valid_entry t tv = false -> valid_entries (a ++ (t, tv) :: b) = false.
Proof.
  intro H. unfold valid_entries. rewrite forallb_app. cbn [forallb fst snd]. rewrite H. now rewrite andb_false_r.
Qed.
(* what is readable: exactly null, scalars and lists of scalars; a list with a null or a nested list is not *)
Example cond_examples :
  cond_ok YNull = true /\ cond_ok (YSeq [YBool; YNum; YStr]) = true /\ cond_ok (YSeq [YBool; YNull]) = false
  /\ cond_ok (YSeq [YSeq [YBool]]) = false /\ cond_ok YMap = false /\ flag_ok YStr = false /\ flag_ok YNum = false /\ flag_ok YBool = true.
Proof. repeat split; reflexivity. Qed.

(* the two name sets do not overlap: no word is both (a keyword named like a module would make a task
   with that single key valid and empty) *)
Example modules_and_keywords_disjoint : forallb (fun k => negb (is_module k)) keywords = true.
Proof. reflexivity. Qed.

Example valid_examples :
  valid_task (RMap [KStr "debug"; KStr "when"; KStr "vars"]) = true
  /\ valid_task (RMap [KStr "name"; KStr "command"]) = true
  /\ valid_task (RMap [KStr "name"; KStr "when"]) = false                       (* no module *)
  /\ valid_task (RMap [KStr "debug"; KStr "command"]) = false                   (* two modules *)
  /\ valid_task (RMap [KStr "debug"; KStr "ignore-errors"]) = false             (* dash for underscore *)
  /\ valid_task (RMap [KStr "debug"; KStr "When"]) = false
  /\ valid_task (RMap [KStr "debug"; KStr "module"]) = false                    (* internal field *)
  /\ valid_task (RMap [KStr "debug"; KOther]) = false
  /\ valid_task (RMap []) = false
  /\ valid_task RNotMap = false.
Proof. repeat split; reflexivity. Qed.
