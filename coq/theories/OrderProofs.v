(* C09 (after the fix of K11): the usage that gets matched is the first matching one of the
   SORTED expanded usages, so it cannot depend on the order in which the hash set yields them. *)
From Coq Require Import List String Ascii Bool NArith Lia Permutation.
From RashV Require Import Order.
Import ListNotations.
Open Scope list_scope.


Lemma ascii_compare_trans_lt a b c :
  Ascii.compare a b = Lt -> Ascii.compare b c = Lt -> Ascii.compare a c = Lt.
Proof. unfold Ascii.compare. rewrite !N.compare_lt_iff. lia. Qed.

Lemma compare_trans_le : forall a b c,
  String.compare a b <> Gt -> String.compare b c <> Gt -> String.compare a c <> Gt.
Proof.
  induction a as [|x a IH]; intros [|y b] [|z c] H1 H2; cbn in *; try congruence.
  destruct (Ascii.compare x y) eqn:Exy; try congruence.
  - apply Ascii.compare_eq_iff in Exy. subst y.
    destruct (Ascii.compare x z) eqn:Exz; try congruence. now apply (IH b c).
  - destruct (Ascii.compare y z) eqn:Eyz; try congruence.
    + apply Ascii.compare_eq_iff in Eyz. subst z. now rewrite Exy.
    + now rewrite (ascii_compare_trans_lt _ _ _ Exy Eyz).
Qed.

Lemma leb_trans a b c : String.leb a b = true -> String.leb b c = true -> String.leb a c = true.
Proof.
  unfold String.leb. intros H1 H2.
  assert (String.compare a c <> Gt).
  { apply (compare_trans_le a b c); [destruct (String.compare a b)|destruct (String.compare b c)]; congruence. }
  destruct (String.compare a c); congruence.
Qed.

Lemma geb_total a b : geb a b = true \/ geb b a = true.
Proof. unfold geb. apply String.leb_total. Qed.
Lemma geb_antisym a b : geb a b = true -> geb b a = true -> a = b.
Proof. unfold geb. intros H1 H2. now apply String.leb_antisym. Qed.
Lemma geb_trans a b c : geb a b = true -> geb b c = true -> geb a c = true.
Proof. unfold geb. intros H1 H2. eapply leb_trans; eauto. Qed.

Lemma geb_false a b : geb a b = false -> geb b a = true.
Proof. intro H. destruct (geb_total a b); congruence. Qed.

Lemma insert_comm x y l : insert x (insert y l) = insert y (insert x l).
Proof.
  induction l as [|z l IH]; cbn.
  - destruct (geb x y) eqn:Exy, (geb y x) eqn:Eyx; try reflexivity.
    + now rewrite (geb_antisym _ _ Exy Eyx).
    + apply geb_false in Exy. congruence.
  - destruct (geb y z) eqn:Eyz, (geb x z) eqn:Exz; cbn; rewrite ?Eyz, ?Exz.
    + destruct (geb x y) eqn:Exy, (geb y x) eqn:Eyx; cbn; rewrite ?Eyz, ?Exz; try reflexivity.
      * now rewrite (geb_antisym _ _ Exy Eyx).
      * apply geb_false in Exy. congruence.
    + destruct (geb x y) eqn:Exy; [|reflexivity].
      rewrite (geb_trans _ _ _ Exy Eyz) in Exz. discriminate.
    + destruct (geb y x) eqn:Eyx; [|reflexivity].
      rewrite (geb_trans _ _ _ Eyx Exz) in Eyz. discriminate.
    + now rewrite IH.
Qed.

Theorem sort_perm l l' : Permutation l l' -> sort l = sort l'.
Proof.
  induction 1; cbn.
  - reflexivity.
  - now rewrite IHPermutation.
  - apply insert_comm.
  - congruence.
Qed.

Theorem choose_order_independent matches us us' :
  Permutation us us' -> choose matches us = choose matches us'.
Proof. intro P. unfold choose. now rewrite (sort_perm _ _ P). Qed.

(* what K11 was: choosing the first match of the UNSORTED list depends on the order *)
Theorem unsorted_choice_refuted :
  exists (m : string -> bool) us us', Permutation us us' /\ find m us <> find m us'.
Proof.
  exists (fun _ => true), ["prog <a>"%string; "prog <b>"%string], ["prog <b>"%string; "prog <a>"%string].
  split; [apply perm_swap|discriminate].
Qed.

Example sort_example : sort ["prog a <x>"%string; "prog a b"%string; "prog <x> <y>"%string]
                       = ["prog a b"%string; "prog a <x>"%string; "prog <x> <y>"%string].
Proof. reflexivity. Qed.
