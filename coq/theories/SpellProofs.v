(* C10: every documented spelling of a token sequence canonicalises to that sequence. *)
From Coq Require Import List String Ascii Bool Arith Lia.
From RashV Require Import Usage.
Import ListNotations.
Open Scope string_scope. Open Scope list_scope.
Notation "a +s+ b" := (String.append a b) (at level 60, right associativity).

Fixpoint no_eq (s : string) : bool :=
  match s with EmptyString => true | String "=" _ => false | String _ r => no_eq r end.

Definition flagtok (d : optdesc) : token := TOpt (cname d) None.
Definition short_of (d : optdesc) : string := match o_short d with Some s => s | None => "" end.
Fixpoint shorts (ds : list optdesc) : string :=
  match ds with [] => "" | d :: r => short_of d +s+ shorts r end.

Record wf_table (t : list optdesc) : Prop := {
  wf_long : forall d l, In d t -> o_long d = Some l ->
            find_long t l = Some d /\ no_eq l = true /\ l <> "";
  wf_short : forall d s, In d t -> o_short d = Some s ->
             find_short t s = Some d /\ exists c, s = String c "" /\ c <> "-"%char
}.

Definition is_flag (t : list optdesc) (d : optdesc) : Prop :=
  In d t /\ o_takes d = false /\ exists s, o_short d = Some s.

Inductive Spell1 (t : list optdesc) : list token -> list string -> Prop :=
| SpWord w : starts_dash w = false -> Spell1 t [TWord w] [w]
| SpLongFlag d l : In d t -> o_takes d = false -> o_long d = Some l ->
    Spell1 t [TOpt (cname d) None] ["--" +s+ l]
| SpLongEq d l v : In d t -> o_takes d = true -> o_long d = Some l ->
    Spell1 t [TOpt (cname d) (Some v)] ["--" +s+ l +s+ "=" +s+ v]
| SpLongSp d l v : In d t -> o_takes d = true -> o_long d = Some l ->
    Spell1 t [TOpt (cname d) (Some v)] ["--" +s+ l; v]
| SpShorts ds : ds <> [] -> Forall (is_flag t) ds ->
    Spell1 t (map flagtok ds) ["-" +s+ shorts ds]
| SpShortsAttached ds d s v : Forall (is_flag t) ds -> In d t -> o_takes d = true -> o_short d = Some s ->
    v <> "" -> (forall r, v <> String "=" r) ->
    Spell1 t (map flagtok ds ++ [TOpt (cname d) (Some v)]) ["-" +s+ shorts ds +s+ s +s+ v]
| SpShortsEq ds d s v : Forall (is_flag t) ds -> In d t -> o_takes d = true -> o_short d = Some s ->
    v <> "" ->
    Spell1 t (map flagtok ds ++ [TOpt (cname d) (Some v)]) ["-" +s+ shorts ds +s+ s +s+ "=" +s+ v]
| SpShortsSp ds d s v : Forall (is_flag t) ds -> In d t -> o_takes d = true -> o_short d = Some s ->
    Spell1 t (map flagtok ds ++ [TOpt (cname d) (Some v)]) ["-" +s+ shorts ds +s+ s; v].

Inductive SpellAll (t : list optdesc) : list token -> list string -> Prop :=
| SNil : SpellAll t [] []
| SCons toks ws toks' ws' : Spell1 t toks ws -> SpellAll t toks' ws' -> SpellAll t (toks ++ toks') (ws ++ ws').

(* ---- string lemmas ---- *)
Lemma append_nil_r s : s +s+ "" = s.
Proof. induction s; cbn; [reflexivity|now rewrite IHs]. Qed.
Lemma substring_all s : substring 0 (String.length s) s = s.
Proof. induction s; cbn; [reflexivity|now rewrite IHs]. Qed.

Lemma split_eq_no s : no_eq s = true -> split_eq s = (s, None).
Proof.
  induction s as [|c r IH]; cbn; [reflexivity|]. intro H.
  destruct (Ascii.eqb c "=") eqn:E.
  - apply Ascii.eqb_eq in E. subst. discriminate.
  - assert (Hs : split_eq (String c r) = let '(a, b) := split_eq r in (String c a, b)).
    { destruct c as [[] [] [] [] [] [] [] []]; try reflexivity. discriminate E. }
    assert (Hn : no_eq r = true).
    { destruct c as [[] [] [] [] [] [] [] []]; try exact H. discriminate E. }
    cbn in Hs. rewrite Hs, (IH Hn). reflexivity.
Qed.

Lemma split_eq_val s v : no_eq s = true -> split_eq (s +s+ "=" +s+ v) = (s, Some v).
Proof.
  induction s as [|c r IH]; cbn; [reflexivity|]. intro H.
  destruct (Ascii.eqb c "=") eqn:E.
  - apply Ascii.eqb_eq in E. subst. discriminate.
  - assert (Hs : split_eq (String c (r +s+ String "=" v)) = let '(a, b) := split_eq (r +s+ String "=" v) in (String c a, b)).
    { destruct c as [[] [] [] [] [] [] [] []]; try reflexivity. discriminate E. }
    assert (Hn : no_eq r = true).
    { destruct c as [[] [] [] [] [] [] [] []]; try exact H. discriminate E. }
    cbn in Hs. rewrite Hs. cbn in IH. rewrite (IH Hn). reflexivity.
Qed.

Lemma not_dash_plain w : starts_dash w = false -> is_long w = false /\ is_short w = false.
Proof. destruct w as [|c r]; [auto|]. destruct c as [[] [] [] [] [] [] [] []]; cbn; auto; discriminate. Qed.

Lemma long_word l : l <> "" -> is_long ("--" +s+ l) = true /\
  substring 2 (String.length ("--" +s+ l) - 2) ("--" +s+ l) = l.
Proof.
  intro H. destruct l as [|c r]; [congruence|]. split; [reflexivity|].
  cbn [append String.length]. replace (S (S (S (String.length r))) - 2) with (S (String.length r)) by lia.
  change (substring 2 (S (String.length r)) (String "-" (String "-" (String c r))))
    with (substring 0 (String.length (String c r)) (String c r)). apply substring_all.
Qed.

Lemma short_word c r : c <> "-"%char ->
  is_long ("-" +s+ String c r) = false /\ is_short ("-" +s+ String c r) = true /\
  substring 1 (String.length ("-" +s+ String c r) - 1) ("-" +s+ String c r) = String c r.
Proof.
  intro H. cbn [append].
  assert (E : Ascii.eqb c "-" = false) by (apply Ascii.eqb_neq; exact H).
  repeat split.
  - destruct c as [[] [] [] [] [] [] [] []]; try reflexivity. discriminate E.
  - destruct c as [[] [] [] [] [] [] [] []]; try reflexivity. discriminate E.
  - cbn [String.length]. replace (S (S (String.length r)) - 1) with (S (String.length r)) by lia.
    change (substring 1 (S (String.length r)) (String "-" (String c r)))
      with (substring 0 (String.length (String c r)) (String c r)). apply substring_all.
Qed.

(* ---- clusters ---- *)
Lemma cluster_flags t ds rest :
  wf_table t -> Forall (is_flag t) ds ->
  cluster t (shorts ds +s+ rest) =
  match cluster t rest with
  | Some (toks, pend) => Some (map flagtok ds ++ toks, pend)
  | None => None
  end.
Proof.
  intros W F. induction F as [|d ds [Hin [Hf [s Hs]]] _ IH]; cbn [shorts map app append].
  - destruct (cluster t rest) as [[toks pend]|]; reflexivity.
  - destruct (wf_short t W d s Hin Hs) as [Hfind [c [-> Hc]]].
    unfold short_of. rewrite Hs. cbn [append cluster]. rewrite Hfind, Hf, IH.
    destruct (cluster t rest) as [[toks pend]|]; reflexivity.
Qed.

Lemma shorts_head t ds : wf_table t -> ds <> [] -> Forall (is_flag t) ds ->
  exists c r, shorts ds = String c r /\ c <> "-"%char.
Proof.
  intros W Hne F. destruct ds as [|d ds]; [congruence|]. inversion F as [|? ? [Hin [Hf [s Hs]]] _]; subst.
  destruct (wf_short t W d s Hin Hs) as [_ [c [-> Hc]]]. cbn. unfold short_of. rewrite Hs. cbn. eauto.
Qed.

Lemma valued_head t ds d s rest : wf_table t -> Forall (is_flag t) ds -> In d t -> o_short d = Some s ->
  exists c r, shorts ds +s+ s +s+ rest = String c r /\ c <> "-"%char.
Proof.
  intros W F Hin Hs. destruct ds as [|d0 ds].
  - destruct (wf_short t W d s Hin Hs) as [_ [c [-> Hc]]]. cbn. eauto.
  - inversion F as [|? ? [Hin0 [Hf [s0 Hs0]]] _]; subst.
    destruct (wf_short t W d0 s0 Hin0 Hs0) as [_ [c [-> Hc]]]. cbn. unfold short_of. rewrite Hs0. cbn. eauto.
Qed.

Lemma cluster_valued t d s rest : wf_table t -> In d t -> o_takes d = true -> o_short d = Some s ->
  cluster t (s +s+ rest) = Some ([], Some (cname d, drop_eq rest)).
Proof.
  intros W Hin Ht Hs. destruct (wf_short t W d s Hin Hs) as [Hfind [c [-> Hc]]].
  cbn [append cluster]. now rewrite Hfind, Ht.
Qed.

(* ---- the theorem ---- *)
Theorem canon_spell t toks ws : wf_table t -> SpellAll t toks ws -> canon t ws = Some toks.
Proof.
  intros W S. induction S as [|toks ws toks' ws' S1 _ IH]; [reflexivity|].
  destruct S1.
  - (* plain word *)
    destruct (not_dash_plain _ H) as [E1 E2]. cbn [app canon]. rewrite E1, E2, IH. reflexivity.
  - (* --flag *)
    destruct (wf_long t W d l H H1) as [Hfind [Hne Hnn]]. destruct (long_word l Hnn) as [E1 E2].
    cbn [app canon]. rewrite E1, E2, (split_eq_no l Hne), Hfind, H0, IH. reflexivity.
  - (* --opt=V *)
    destruct (wf_long t W d l H H1) as [Hfind [Hne Hnn]].
    assert (Hnn' : l +s+ "=" +s+ v <> "") by (destruct l; [congruence|discriminate]).
    destruct (long_word (l +s+ "=" +s+ v) Hnn') as [E1 E2].
    cbn [app canon]. rewrite E1, E2, (split_eq_val l v Hne), Hfind, H0, IH. reflexivity.
  - (* --opt V *)
    destruct (wf_long t W d l H H1) as [Hfind [Hne Hnn]]. destruct (long_word l Hnn) as [E1 E2].
    cbn [app canon]. rewrite E1, E2, (split_eq_no l Hne), Hfind, H0, IH. reflexivity.
  - (* -abc *)
    destruct (shorts_head t ds W H H0) as [c [r [Es Hc]]].
    destruct (short_word c r Hc) as [E1 [E2 E3]].
    cbn [app canon]. rewrite Es, E1, E2, E3, <- Es.
    rewrite <- (append_nil_r (shorts ds)) at 1.
    replace (shorts ds +s+ "") with (shorts ds +s+ "") by reflexivity.
    rewrite (cluster_flags t ds "" W H0). cbn [cluster]. rewrite app_nil_r, IH. reflexivity.
  - (* -abcoV *)
    destruct (valued_head t ds d s v W H H0 H2) as [c [r [Es Hc]]].
    destruct (short_word c r Hc) as [E1 [E2 E3]].
    cbn [app canon]. rewrite Es, E1, E2, E3, <- Es.
    rewrite (cluster_flags t ds (s +s+ v) W H), (cluster_valued t d s v W H0 H1 H2).
    assert (Hd : drop_eq v = v).
    { destruct v as [|c0 v0]; [reflexivity|]. destruct (Ascii.eqb c0 "=") eqn:E.
      - apply Ascii.eqb_eq in E. subst. exfalso. eapply H4. reflexivity.
      - destruct c0 as [[] [] [] [] [] [] [] []]; try reflexivity. discriminate E. }
    rewrite Hd, app_nil_r. destruct v as [|c0 v0]; [congruence|]. rewrite IH. cbn.
    rewrite <- app_assoc. reflexivity.
  - (* -abco=V *)
    destruct (valued_head t ds d s ("=" +s+ v) W H H0 H2) as [c [r [Es Hc]]].
    destruct (short_word c r Hc) as [E1 [E2 E3]].
    cbn [app canon]. rewrite Es, E1, E2, E3, <- Es.
    rewrite (cluster_flags t ds (s +s+ "=" +s+ v) W H), (cluster_valued t d s ("=" +s+ v) W H0 H1 H2).
    cbn [append drop_eq]. rewrite app_nil_r. destruct v as [|c0 v0]; [congruence|]. rewrite IH. cbn.
    rewrite <- app_assoc. reflexivity.
  - (* -abco V *)
    destruct (valued_head t ds d s "" W H H0 H2) as [c [r [Es Hc]]].
    rewrite append_nil_r in Es.
    destruct (short_word c r Hc) as [E1 [E2 E3]].
    cbn [app canon]. rewrite Es, E1, E2, E3, <- Es.
    rewrite <- (append_nil_r s) at 1.
    rewrite (cluster_flags t ds (s +s+ "") W H), (cluster_valued t d s "" W H0 H1 H2).
    cbn [drop_eq]. rewrite app_nil_r, IH. cbn. rewrite <- app_assoc. reflexivity.
Qed.

(* two spellings of the same tokens parse identically *)
Corollary same_tokens_same_canon t toks a b :
  wf_table t -> SpellAll t toks a -> SpellAll t toks b -> canon t a = canon t b.
Proof. intros W A B. now rewrite (canon_spell _ _ _ W A), (canon_spell _ _ _ W B). Qed.

(* non-vacuity: the option table used by the sweep is well formed, and a concrete spelling *)
Definition sweep_table : list optdesc :=
  [ {| o_short := Some "f"; o_long := Some "force"; o_takes := false |};
    {| o_short := Some "o"; o_long := Some "out"; o_takes := true |};
    {| o_short := Some "q"; o_long := None; o_takes := false |};
    {| o_short := None; o_long := Some "level"; o_takes := true |} ].
Example sweep_table_wf : wf_table sweep_table.
Proof.
  split.
  - intros d l Hin Hl. cbn in Hin. repeat destruct Hin as [<-|Hin]; try destruct Hin; cbn in Hl; inversion Hl; subst;
      (split; [reflexivity|split; [reflexivity|discriminate]]).
  - intros d s Hin Hs. cbn in Hin. repeat destruct Hin as [<-|Hin]; try destruct Hin; cbn in Hs; inversion Hs; subst;
      (split; [reflexivity|eexists; split; [reflexivity|discriminate]]).
Qed.
Example spelling_example :
  canon sweep_table ["-qfoV"; "a"; "--level"; "3"] =
  Some [TOpt "q" None; TOpt "force" None; TOpt "out" (Some "V"); TWord "a"; TOpt "level" (Some "3")].
Proof. reflexivity. Qed.
