(* Frame property of the state-module mirrors: a task's outcome (result, the actions it performs)
   depends only on the nodes at its read set - the prefixes of its target and of its source - as
   long as none of them is a symbolic link.  Used for the sequence half of C05. *)
From Coq Require Import List String Ascii Bool NArith Lia.
From RashV Require Import Fs Octal StateMods FsLemmas CopyProofs.
Import ListNotations.
Open Scope list_scope.

Definition orel {A : Type} (P : A -> A -> Prop) (x y : option A) : Prop :=
  match x, y with Some a, Some b => P a b | None, None => True | _, _ => False end.

Section Frame.
Variable R : path -> bool.
Hypothesis R_closed : forall p q, R (p ++ q) = true -> R p = true.

Definition rel (s1 s2 : st) : Prop :=
  (forall p, R p = true -> sw s1 p = sw s2 p) /\ (forall p, R p = true -> is_link (sw s1 p) = false).

(* both runs went on in lock step: same actions appended; no action means no change at all *)
Definition ext (s1 s2 s1' s2' : st) : Prop :=
  rel s1' s2' /\ exists a, slog s1' = slog s1 ++ a /\ slog s2' = slog s2 ++ a /\ (a = [] -> s1' = s1 /\ s2' = s2).

Lemma ext_refl s1 s2 : rel s1 s2 -> ext s1 s2 s1 s2.
Proof. intro H. split; [assumption|]. exists []. rewrite !app_nil_r. auto. Qed.

Lemma ext_trans s1 s2 a1 a2 b1 b2 : ext s1 s2 a1 a2 -> ext a1 a2 b1 b2 -> ext s1 s2 b1 b2.
Proof.
  intros [_ (x & X1 & X2 & X3)] [Hr (y & Y1 & Y2 & Y3)]. split; [assumption|].
  exists (x ++ y). rewrite Y1, Y2, X1, X2, !app_assoc. repeat split; try reflexivity.
  - apply app_eq_nil in H as [-> ->]. destruct (Y3 eq_refl) as [-> _]. now destruct (X3 eq_refl).
  - apply app_eq_nil in H as [-> ->]. destruct (Y3 eq_refl) as [_ ->]. now destruct (X3 eq_refl).
Qed.

Lemma R_parent p : R p = true -> R (parent p) = true.
Proof.
  intro H. unfold parent. destruct p as [|a p]; [exact H|].
  apply (R_closed (removelast (a :: p)) [last (a :: p) a]).
  rewrite <- app_removelast_last by discriminate. exact H.
Qed.

Lemma prefixes_from_prefix acc p q : In q (prefixes_from acc p) -> exists r, acc ++ p = q ++ r.
Proof.
  revert acc. induction p as [|a p IH]; intros acc H; cbn in H; [contradiction|].
  destruct H as [<-|H].
  - exists p. now rewrite <- app_assoc.
  - destruct (IH _ H) as [r E]. exists r. rewrite <- E, <- app_assoc. reflexivity.
Qed.

Lemma R_prefixes p q : R p = true -> In q (prefixes p) -> R q = true.
Proof.
  intros H Hin. destruct (prefixes_from_prefix [] p q Hin) as [r E]. cbn in E. subst p.
  now apply R_closed in H.
Qed.

Lemma rel_sym_link s1 s2 p : rel s1 s2 -> R p = true -> is_link (sw s2 p) = false.
Proof. intros [A L] H. rewrite <- (A p H). now apply L. Qed.

Lemma nolink_res w p : is_link (w p) = false -> res w p = p.
Proof. unfold res. cbn [resolve]. destruct (w p) as [[| |t]|]; try reflexivity. discriminate. Qed.

Lemma nolink_stat w p : is_link (w p) = false -> stat w p = w p.
Proof.
  intro H. unfold stat. rewrite (nolink_res w p H). destruct (w p) as [[| |t]|]; try reflexivity. discriminate.
Qed.

Lemma rel_res s1 s2 p : rel s1 s2 -> R p = true -> res (sw s1) p = p /\ res (sw s2) p = p.
Proof. intros H Hp. split; apply nolink_res; [now apply (proj2 H)|now apply (rel_sym_link s1 s2)]. Qed.

Lemma rel_stat s1 s2 p : rel s1 s2 -> R p = true -> stat (sw s2) p = stat (sw s1) p.
Proof.
  intros H Hp. rewrite !nolink_stat; [symmetry; now apply (proj1 H)|now apply (proj2 H)|now apply (rel_sym_link s1 s2)].
Qed.

Lemma rel_at s1 s2 p : rel s1 s2 -> R p = true -> sw s2 p = sw s1 p.
Proof. intros H Hp. symmetry. now apply (proj1 H). Qed.

Lemma rel_is_dir s1 s2 p : rel s1 s2 -> R p = true -> is_dir (sw s2) p = is_dir (sw s1) p.
Proof. intros H Hp. unfold is_dir. now rewrite (rel_stat s1 s2 p H Hp). Qed.

Lemma rel_parent_ok s1 s2 p : rel s1 s2 -> R p = true -> parent_ok (sw s2) p = parent_ok (sw s1) p.
Proof.
  intros H Hp. unfold parent_ok. destruct p as [|a p]; [reflexivity|].
  apply rel_is_dir; [assumption|now apply R_parent].
Qed.

Lemma rel_upd s1 s2 a q x :
  rel s1 s2 -> is_link x = false -> rel (log1 s1 a (upd (sw s1) q x)) (log1 s2 a (upd (sw s2) q x)).
Proof.
  intros [A L] Hx. split; cbn [log1 sw]; intros p Hp; unfold upd; destruct (path_eqb q p); auto.
Qed.

Lemma ext_step s1 s2 a w1 w2 : rel (log1 s1 a w1) (log1 s2 a w2) -> ext s1 s2 (log1 s1 a w1) (log1 s2 a w2).
Proof.
  intro H. split; [assumption|]. exists [a]. cbn [log1 slog]. repeat split; try reflexivity; discriminate.
Qed.

Lemma ext_upd s1 s2 a q x :
  rel s1 s2 -> is_link x = false -> ext s1 s2 (log1 s1 a (upd (sw s1) q x)) (log1 s2 a (upd (sw s2) q x)).
Proof. intros. apply ext_step. now apply rel_upd. Qed.

(* ------------------------------------------------------------------ primitives *)
Lemma sys_chmod_frame s1 s2 p m :
  rel s1 s2 -> R p = true -> orel (ext s1 s2) (sys_chmod s1 p m) (sys_chmod s2 p m).
Proof.
  intros H Hp. unfold sys_chmod. destruct (rel_res s1 s2 p H Hp) as [-> ->].
  rewrite (rel_at s1 s2 p H Hp). pose proof (proj2 H p Hp) as L.
  destruct (sw s1 p) as [[c m0|m0|t]|]; cbn; try exact I; try discriminate; now apply ext_upd.
Qed.

Lemma sys_create_frame e s1 s2 p :
  rel s1 s2 -> R p = true -> orel (ext s1 s2) (sys_create e s1 p) (sys_create e s2 p).
Proof.
  intros H Hp. unfold sys_create. destruct (rel_res s1 s2 p H Hp) as [-> ->].
  rewrite (rel_at s1 s2 p H Hp), (rel_parent_ok s1 s2 p H Hp).
  destruct (sw s1 p); cbn; [exact I|]. destruct (parent_ok (sw s1) p); cbn; [|exact I]. now apply ext_upd.
Qed.

Lemma sys_write_frame s1 s2 p c :
  rel s1 s2 -> R p = true -> orel (ext s1 s2) (sys_write s1 p c) (sys_write s2 p c).
Proof.
  intros H Hp. unfold sys_write. destruct (rel_res s1 s2 p H Hp) as [-> ->].
  rewrite (rel_at s1 s2 p H Hp).
  destruct (sw s1 p) as [[c0 m0|m0|t]|]; cbn; try exact I. now apply ext_upd.
Qed.

Lemma sys_unlink_frame s1 s2 p :
  rel s1 s2 -> R p = true -> orel (ext s1 s2) (sys_unlink s1 p) (sys_unlink s2 p).
Proof.
  intros H Hp. unfold sys_unlink. rewrite (rel_at s1 s2 p H Hp).
  destruct (sw s1 p) as [[c0 m0|m0|t]|]; cbn; try exact I; now apply ext_upd.
Qed.

Lemma rel_rm_tree s1 s2 a p :
  rel s1 s2 -> rel (log1 s1 a (rm_tree (sw s1) p)) (log1 s2 a (rm_tree (sw s2) p)).
Proof.
  intros [A L]. split; cbn [log1 sw]; intros q Hq; unfold rm_tree; destruct (is_prefix p q); auto.
Qed.

Lemma sys_rmtree_frame s1 s2 p :
  rel s1 s2 -> R p = true -> orel (ext s1 s2) (sys_rmtree s1 p) (sys_rmtree s2 p).
Proof.
  intros H Hp. unfold sys_rmtree. rewrite (rel_at s1 s2 p H Hp).
  destruct (sw s1 p) as [[c0 m0|m0|t]|]; cbn; try exact I.
  - apply ext_step. now apply rel_rm_tree.
  - now apply ext_upd.
Qed.

Lemma mkdir_chain_frame e ps : forall s1 s2,
  rel s1 s2 -> (forall q, In q ps -> R q = true) ->
  orel (ext s1 s2) (mkdir_chain e s1 ps) (mkdir_chain e s2 ps).
Proof.
  induction ps as [|q r IH]; intros s1 s2 H Hps; cbn [mkdir_chain]; [now apply ext_refl|].
  assert (Hq : R q = true) by (apply Hps; now left).
  assert (Hr : forall x, In x r -> R x = true) by (intros x Hx; apply Hps; now right).
  rewrite (rel_is_dir s1 s2 q H Hq), (rel_at s1 s2 q H Hq), (rel_parent_ok s1 s2 q H Hq).
  destruct (is_dir (sw s1) q); [now apply IH|].
  destruct (sw s1 q); [exact I|]. destruct (parent_ok (sw s1) q); [|exact I].
  set (a1 := log1 s1 _ _). set (a2 := log1 s2 _ _).
  assert (E : ext s1 s2 a1 a2) by (apply ext_upd; [assumption|reflexivity]).
  specialize (IH a1 a2 (proj1 E) Hr).
  destruct (mkdir_chain e a1 r), (mkdir_chain e a2 r); cbn in *; try contradiction; [|exact I].
  exact (ext_trans _ _ _ _ _ _ E IH).
Qed.

Lemma chmod_all_frame m ps : forall s1 s2,
  rel s1 s2 -> (forall q, In q ps -> R q = true) ->
  orel (ext s1 s2) (chmod_all s1 ps m) (chmod_all s2 ps m).
Proof.
  induction ps as [|q r IH]; intros s1 s2 H Hps; cbn [chmod_all]; [now apply ext_refl|].
  assert (Hq : R q = true) by (apply Hps; now left).
  assert (Hr : forall x, In x r -> R x = true) by (intros x Hx; apply Hps; now right).
  pose proof (sys_chmod_frame s1 s2 q m H Hq) as E.
  destruct (sys_chmod s1 q m) as [a1|], (sys_chmod s2 q m) as [a2|]; cbn in E; try contradiction; [|exact I].
  specialize (IH a1 a2 (proj1 E) Hr).
  destruct (chmod_all a1 r m), (chmod_all a2 r m); cbn in *; try contradiction; [|exact I].
  exact (ext_trans _ _ _ _ _ _ E IH).
Qed.

(* ------------------------------------------------------------------ copy *)
Definition prel (s1 s2 : st) (x y : st * bool) : Prop := snd x = snd y /\ ext s1 s2 (fst x) (fst y).

Lemma change_permissions_frame s1 s2 dest dm m check :
  rel s1 s2 -> R dest = true ->
  orel (prel s1 s2) (change_permissions s1 dest dm m check) (change_permissions s2 dest dm m check).
Proof.
  intros H Hd. unfold change_permissions.
  destruct (N.eqb (mask_perm dm) (mask_perm m)); [split; [reflexivity|now apply ext_refl]|].
  destruct check; [split; [reflexivity|now apply ext_refl]|].
  pose proof (sys_chmod_frame s1 s2 dest m H Hd) as E.
  destruct (sys_chmod s1 dest m), (sys_chmod s2 dest m); cbn in *; try contradiction; [|exact I].
  split; [reflexivity|exact E].
Qed.

Definition orel3 (s1 s2 : st) (x y : st * option (string * N)) : Prop := snd x = snd y /\ ext s1 s2 (fst x) (fst y).

Lemma rel_tmp s1 s2 : rel s1 s2 -> ext s1 s2 (log1 s1 ATmpAnon (sw s1)) (log1 s2 ATmpAnon (sw s2)).
Proof. intro H. apply ext_step. exact H. Qed.

Lemma open_dest_frame e dest check s1 s2 :
  rel s1 s2 -> R dest = true -> orel (orel3 s1 s2) (open_dest e dest check s1) (open_dest e dest check s2).
Proof.
  intros H Hd. unfold open_dest. rewrite (rel_stat s1 s2 dest H Hd).
  destruct (stat (sw s1) dest) as [[c m|m|t]|]; cbn;
    try (split; [reflexivity|now apply ext_refl]).
  - destruct check; cbn; [split; [reflexivity|now apply rel_tmp]|].
    pose proof (sys_create_frame e s1 s2 dest H Hd) as E.
    destruct (sys_create e s1 dest), (sys_create e s2 dest); cbn in *; try contradiction; [|exact I].
    split; [reflexivity|exact E].
  - destruct check; cbn; [split; [reflexivity|now apply rel_tmp]|].
    pose proof (sys_create_frame e s1 s2 dest H Hd) as E.
    destruct (sys_create e s1 dest), (sys_create e s2 dest); cbn in *; try contradiction; [|exact I].
    split; [reflexivity|exact E].
Qed.

Definition input_ok (i : input) : Prop := match i with ISrc src => R src = true | IContent _ => True end.

Lemma desired_content_frame i s1 s2 :
  rel s1 s2 -> input_ok i -> desired_content i (sw s2) = desired_content i (sw s1).
Proof.
  intros H Hi. destruct i as [c|src]; [reflexivity|]. cbn in *. unfold read_src. now rewrite (rel_stat s1 s2 src H Hi).
Qed.

Lemma content_phase_frame dest c want dm check s1 s2 :
  rel s1 s2 -> R dest = true ->
  orel (prel s1 s2) (content_phase dest c want dm check s1) (content_phase dest c want dm check s2).
Proof.
  intros H Hd. unfold content_phase.
  destruct (String.eqb c want); [split; [reflexivity|now apply ext_refl]|].
  destruct check; [split; [reflexivity|now apply ext_refl]|].
  destruct (N.eqb (N.land dm any_write) 0).
  - pose proof (sys_chmod_frame s1 s2 dest (N.lor dm write_bit) H Hd) as E1.
    destruct (sys_chmod s1 dest _) as [a1|], (sys_chmod s2 dest _) as [a2|]; cbn in E1; try contradiction; [|exact I].
    pose proof (sys_write_frame a1 a2 dest want (proj1 E1) Hd) as E2.
    destruct (sys_write a1 dest want) as [b1|], (sys_write a2 dest want) as [b2|]; cbn in E2; try contradiction; [|exact I].
    pose proof (sys_chmod_frame b1 b2 dest dm (proj1 E2) Hd) as E3.
    destruct (sys_chmod b1 dest dm) as [c1|], (sys_chmod b2 dest dm) as [c2|]; cbn in E3; try contradiction; [|exact I].
    split; [reflexivity|]. cbn [fst]. eapply ext_trans; [exact E1|]. eapply ext_trans; [exact E2|exact E3].
  - pose proof (sys_write_frame s1 s2 dest want H Hd) as E2.
    destruct (sys_write s1 dest want) as [b1|], (sys_write s2 dest want) as [b2|]; cbn in E2; try contradiction; [|exact I].
    split; [reflexivity|exact E2].
Qed.

Definition rrel (s1 s2 : st) (x y : result * st) : Prop := fst x = fst y /\ ext s1 s2 (snd x) (snd y).

Lemma mode_phase_frame p dm check ch1 s1 s2 :
  rel s1 s2 -> R (cp_dest p) = true -> input_ok (cp_input p) ->
  rrel s1 s2 (mode_phase p dm check ch1 s1) (mode_phase p dm check ch1 s2).
Proof.
  intros H Hd Hi. unfold mode_phase.
  destruct (cp_mode p) as [| |ms].
  - split; [reflexivity|now apply ext_refl].
  - destruct (cp_input p) as [c|src]; [split; [reflexivity|now apply ext_refl]|]. cbn in Hi.
    rewrite (rel_stat s1 s2 src H Hi).
    destruct (stat (sw s1) src) as [n|]; [|split; [reflexivity|now apply ext_refl]].
    pose proof (change_permissions_frame s1 s2 (cp_dest p) dm (st_mode n) check H Hd) as E.
    destruct (change_permissions s1 _ _ _ _) as [[a1 c1]|], (change_permissions s2 _ _ _ _) as [[a2 c2]|];
      cbn in E; try contradiction; [|split; [reflexivity|now apply ext_refl]].
    destruct E as [E1 E2]. cbn in E1. subst. split; [reflexivity|exact E2].
  - destruct (parse_octal ms) as [m|]; [|split; [reflexivity|now apply ext_refl]].
    pose proof (change_permissions_frame s1 s2 (cp_dest p) dm m check H Hd) as E.
    destruct (change_permissions s1 _ _ _ _) as [[a1 c1]|], (change_permissions s2 _ _ _ _) as [[a2 c2]|];
      cbn in E; try contradiction; [|split; [reflexivity|now apply ext_refl]].
    destruct E as [E1 E2]. cbn in E1. subst. split; [reflexivity|exact E2].
Qed.

Lemma rrel_trans s1 s2 a1 a2 x y : ext s1 s2 a1 a2 -> rrel a1 a2 x y -> rrel s1 s2 x y.
Proof. intros E [X1 X2]. split; [assumption|]. eapply ext_trans; eassumption. Qed.

Lemma copy_file_frame e p check s1 s2 :
  rel s1 s2 -> R (cp_dest p) = true -> input_ok (cp_input p) ->
  rrel s1 s2 (copy_file e p check s1) (copy_file e p check s2).
Proof.
  intros H Hd Hi. unfold copy_file.
  pose proof (open_dest_frame e (cp_dest p) check s1 s2 H Hd) as E.
  destruct (open_dest e (cp_dest p) check s1) as [[a1 x1]|], (open_dest e (cp_dest p) check s2) as [[a2 x2]|];
    cbn in E; try contradiction; [|split; [reflexivity|now apply ext_refl]].
  destruct E as [E1 E2]. cbn in E1, E2. subst x2.
  destruct x1 as [[c dm]|]; [|split; [reflexivity|exact E2]].
  rewrite (desired_content_frame (cp_input p) a1 a2 (proj1 E2) Hi).
  destruct (desired_content (cp_input p) (sw a1)) as [want|]; [|split; [reflexivity|exact E2]].
  pose proof (content_phase_frame (cp_dest p) c want dm check a1 a2 (proj1 E2) Hd) as E3.
  destruct (content_phase _ _ _ _ _ a1) as [[b1 c1]|], (content_phase _ _ _ _ _ a2) as [[b2 c2]|];
    cbn in E3; try contradiction; [|split; [reflexivity|exact E2]].
  destruct E3 as [E3 E4]. cbn in E3, E4. subst c2.
  eapply rrel_trans; [exact E2|]. eapply rrel_trans; [exact E4|].
  apply mode_phase_frame; [exact (proj1 E4)|assumption|assumption].
Qed.

Lemma template_frame e p r check s1 s2 :
  rel s1 s2 -> R (tp_dest p) = true -> R (tp_src p) = true ->
  rrel s1 s2 (template e p r check s1) (template e p r check s2).
Proof.
  intros H Hd Hs. unfold template. unfold read_src. rewrite (rel_stat s1 s2 (tp_src p) H Hs).
  assert (Z : rrel s1 s2 (RErr, s1) (RErr, s2)) by (split; [reflexivity|now apply ext_refl]).
  destruct (tp_mode p) as [| |ms].
  - destruct (stat (sw s1) (tp_src p)) as [[c m|m|t]|]; try exact Z.
    destruct r as [text|]; [|exact Z]. now apply copy_file_frame.
  - destruct (stat (sw s1) (tp_src p)) as [[c m|m|t]|]; try exact Z.
    destruct r as [text|]; [|exact Z]. now apply copy_file_frame.
  - destruct (stat (sw s1) (tp_src p)) as [[c m|m|t]|]; try exact Z.
    destruct r as [text|]; [|exact Z]. now apply copy_file_frame.
Qed.

(* ------------------------------------------------------------------ file *)
Lemma apply_permissions_frame n o p check s1 s2 :
  rel s1 s2 -> R p = true ->
  rrel s1 s2 (apply_permissions_if_necessary n o p check s1) (apply_permissions_if_necessary n o p check s2).
Proof.
  intros H Hp. unfold apply_permissions_if_necessary.
  destruct (N.eqb (mask_perm (st_mode n)) o); [split; [reflexivity|now apply ext_refl]|].
  destruct check; [split; [reflexivity|now apply ext_refl]|].
  pose proof (sys_chmod_frame s1 s2 p o H Hp) as E.
  destruct (sys_chmod s1 p o), (sys_chmod s2 p o); cbn in E; try contradiction;
    (split; [reflexivity|]); [exact E|now apply ext_refl].
Qed.

Lemma created_same s1 s2 pa :
  rel s1 s2 -> R pa = true ->
  filter (fun q => negb (is_dir (sw s2) q)) (prefixes pa) = filter (fun q => negb (is_dir (sw s1) q)) (prefixes pa).
Proof.
  intros H Hp.
  assert (G : forall l, (forall q, In q l -> R q = true) ->
              filter (fun q => negb (is_dir (sw s2) q)) l = filter (fun q => negb (is_dir (sw s1) q)) l).
  { induction l as [|q l IH]; intro Hl; cbn; [reflexivity|].
    rewrite (rel_is_dir s1 s2 q H (Hl q (or_introl eq_refl))).
    rewrite IH by (intros x Hx; apply Hl; now right). reflexivity. }
  apply G. intros q Hq. now apply (R_prefixes pa).
Qed.

Lemma define_file_frame e p check s1 s2 :
  rel s1 s2 -> R (fp_path p) = true ->
  rrel s1 s2 (define_file e p check s1) (define_file e p check s2).
Proof.
  intros H Hp. unfold define_file, fail_if_not_exist.
  assert (Z : forall r, rrel s1 s2 (r, s1) (r, s2)) by (intro r; split; [reflexivity|now apply ext_refl]).
  rewrite (rel_stat s1 s2 (fp_path p) H Hp).
  assert (Pre : forall q, In q (prefixes (fp_path p)) -> R q = true) by (intros q Hq; now apply (R_prefixes (fp_path p))).
  destruct (fp_state p).
  - (* absent *)
    destruct (stat (sw s1) (fp_path p)) as [[c m|m|t]|]; try apply Z.
    + destruct check; [apply Z|].
      pose proof (sys_unlink_frame s1 s2 (fp_path p) H Hp) as E.
      destruct (sys_unlink s1 _), (sys_unlink s2 _); cbn in E; try contradiction; [|apply Z].
      split; [reflexivity|exact E].
    + destruct check; [apply Z|].
      pose proof (sys_rmtree_frame s1 s2 (fp_path p) H Hp) as E.
      destruct (sys_rmtree s1 _), (sys_rmtree s2 _); cbn in E; try contradiction; [|apply Z].
      split; [reflexivity|exact E].
  - (* directory *)
    destruct (fp_mode p) as [ms|].
    + destruct (parse_octal ms) as [m|]; [|apply Z].
      destruct (stat (sw s1) (fp_path p)) as [n|]; [now apply apply_permissions_frame|].
      destruct check; [apply Z|].
      rewrite (created_same s1 s2 (fp_path p) H Hp).
      pose proof (mkdir_chain_frame e (prefixes (fp_path p)) s1 s2 H Pre) as E. unfold sys_mkdir_all.
      destruct (mkdir_chain e s1 _) as [a1|], (mkdir_chain e s2 _) as [a2|]; cbn in E; try contradiction; [|apply Z].
      set (cr := rev (filter (fun q => negb (is_dir (sw s1) q)) (prefixes (fp_path p)))).
      assert (Hcr : forall q, In q cr -> R q = true).
      { intros q Hq. subst cr. apply in_rev in Hq. apply filter_In in Hq as [Hq _]. now apply Pre. }
      pose proof (chmod_all_frame m cr a1 a2 (proj1 E) Hcr) as E2.
      destruct (chmod_all a1 cr m) as [b1|], (chmod_all a2 cr m) as [b2|]; cbn in E2; try contradiction.
      * split; [reflexivity|]. cbn [snd]. eapply ext_trans; eassumption.
      * split; [reflexivity|exact E].
    + destruct (stat (sw s1) (fp_path p)) as [n|]; [apply Z|].
      destruct check; [apply Z|].
      pose proof (mkdir_chain_frame e (prefixes (fp_path p)) s1 s2 H Pre) as E. unfold sys_mkdir_all.
      destruct (mkdir_chain e s1 _) as [a1|], (mkdir_chain e s2 _) as [a2|]; cbn in E; try contradiction; [|apply Z].
      split; [reflexivity|exact E].
  - (* file *)
    destruct (fp_mode p) as [ms|].
    + destruct (parse_octal ms) as [m|]; [|apply Z].
      destruct (stat (sw s1) (fp_path p)) as [n|] eqn:Es; [now apply apply_permissions_frame|].
      rewrite ?Es. apply Z.
    + destruct (stat (sw s1) (fp_path p)); apply Z.
  - (* touch *)
    destruct (fp_mode p) as [ms|].
    + destruct (parse_octal ms) as [m|]; [|apply Z].
      destruct (stat (sw s1) (fp_path p)) as [n|]; [now apply apply_permissions_frame|].
      destruct check; [apply Z|].
      pose proof (sys_create_frame e s1 s2 (fp_path p) H Hp) as E.
      destruct (sys_create e s1 _) as [a1|], (sys_create e s2 _) as [a2|]; cbn in E; try contradiction; [|apply Z].
      pose proof (sys_chmod_frame a1 a2 (fp_path p) m (proj1 E) Hp) as E2.
      destruct (sys_chmod a1 _ m) as [b1|], (sys_chmod a2 _ m) as [b2|]; cbn in E2; try contradiction.
      * split; [reflexivity|]. cbn [snd]. eapply ext_trans; eassumption.
      * split; [reflexivity|exact E].
    + destruct (stat (sw s1) (fp_path p)) as [n|]; [apply Z|].
      destruct check; [apply Z|].
      pose proof (sys_create_frame e s1 s2 (fp_path p) H Hp) as E.
      destruct (sys_create e s1 _) as [a1|], (sys_create e s2 _) as [a2|]; cbn in E; try contradiction; [|apply Z].
      split; [reflexivity|exact E].
Qed.

(* ------------------------------------------------------------------ any task *)
Definition reads_ok (t : task) : Prop :=
  match t with
  | TCopy p => R (cp_dest p) = true /\ input_ok (cp_input p)
  | TTemplate p _ => R (tp_dest p) = true /\ R (tp_src p) = true
  | TFile p => R (fp_path p) = true
  end.

Theorem run_task_frame e t check s1 s2 :
  rel s1 s2 -> reads_ok t -> rrel s1 s2 (run_task e t check s1) (run_task e t check s2).
Proof.
  intros H Hr. destruct t as [p|p r|p]; cbn [run_task reads_ok] in *.
  - destruct Hr. now apply copy_file_frame.
  - destruct Hr. now apply template_frame.
  - now apply define_file_frame.
Qed.

End Frame.
