(* find module: mirror of the walk (ignore::WalkBuilder configured by find.rs: max_depth,
   hidden filter, no link following) followed by the code's filter chain, and the reference
   ("exactly the entries that satisfy every criterion"). *)
From Coq Require Import List String Ascii Bool NArith Arith.
Import ListNotations.
Open Scope string_scope. Open Scope list_scope.

Inductive tree :=
| F (name : string) (size : N)
| L (name : string)                 (* symbolic link (never followed: follow = false) *)
| D (name : string) (kids : list tree).

Inductive kind := KFile | KDir | KLink.
Record entry := { e_path : list string; e_kind : kind; e_size : N }.

Definition tname (t : tree) : string := match t with F n _ | L n | D n _ => n end.
Definition tkind (t : tree) : kind := match t with F _ _ => KFile | L _ => KLink | D _ _ => KDir end.
Definition tsize (t : tree) : N := match t with F _ s => s | _ => 0%N end.
Definition entry_of (pre : list string) (t : tree) : entry :=
  {| e_path := pre ++ [tname t]; e_kind := tkind t; e_size := tsize t |}.

Definition dotted (n : string) : bool := match n with String "." _ => true | _ => false end.

(* is the entry itself yielded: roots (depth 0) always; below, dot-names only with hidden=true *)
Definition shown (hidden : bool) (depth : nat) (t : tree) : bool :=
  match depth with O => true | _ => orb hidden (negb (dotted (tname t))) end.

(* the walker: [left] = how many more levels may be entered (None = unbounded) *)
Fixpoint walk (hidden : bool) (left : option nat) (depth : nat) (pre : list string) (t : tree) {struct t}
  : list entry :=
  if shown hidden depth t then
    entry_of pre t ::
    match t with
    | D n kids =>
        match left with
        | Some O => []
        | _ =>
            let left' := match left with Some (S k) => Some k | x => x end in
            (fix go (l : list tree) : list entry :=
               match l with
               | [] => []
               | k :: r => walk hidden left' (S depth) (pre ++ [n]) k ++ go r
               end) kids
        end
    | _ => []
    end
  else [].

(* patterns of the generated family *)
Inductive re := RAny | RSub (s : string) | RPre (s : string) | RSuf (s : string) | RFull (s : string).
Fixpoint is_prefix_s (p s : string) : bool :=
  match p, s with
  | EmptyString, _ => true
  | String a p', String b s' => andb (Ascii.eqb a b) (is_prefix_s p' s')
  | _, _ => false
  end.
Fixpoint has_sub (p s : string) : bool :=
  orb (is_prefix_s p s) (match s with EmptyString => false | String _ r => has_sub p r end).
Fixpoint rev_s (s acc : string) : string :=
  match s with EmptyString => acc | String c r => rev_s r (String c acc) end.
Definition is_suffix_s (p s : string) : bool := is_prefix_s (rev_s p "") (rev_s s "").
Definition re_match (r : re) (s : string) : bool :=
  match r with
  | RAny => true
  | RSub p => has_sub p s
  | RPre p => is_prefix_s p s
  | RSuf p => is_suffix_s p s
  | RFull p => String.eqb p s
  end.

Inductive ftype := TAny | TDirectory | TFile | TLink.
Record fparams := {
  f_type : ftype; f_hidden : bool; f_recurse : bool;
  f_patterns : list re; f_excludes : list re; f_size : option N
}.

Definition type_ok (ft : ftype) (k : kind) : bool :=
  match ft, k with
  | TAny, _ => true | TDirectory, KDir => true | TFile, KFile => true | TLink, KLink => true
  | _, _ => false
  end.

Definition base (e : entry) : string := last (e_path e) "".

(* the criteria of the property, on one entry *)
Definition criteria (p : fparams) (e : entry) : bool :=
  andb (type_ok (f_type p) (e_kind e))
 (andb (match f_size p with
        | Some lim => match e_kind e with KFile => N.leb (e_size e) lim | _ => true end
        | None => true end)
 (andb (negb (match f_excludes p with [] => false | l => existsb (fun r => re_match r (base e)) l end))
       (match f_patterns p with [] => true | l => existsb (fun r => re_match r (base e)) l end))).

(* mirror of find(): walk every root (max_filesize prunes inside the walker, the rest are the
   filters of the iterator chain), concatenated in root order *)
Definition find_impl (p : fparams) (roots : list (list string * tree)) : list entry :=
  flat_map (fun '(pre, t) =>
              filter (criteria p)
                     (walk (f_hidden p) (if f_recurse p then None else Some 1) 0 pre t)) roots.
