(* Theorems about the mirror of docopt's last stage. *)
From Coq Require Import List String Ascii Bool NArith Arith Lia Permutation.
From RashV Require Import Order OrderProofs Tail.
Import ListNotations.
Open Scope string_scope. Open Scope list_scope.

(* what the code does: sort the expanded usages, then the tail *)
Definition parse_tail (t : list odesc) (argv usages : list string) : tail_result := tail t argv (sort usages).

(* C09: the whole result - acceptance and variables - is independent of the order in which the
   hash set yields the expanded usages *)
Theorem parse_tail_order_independent t argv us us' :
  Permutation us us' -> parse_tail t argv us = parse_tail t argv us'.
Proof. intro P. unfold parse_tail. now rewrite (sort_perm _ _ P). Qed.

(* C07: a usage that matches binds every argument exactly once, in order: one value per word,
   commands as true/1 under their own (normalised) name, positionals verbatim under the name the
   usage word gives, options under `options` *)
Inductive bound (t : list odesc) (alldefs : list string) : string -> string -> jv -> Prop :=
| BCommand a defs_count :
    bound t alldefs a a (JObj [(replace_char "-" "_" a, defs_count)])
| BPositional a d key : bound t alldefs a d (JObj [(key, JStr a)])
| BPositionalRep a d key : bound t alldefs a d (JObj [(key, JArr [a])])
| BOption a d v : opt_parse t a d = PSome v \/ opt_parse t a a = PSome v -> bound t alldefs a d v.

Lemma bind_word_bound t a d alldefs v : bind_word t a d alldefs = PSome v -> bound t alldefs a d v.
Proof.
  unfold bind_word. destruct (kind_of d) as [[|[|[|k]]]|]; try discriminate.
  - unfold parse_required. destruct (String.eqb_spec a d); [|discriminate]. subst. intro H; inversion H; subst. constructor.
  - destruct (orb (String.eqb a "--help") (String.eqb a "-h")).
    + intro H. apply BOption. now right.
    + destruct (starts_with "--" a); [discriminate|]. intro H; inversion H; subst.
      unfold parse_positional. destruct (ends_plus d); constructor.
  - intro H. apply BOption. now left.
Qed.

Theorem matching_usage_binds_every_word_once t alldefs : forall argv ds l,
  bind_list t argv ds alldefs = Some (Some l) -> Forall2 (fun ad v => bound t alldefs (fst ad) (snd ad) v) (combine argv ds) l /\ List.length argv = List.length ds.
Proof.
  induction argv as [|a ar IH]; intros [|d dr] l H; cbn in H; try discriminate.
  - inversion H; subst. split; [constructor|reflexivity].
  - destruct (bind_word t a d alldefs) as [| |v] eqn:E; try discriminate.
    destruct (bind_list t ar dr alldefs) as [[l'|]|] eqn:E2; try discriminate.
    inversion H; subst. destruct (IH dr l' E2) as [F L]. split; [|cbn; now rewrite L].
    cbn [combine]. constructor; [|assumption]. cbn. now apply bind_word_bound.
Qed.

(* a positional value is exactly the argument: nothing is trimmed, split or invented *)
Theorem positional_is_verbatim arg def :
  exists key, parse_positional arg def = JObj [(key, JStr arg)] \/ parse_positional arg def = JObj [(key, JArr [arg])].
Proof. unfold parse_positional. destruct (ends_plus def); eauto. Qed.

(* sanity: the documented example of parser.md *)
Example tail_example :
  tail [ {| od_kind := OWithParam (Some "1"); od_short := None; od_long := Some "--count" |} ]
       ["--count=3"; "start"]
       (sort ["prog {--count=<--count>} start"; "prog {--count=<--count>} stop"; "prog start"; "prog stop"])
  = TVars (JObj [("options", JObj [("count", JStr "3")]); ("stop", JBool false); ("start", JBool true)]).
Proof. vm_compute. reflexivity. Qed.

(* ------------------------------------------------------------ C10: stable shape, first stage *)
(* every declared option has its key under `options` in the initial variables (false, 0, null or
   its default), whatever the order of the descriptors *)
Definition options_of (v : jv) : list (string * jv) :=
  match v with JObj m => match jget m "options" with Some (JObj om) => om | _ => [] end | _ => [] end.
Definition has_key (m : list (string * jv)) (k : string) : bool := match jget m k with Some _ => true | None => false end.

Lemma jget_jset_same m k v : jget (jset m k v) k = Some v.
Proof. induction m as [|[k' v'] r IH]; cbn; [now rewrite String.eqb_refl|].
  destruct (String.eqb k' k) eqn:E; cbn; [now rewrite String.eqb_refl|now rewrite E]. Qed.
Lemma jget_jset_other m k v k' : k <> k' -> jget (jset m k v) k' = jget m k'.
Proof.
  intro H. induction m as [|[k0 v0] r IH]; cbn.
  - destruct (String.eqb k k') eqn:E; [apply String.eqb_eq in E; contradiction|reflexivity].
  - destruct (String.eqb k0 k) eqn:E; cbn.
    + apply String.eqb_eq in E; subst. destruct (String.eqb k k') eqn:E2; [apply String.eqb_eq in E2; contradiction|reflexivity].
    + destruct (String.eqb k0 k'); [reflexivity|assumption].
Qed.
Lemma has_key_jset m k v k' : has_key m k' = true -> has_key (jset m k v) k' = true.
Proof.
  unfold has_key. intro H. destruct (String.eqb_spec k k') as [->|N]; [now rewrite jget_jset_same|].
  now rewrite jget_jset_other.
Qed.

(* the shape invariant of the fold in initial_vars *)
Definition good (v : jv) : Prop :=
  exists am, v = JObj am /\ (jget am "options" = None \/ exists om, jget am "options" = Some (JObj om)).

Lemma merge_S f am bm :
  merge (S f) (JObj am) (JObj bm) =
  JObj (fold_left (fun acc '(k, v) =>
                     match jget acc k, v with
                     | Some (JArr x), JArr y => jset acc k (JArr (x ++ y))
                     | Some (JNum x), JNum y => jset acc k (JNum (x + y))
                     | Some av, _ => jset acc k (merge f av v)
                     | None, _ => jset acc k v
                     end) bm am).
Proof. reflexivity. Qed.

Lemma merge_single f om k val : exists x, merge (S f) (JObj om) (JObj [(k, val)]) = JObj (jset om k x).
Proof. rewrite merge_S. cbn [fold_left]. destruct (jget om k) as [[| | | |l|]|]; destruct val; eauto. Qed.

Lemma merge_option_step acc k val :
  good acc ->
  good (merge 3 acc (JObj [("options", JObj [(k, val)])])) /\
  has_key (options_of (merge 3 acc (JObj [("options", JObj [(k, val)])]))) k = true /\
  (forall k', has_key (options_of acc) k' = true ->
              has_key (options_of (merge 3 acc (JObj [("options", JObj [(k, val)])]))) k' = true).
Proof.
  intros (am & -> & Hopt). rewrite merge_S. cbn [fold_left].
  destruct Hopt as [Hn | (om & Ho)].
  - rewrite Hn. split; [|split].
    + eexists; split; [reflexivity|]. right. eexists. apply jget_jset_same.
    + unfold options_of. rewrite jget_jset_same. unfold has_key. cbn. now rewrite String.eqb_refl.
    + intros k' H. unfold options_of in H. rewrite Hn in H. discriminate H.
  - rewrite Ho. destruct (merge_single 1 om k val) as [x Ex]. rewrite Ex. split; [|split].
    + eexists; split; [reflexivity|]. right. eexists. apply jget_jset_same.
    + unfold options_of. rewrite jget_jset_same. unfold has_key. now rewrite jget_jset_same.
    + intros k' H. unfold options_of in *. rewrite Ho in H. rewrite jget_jset_same. now apply has_key_jset.
Qed.

Definition init_value (d : odesc) : jv :=
  match od_kind d with
  | OSimple => JBool false | ORepeatable => JNum 0
  | OWithParam (Some x) => JStr x | OWithParam None => JNull
  end.
Lemma init_value_not_arr d l : init_value d <> JArr l.
Proof. unfold init_value. destruct (od_kind d) as [| |[x|]]; discriminate. Qed.

Theorem initial_vars_declares_every_option t d :
  In d t -> has_key (options_of (initial_vars t)) (key_repr d) = true.
Proof.
  unfold initial_vars.
  assert (G : forall l acc, good acc ->
            (forall k', has_key (options_of acc) k' = true ->
                        has_key (options_of (fold_left (fun a d0 => merge 3 a (JObj [("options", JObj [(key_repr d0, init_value d0)])])) l acc)) k' = true) /\
            (In d l -> has_key (options_of (fold_left (fun a d0 => merge 3 a (JObj [("options", JObj [(key_repr d0, init_value d0)])])) l acc)) (key_repr d) = true)).
  { induction l as [|x r IH]; intros acc Hg; cbn [fold_left]; [split; [auto|intros []]|].
    destruct (merge_option_step acc (key_repr x) (init_value x) Hg) as (Hg' & Hk & Hmono).
    destruct (IH _ Hg') as [IHm IHin]. split.
    - intros k' H. apply IHm. now apply Hmono.
    - intros [->|Hin]; [now apply IHm|now apply IHin]. }
  intro Hin. apply (G t (JObj [])); [|assumption].
  exists []. split; [reflexivity|now left].
Qed.

(* ---------------------------------------------------------------- C08 / C09 at the last stage *)
(* a usage fits argv: as many words, and every word binds *)
Definition fits (t : list odesc) (argv ds : list string) (l : list jv) : Prop :=
  List.length argv = List.length ds /\ bind_list t argv ds ds = Some (Some l).
Definition misfits (t : list odesc) (argv ds : list string) : Prop :=
  List.length argv = List.length ds -> bind_list t argv ds ds = Some None.

(* exactly the first fitting usage, in the order given, is chosen; the stage reports "no match" only
   when no usage fits *)
Theorem first_match_spec t argv : forall us,
  match first_match t argv us with
  | Some (Some l) => exists pre ds post, us = pre ++ ds :: post /\ fits t argv ds l /\ Forall (misfits t argv) pre
  | Some None => Forall (misfits t argv) us
  | None => exists ds, In ds us /\ List.length argv = List.length ds /\ bind_list t argv ds ds = None
  end.
Proof.
  induction us as [|ds r IH]; cbn [first_match]; [constructor|].
  destruct (Nat.eqb_spec (List.length argv) (List.length ds)) as [L|L].
  - destruct (bind_list t argv ds ds) as [[l|]|] eqn:E.
    + exists [], ds, r. repeat split; auto.
    + destruct (first_match t argv r) as [[l|]|].
      * destruct IH as (pre & d & post & -> & F & M). exists (ds :: pre), d, post.
        repeat split; try apply F. constructor; [intros _; exact E|exact M].
      * constructor; [intros _; exact E|exact IH].
      * destruct IH as (d & Hin & H). exists d. split; [now right|exact H].
    + exists ds. split; [now left|auto].
  - destruct (first_match t argv r) as [[l|]|].
    + destruct IH as (pre & d & post & -> & F & M). exists (ds :: pre), d, post.
      repeat split; try apply F. constructor; [intro; contradiction|exact M].
    + constructor; [intro; contradiction|exact IH].
    + destruct IH as (d & Hin & H). exists d. split; [now right|exact H].
Qed.

Definition tail_defs (usages : list string) : list (list string) :=
  let defs0 := map words_of_usage usages in map (expand_repeatable defs0) defs0.

(* C08, last stage: "no match" is reported only when NO expanded usage fits the arguments *)
Theorem tail_rejects_only_when_no_usage_fits t argv usages :
  tail t argv usages = TNoMatch -> forall ds l, In ds (tail_defs usages) -> ~ fits t argv ds l.
Proof.
  unfold tail, tail_defs. destruct (kinds_valid (map words_of_usage usages)); cbn [negb]; [|discriminate].
  pose proof (first_match_spec t argv (map (expand_repeatable (map words_of_usage usages)) (map words_of_usage usages))) as S.
  destruct (first_match t argv _) as [[l|]|]; try discriminate.
  - unfold help_or_vars. repeat match goal with |- context [match ?x with _ => _ end] => destruct x end; discriminate.
  - intros _ ds l Hin [L B]. rewrite Forall_forall in S. specialize (S ds Hin L). congruence.
Qed.

(* ... and conversely: when some expanded usage fits (and the usages are well formed and nothing
   panics) the arguments are accepted - help or variables, never a usage error *)
Theorem tail_accepts_when_some_usage_fits t argv usages ds l :
  kinds_valid (map words_of_usage usages) = true ->
  In ds (tail_defs usages) -> fits t argv ds l ->
  (forall d, In d (tail_defs usages) -> List.length argv = List.length d -> bind_list t argv d d <> None) ->
  tail t argv usages = THelp \/ exists v, tail t argv usages = TVars v.
Proof.
  intros K Hin [L B] NP. unfold tail. fold (tail_defs usages). rewrite K. cbn [negb].
  pose proof (first_match_spec t argv (tail_defs usages)) as S.
  destruct (first_match t argv (tail_defs usages)) as [[l'|]|].
  - unfold help_or_vars.
    repeat match goal with |- context [match ?x with _ => _ end] => destruct x end; eauto.
  - rewrite Forall_forall in S. specialize (S ds Hin L). congruence.
  - destruct S as (d & Hd & Ld & Bd). exfalso. exact (NP d Hd Ld Bd).
Qed.
