(* Case runner for the docopt family (C07-C10). *)
From Coq Require Import List String Ascii Bool Arith.
From RashV Require Import Sexp Usage Order.
Import ListNotations.
Open Scope string_scope. Open Scope list_scope.

Definition dec_ostr (e : sexp) : option (option string) :=
  match e with Atom "none" => Some None | a => omap Some (atom_bytes a) end.

Definition dec_desc (e : sexp) : option optdesc :=
  match e with
  | SList [s; l; t] =>
      match dec_ostr s, dec_ostr l, atom_bool t with
      | Some s, Some l, Some t => Some {| o_short := s; o_long := l; o_takes := t |}
      | _, _, _ => None
      end
  | _ => None
  end.

Fixpoint dec_pat (e : sexp) : option upat :=
  match e with
  | Atom "anyopts" => Some AnyOptions
  | SList [Atom "cmd"; a] => omap Cmd (atom_bytes a)
  | SList [Atom "pos"; a] => omap Pos (atom_bytes a)
  | SList [Atom "opt"; a] => omap Opt (atom_bytes a)
  | SList [Atom "optional"; p] => omap Optional (dec_pat p)
  | SList [Atom "rep"; p] => omap Repeat (dec_pat p)
  | SList (Atom "seq" :: ps) =>
      omap Seq ((fix go (l : list sexp) : option (list upat) :=
                   match l with
                   | [] => Some []
                   | x :: r => match dec_pat x, go r with Some y, Some t => Some (y :: t) | _, _ => None end
                   end) ps)
  | SList (Atom "alt" :: ps) =>
      omap Alt ((fix go (l : list sexp) : option (list upat) :=
                   match l with
                   | [] => Some []
                   | x :: r => match dec_pat x, go r with Some y, Some t => Some (y :: t) | _, _ => None end
                   end) ps)
  | _ => None
  end.

Definition enc_ostr (v : option string) : sexp := match v with None => Atom "none" | Some s => bytes_atom s end.
Definition enc_tok (t : token) : sexp :=
  match t with TWord w => SList [Atom "w"; bytes_atom w] | TOpt o v => SList [Atom "o"; bytes_atom o; enc_ostr v] end.
Definition dec_tok (e : sexp) : option token :=
  match e with
  | SList [Atom "w"; a] => omap TWord (atom_bytes a)
  | SList [Atom "o"; a; v] => match atom_bytes a, dec_ostr v with Some a, Some v => Some (TOpt a v) | _, _ => None end
  | _ => None
  end.
Definition enc_bind (b : bind) : sexp :=
  match b with
  | BCmd c => SList [Atom "c"; bytes_atom c]
  | BPos x v => SList [Atom "p"; bytes_atom x; bytes_atom v]
  | BOpt o v => SList [Atom "o"; bytes_atom o; enc_ostr v]
  end.

(* (docopt (table DESC...) (lines PAT...) (argv xHEX...)) *)
Definition run_docopt (e : sexp) : option sexp :=
  match e with
  | SList [Atom "docopt"; SList (Atom "table" :: ds); SList (Atom "lines" :: ps); SList (Atom "argv" :: ws)] =>
      match map_opt dec_desc ds, map_opt dec_pat ps, map_opt atom_bytes ws with
      | Some t, Some ps, Some ws =>
          match canon t ws with
          | None => Some (SList [Atom "unspellable"])
          | Some toks =>
              Some (SList [SList (Atom "toks" :: map enc_tok toks);
                           SList (Atom "matches" :: map (fun bs => SList (map enc_bind bs)) (accepts (usage_lines ps) toks))])
          end
      | _, _, _ => None
      end
  | _ => None
  end.

(* (docoptm (table DESC...) (lines PAT...) (argvs (xHEX...) ...)) : many argument vectors, one usage *)
Definition run_docoptm (e : sexp) : option sexp :=
  match e with
  | SList [Atom "docoptm"; SList (Atom "table" :: ds); SList (Atom "lines" :: ps); SList (Atom "argvs" :: avs)] =>
      match map_opt dec_desc ds, map_opt dec_pat ps with
      | Some t, Some ps =>
          let u := usage_lines ps in
          omap SList (map_opt (fun av =>
             match av with
             | SList ws =>
                 match map_opt atom_bytes ws with
                 | Some ws =>
                     Some (match canon t ws with
                           | None => SList [Atom "unspellable"]
                           | Some toks =>
                               SList [SList (Atom "toks" :: map enc_tok toks);
                                      SList (Atom "matches" :: map (fun bs => SList (map enc_bind bs)) (accepts u toks))]
                           end)
                 | None => None
                 end
             | _ => None
             end) avs)
      | _, _ => None
      end
  | _ => None
  end.

(* (matchtoks (lines PAT...) (toks TOK...) (orig TOK...)) : is [toks] a rearrangement of [orig]
   (options moved, words in order) and which bindings does the reference give for it *)
Definition run_matchtoks (e : sexp) : option sexp :=
  match e with
  | SList [Atom "matchtoks"; SList (Atom "lines" :: ps); SList (Atom "toks" :: ts); SList (Atom "orig" :: os)] =>
      match map_opt dec_pat ps, map_opt dec_tok ts, map_opt dec_tok os with
      | Some ps, Some ts, Some os =>
          Some (SList [show_bool (rearr_b os ts);
                       SList (Atom "matches" :: map (fun bs => SList (map enc_bind bs)) (accepts (usage_lines ps) ts))])
      | _, _, _ => None
      end
  | _ => None
  end.

(* (canon (table DESC...) (argv xHEX...)) *)
Definition run_canon (e : sexp) : option sexp :=
  match e with
  | SList [Atom "canon"; SList (Atom "table" :: ds); SList (Atom "argv" :: ws)] =>
      match map_opt dec_desc ds, map_opt atom_bytes ws with
      | Some t, Some ws =>
          Some (match canon t ws with None => SList [Atom "unspellable"] | Some toks => SList (Atom "toks" :: map enc_tok toks) end)
      | _, _ => None
      end
  | _ => None
  end.

(* (sortstrings xHEX...) : the order in which the code must try these expanded usages *)
Definition run_sortstrings (e : sexp) : option sexp :=
  match e with
  | SList (Atom "sortstrings" :: l) => option_map (fun l => SList (map bytes_atom (sort l))) (map_opt atom_bytes l)
  | _ => None
  end.
