(* Mirror of docopt/options.rs::Options::normalize_options: unstack short options, short -> long,
   split `--opt=V`, then glue every valued option to the word that follows it (`--opt=V`).
   The second pass walks CIRCULAR windows (the last word is paired with the first): that is
   where K12's invented values come from. *)
From Coq Require Import List String Ascii Bool.
From RashV Require Import Tail.
Import ListNotations.
Open Scope string_scope. Open Scope list_scope.

Definition is_withparam (d : odesc) : bool := match od_kind d with OWithParam _ => true | _ => false end.

(* split_once(c): text after the first occurrence of c *)
Fixpoint after_first (c : ascii) (s : string) : option string :=
  match s with
  | EmptyString => None
  | String d r => if Ascii.eqb c d then Some r else after_first c r
  end.

(* one short cluster: [chars] the characters still to process, [arg] the whole word *)
Fixpoint unstack (t : list odesc) (arg : string) (chars : string) : list string :=
  match chars with
  | EmptyString => []
  | String c r =>
      let short := String "-" (String c EmptyString) in
      match ofind t short with
      | Some d =>
          if is_withparam d then
            (* the value is what follows the option's character, less ONE `=` directly after it
               (so `-oV`, `-o=V` and a V that itself contains `=` all work) *)
            match after_first c arg with
            | None => [simple_repr d]
            | Some rest =>
                match (match rest with String "=" r' => r' | _ => rest end) with
                | EmptyString => [simple_repr d]
                | param => [simple_repr d; param]
                end
            end
          else simple_repr d :: unstack t arg r
      | None => short :: unstack t arg r
      end
  end.

Definition phase1_word (t : list odesc) (arg : string) : list string :=
  match arg with
  | String "-" (String "-" _) =>
      (* `--opt=V` is split only when --opt takes a parameter: a flag has no `=VALUE` part (K52, fixed) *)
      (match split_eq1 arg with
       | (a, Some b) => match ofind t a with
                        | Some d => if is_withparam d then [a; b] else [arg]
                        | None => [arg]
                        end
       | (_, None) => [arg]
       end)
  | String "-" r => unstack t arg r
  | _ => [arg]
  end.
Definition phase1 (t : list odesc) (args : list string) : list string := flat_map (phase1_word t) args.

Definition is_bracket (s : string) : bool := orb (String.eqb s ")") (orb (String.eqb s "]") (String.eqb s "|")).

(* second pass over (x_i, x_{i+1 mod n}); None = "Unknown option" error.  `keep` is the code's
   keep_separators: true when the words are those of a usage pattern (extend_usages), where a
   bracket after a valued option is syntax; false for the command line, where it is the value *)
Fixpoint phase2 (keep : bool) (t : list odesc) (first : string) (l : list string) (flag : bool) : option (list string) :=
  match l with
  | [] => Some []
  | x :: rest =>
      let succ := match rest with y :: _ => y | [] => first end in
      if starts_with "-" x then
        match ofind t x with
        | None => None
        | Some d =>
            if is_withparam d
            then option_map (cons (simple_repr d +s+ "=" +s+ succ)) (phase2 keep t first rest true)
            else option_map (cons (simple_repr d)) (phase2 keep t first rest flag)
        end
      else if flag then
        (if andb keep (is_bracket x) then option_map (cons x) (phase2 keep t first rest false) else phase2 keep t first rest false)
      else option_map (cons x) (phase2 keep t first rest flag)
  end.

Definition normalize_options (t : list odesc) (args : list string) : option (list string) :=
  let l := phase1 t args in
  match l with [] => Some [] | x :: _ => phase2 false t x l false end.
(* the same passes over the words of a usage pattern *)
Definition normalize_usage_words (t : list odesc) (ws : list string) : option (list string) :=
  let l := phase1 t ws in
  match l with [] => Some [] | x :: _ => phase2 true t x l false end.

Example norm_example :
  normalize_options [ {| od_kind := OSimple; od_short := Some "-f"; od_long := Some "--force" |};
                      {| od_kind := OWithParam None; od_short := Some "-o"; od_long := Some "--out" |};
                      {| od_kind := OSimple; od_short := Some "-q"; od_long := None |} ]
                    ["-qfoV"; "a"; "--out"; "W"; "-o=X"; "b"]
  = Some ["-q"; "--force"; "--out=V"; "a"; "--out=W"; "--out=X"; "b"].
Proof. reflexivity. Qed.

(* a value that contains `=` survives the attached short form *)
Example norm_attached_value_with_eq :
  normalize_options [ {| od_kind := OWithParam None; od_short := Some "-o"; od_long := Some "--out" |} ] ["-oa=b"; "x"]
  = Some ["--out=a=b"; "x"].
Proof. reflexivity. Qed.

(* a value that is a bracket or a bar is a value like any other on the command line (K48, fixed);
   in a usage pattern the same word after a valued option is kept as syntax *)
Example norm_bracket_value :
  let t := [ {| od_kind := OWithParam None; od_short := Some "-o"; od_long := Some "--out" |} ] in
  normalize_options t ["-o"; "]"; "x"] = Some ["--out=]"; "x"]
  /\ normalize_options t ["--out=|"] = Some ["--out=|"]
  /\ normalize_usage_words t ["["; "-o"; "]"; "x"] = Some ["["; "--out=]"; "]"; "x"].
Proof. repeat split; reflexivity. Qed.

(* a flag given with `=VALUE` is not an option the script knows: the arguments are rejected (K52, fixed:
   the value used to become a positional) *)
Example norm_flag_with_value_rejected :
  let t := [ {| od_kind := OSimple; od_short := Some "-v"; od_long := Some "--verbose" |};
             {| od_kind := OWithParam None; od_short := None; od_long := Some "--out" |} ] in
  normalize_options t ["--verbose=yes"; "x"] = None
  /\ normalize_options t ["--out=yes"; "x"] = Some ["--out=yes"; "x"]
  /\ normalize_options t ["--nope=1"] = None.
Proof. repeat split; reflexivity. Qed.

(* K12: a valued option in last position takes the FIRST word as its value *)
Example norm_dangling_refuted :
  normalize_options [ {| od_kind := OWithParam None; od_short := Some "-o"; od_long := Some "--out" |} ] ["go"; "-o"]
  = Some ["go"; "--out=go"].
Proof. reflexivity. Qed.
