(* C16: the mirror of find lists exactly the entries that satisfy every criterion, each once,
   independently of the directory listing order. *)
From Coq Require Import List String Ascii Bool NArith Arith Lia Permutation.
From RashV Require Import Find.
Import ListNotations.
Open Scope list_scope.

Section tree_ind.
  Variable P : tree -> Prop.
  Hypothesis HF : forall n s, P (F n s).
  Hypothesis HL : forall n, P (L n).
  Hypothesis HD : forall n kids, Forall P kids -> P (D n kids).
  Fixpoint tree_ind' (t : tree) : P t :=
    match t with
    | F n s => HF n s
    | L n => HL n
    | D n kids => HD n kids ((fix f (l : list tree) : Forall P l :=
                                match l with [] => Forall_nil _ | k :: r => Forall_cons _ (tree_ind' k) (f r) end) kids)
    end.
End tree_ind.

Definition dec_left (left : option nat) : option nat := match left with Some (S k) => Some k | x => x end.

Lemma walk_D hidden left depth pre n kids :
  walk hidden left depth pre (D n kids) =
  if shown hidden depth (D n kids) then
    entry_of pre (D n kids) ::
    match left with
    | Some O => []
    | _ => flat_map (walk hidden (dec_left left) (S depth) (pre ++ [n])) kids
    end
  else [].
Proof.
  cbn [walk]. destruct (shown hidden depth (D n kids)); [|reflexivity].
  destruct left as [[|k]|]; reflexivity.
Qed.

(* the reference: which entries lie under a root, within the depth limit, not hidden *)
Inductive Member (hidden : bool) : option nat -> nat -> list string -> tree -> entry -> Prop :=
| MemSelf left d pre t : shown hidden d t = true -> Member hidden left d pre t (entry_of pre t)
| MemKid left d pre n kids k e :
    shown hidden d (D n kids) = true -> left <> Some 0 -> In k kids ->
    Member hidden (dec_left left) (S d) (pre ++ [n]) k e -> Member hidden left d pre (D n kids) e.

Lemma walk_sound hidden t : forall left d pre e, In e (walk hidden left d pre t) -> Member hidden left d pre t e.
Proof.
  induction t using tree_ind'; intros left d pre e Hin.
  - cbn in Hin. destruct (shown hidden d (F n s)) eqn:E; [|destruct Hin]. destruct Hin as [<-|[]]. now constructor.
  - cbn in Hin. destruct (shown hidden d (L n)) eqn:E; [|destruct Hin]. destruct Hin as [<-|[]]. now constructor.
  - rewrite walk_D in Hin. destruct (shown hidden d (D n kids)) eqn:E; [|destruct Hin].
    destruct Hin as [<-|Hin]; [now constructor|].
    assert (Hl : left <> Some 0) by (destruct left as [[|k]|]; [destruct Hin|discriminate|discriminate]).
    assert (Hin' : In e (flat_map (walk hidden (dec_left left) (S d) (pre ++ [n])) kids))
      by (destruct left as [[|k]|]; [destruct Hin|exact Hin|exact Hin]).
    apply in_flat_map in Hin' as [k [Hk He]].
    rewrite Forall_forall in H. eapply MemKid; eauto.
Qed.

Lemma walk_complete hidden left d pre t e : Member hidden left d pre t e -> In e (walk hidden left d pre t).
Proof.
  induction 1.
  - destruct t; [cbn; rewrite H; now left|cbn; rewrite H; now left|rewrite walk_D, H; now left].
  - rewrite walk_D, H. right.
    assert (In e (flat_map (walk hidden (dec_left left) (S d) (pre ++ [n])) kids))
      by (apply in_flat_map; eauto).
    destruct left as [[|k']|]; [congruence|assumption|assumption].
Qed.

Theorem walk_iff hidden left d pre t e : In e (walk hidden left d pre t) <-> Member hidden left d pre t e.
Proof. split; [apply walk_sound|apply walk_complete]. Qed.

(* exactly the entries satisfying every criterion *)
Theorem find_iff p roots e :
  In e (find_impl p roots) <->
  exists pre t, In (pre, t) roots /\
                Member (f_hidden p) (if f_recurse p then None else Some 1) 0 pre t e /\ criteria p e = true.
Proof.
  unfold find_impl. rewrite in_flat_map. split.
  - intros [[pre t] [Hr He]]. apply filter_In in He as [Hw Hc]. apply walk_iff in Hw. eauto.
  - intros (pre & t & Hr & Hm & Hc). exists (pre, t). split; [assumption|]. apply filter_In. split; [now apply walk_iff|assumption].
Qed.

(* ---- each path once ---- *)
Fixpoint wf (t : tree) : Prop :=
  match t with
  | D _ kids => NoDup (map tname kids) /\
                (fix all (l : list tree) : Prop := match l with [] => True | k :: r => wf k /\ all r end) kids
  | _ => True
  end.

Lemma wf_kids n kids : wf (D n kids) -> NoDup (map tname kids) /\ Forall wf kids.
Proof.
  cbn. intros [H1 H2]. split; [assumption|]. induction kids as [|k r IH]; [constructor|].
  destruct H2 as [Hk Hr]. constructor; [assumption|]. apply IH; [now inversion H1|assumption].
Qed.

Lemma member_path_prefix hidden left d pre t e :
  Member hidden left d pre t e -> exists rest, e_path e = pre ++ tname t :: rest.
Proof.
  induction 1.
  - exists []. reflexivity.
  - destruct IHMember as [rest Hr]. exists (tname k :: rest). rewrite Hr, <- app_assoc. reflexivity.
Qed.

Lemma NoDup_app_intro {A} (a b : list A) :
  NoDup a -> NoDup b -> (forall x, In x a -> In x b -> False) -> NoDup (a ++ b).
Proof.
  induction a as [|x a IH]; intros Ha Hb Hd; cbn; [assumption|].
  inversion Ha; subst. constructor.
  - intro Hin. apply in_app_or in Hin as [Hin|Hin]; [contradiction|]. apply (Hd x); [now left|assumption].
  - apply IH; auto. intros y Hy1 Hy2. apply (Hd y); [now right|assumption].
Qed.

Lemma app_inj_head (pre : list string) a b r1 r2 : pre ++ a :: r1 = pre ++ b :: r2 -> a = b.
Proof. intro H. apply app_inv_head in H. now inversion H. Qed.

Lemma walk_nodup hidden t : forall left d pre, wf t -> NoDup (map e_path (walk hidden left d pre t)).
Proof.
  induction t using tree_ind'; intros left d pre Hwf.
  - cbn. destruct (shown _ _ _); cbn; repeat constructor; auto.
  - cbn. destruct (shown _ _ _); cbn; repeat constructor; auto.
  - rewrite walk_D. destruct (shown hidden d (D n kids)); [|constructor].
    apply wf_kids in Hwf as [Hnd Hall]. cbn [map].
    set (rec := match left with Some 0 => [] | _ => flat_map (walk hidden (dec_left left) (S d) (pre ++ [n])) kids end).
    assert (Hsub : forall e, In e rec -> exists k rest, In k kids /\ e_path e = (pre ++ [n]) ++ tname k :: rest).
    { intros e He. subst rec.
      assert (He' : In e (flat_map (walk hidden (dec_left left) (S d) (pre ++ [n])) kids))
        by (destruct left as [[|k']|]; [destruct He|assumption|assumption]).
      apply in_flat_map in He' as [k [Hk Hw]]. apply walk_sound, member_path_prefix in Hw as [rest Hr]. eauto. }
    constructor.
    + (* the directory itself is not among its descendants *)
      intro Hin. apply in_map_iff in Hin as [e [He Hin]]. destruct (Hsub e Hin) as (k & rest & _ & Hp).
      cbn in He. rewrite Hp in He. apply (f_equal (@List.length _)) in He. rewrite !app_length in He. cbn in He. lia.
    + (* descendants through different children are different *)
      assert (G : NoDup (map e_path (flat_map (walk hidden (dec_left left) (S d) (pre ++ [n])) kids))).
      { clear Hsub rec. induction kids as [|k r IHk]; [constructor|].
        inversion Hnd as [|? ? Hnotin Hnd']; subst. inversion Hall as [|? ? Hk Hr]; subst. inversion H as [|? ? Pk Pr]; subst.
        cbn [flat_map]. rewrite map_app. apply NoDup_app_intro.
        - now apply Pk.
        - now apply IHk.
        - intros x Hx1 Hx2. apply in_map_iff in Hx1 as [e1 [E1 H1]]. apply in_map_iff in Hx2 as [e2 [E2 H2]].
          apply walk_sound, member_path_prefix in H1 as [r1 P1].
          apply in_flat_map in H2 as [k2 [Hk2 H2]]. apply walk_sound, member_path_prefix in H2 as [r2 P2].
          rewrite <- E2, P2 in E1. rewrite P1 in E1. apply app_inj_head in E1.
          apply Hnotin. rewrite E1. now apply in_map. }
      subst rec. destruct left as [[|k']|]; [constructor|exact G|exact G].
Qed.

Theorem find_nodup p pre t : wf t -> NoDup (map e_path (find_impl p [(pre, t)])).
Proof.
  intro W. unfold find_impl. cbn [flat_map]. rewrite app_nil_r.
  pose proof (walk_nodup (f_hidden p) t (if f_recurse p then None else Some 1) 0 pre W) as H.
  induction (walk (f_hidden p) (if f_recurse p then None else Some 1) 0 pre t) as [|e l IH]; [constructor|].
  cbn [filter]. inversion H; subst. destruct (criteria p e); [|now apply IH].
  cbn [map]. constructor; [|now apply IH].
  intro Hin. apply H2. apply in_map_iff in Hin as [e' [E Hin]]. apply filter_In in Hin as [Hin _].
  apply in_map_iff. eauto.
Qed.

(* ---- the directory listing order does not matter ---- *)
Theorem listing_order_irrelevant hidden left d pre n kids kids' :
  Permutation kids kids' ->
  Permutation (walk hidden left d pre (D n kids)) (walk hidden left d pre (D n kids')).
Proof.
  intro P. rewrite !walk_D.
  assert (E : shown hidden d (D n kids) = shown hidden d (D n kids')) by (destruct d; reflexivity).
  rewrite E. destruct (shown hidden d (D n kids')); [|constructor].
  unfold entry_of. cbn [tname tkind tsize]. constructor.
  destruct left as [[|k]|]; [constructor| |]; now apply Permutation_flat_map.
Qed.

Theorem find_listing_order_irrelevant p pre n kids kids' :
  Permutation kids kids' ->
  Permutation (find_impl p [(pre, D n kids)]) (find_impl p [(pre, D n kids')]).
Proof.
  intro P. unfold find_impl. cbn [flat_map]. rewrite !app_nil_r.
  pose proof (listing_order_irrelevant (f_hidden p) (if f_recurse p then None else Some 1) 0 pre n kids kids' P) as H.
  induction H; cbn [filter].
  - constructor.
  - destruct (criteria p x); [constructor|]; assumption.
  - destruct (criteria p x), (criteria p y); try constructor; try apply Permutation_refl.
    all: apply Permutation_refl.
  - eapply Permutation_trans; eauto.
Qed.

(* non-vacuity *)
Example find_example :
  let t := D "r" [F "a.log" 10; D ".hid" [F "x" 1]; D "sub" [F "b.log" 200; L "ln"]] in
  let p := {| f_type := TFile; f_hidden := false; f_recurse := true; f_patterns := [RSuf ".log"]; f_excludes := []; f_size := Some 100%N |} in
  map e_path (find_impl p [([], t)]) = [["r"; "a.log"]]%string /\ wf t.
Proof. split; [reflexivity|]. cbn. repeat split; repeat constructor; cbn; intuition congruence. Qed.
