(* Proofs about the state-module mirrors: C03 (check mode performs no managed action). *)
From Coq Require Import List String Ascii Bool NArith Lia.
From RashV Require Import Fs Octal StateMods Pacman StateSpec.
Import ListNotations.
Open Scope list_scope.

Definition unchanged (s s' : st) : Prop :=
  sw s' = sw s /\ filter managed (slog s') = filter managed (slog s).

Lemma unchanged_refl s : unchanged s s. Proof. split; reflexivity. Qed.
Lemma unchanged_tmp s : unchanged s (log1 s ATmpAnon (sw s)).
Proof. split; [reflexivity|]. unfold log1; cbn [slog]. rewrite filter_app. cbn. now rewrite app_nil_r. Qed.
Lemma unchanged_trans a b c : unchanged a b -> unchanged b c -> unchanged a c.
Proof. intros [H1 H2] [H3 H4]. split; congruence. Qed.

Ltac break_match :=
  match goal with
  | |- context [match ?x with _ => _ end] => destruct x eqn:?
  | H : context [match ?x with _ => _ end] |- _ => destruct x eqn:?
  end.

Ltac simp_eqs :=
  repeat match goal with
  | H : Some _ = Some _ |- _ => inversion H; subst; clear H
  | H : (_, _) = (_, _) |- _ => inversion H; subst; clear H
  | H : Some _ = None |- _ => discriminate H
  | H : None = Some _ |- _ => discriminate H
  end.

Lemma change_permissions_check s dest dm m s' ch :
  change_permissions s dest dm m true = Some (s', ch) -> s' = s.
Proof. unfold change_permissions. repeat break_match; intros H; inversion H; reflexivity. Qed.

Lemma copy_file_check e p s : unchanged s (snd (copy_file e p true s)).
Proof.
  unfold copy_file. cbn [negb].
  destruct (stat (sw s) (cp_dest p)) as [[c m|m|t]|] eqn:Hst; cbn [snd].
  all: repeat (first [ apply unchanged_refl | apply unchanged_tmp
                     | match goal with
                       | H : change_permissions _ _ _ _ true = Some (_, _) |- _ =>
                           apply change_permissions_check in H; subst
                       end
                     | progress simp_eqs
                     | break_match; cbn [snd fst] in * ]).
Qed.

Lemma template_check e p r s : unchanged s (snd (template e p r true s)).
Proof.
  unfold template. repeat (first [apply copy_file_check | apply unchanged_refl | break_match; cbn [snd]]).
Qed.

Lemma apply_permissions_check n o p s : snd (apply_permissions_if_necessary n o p true s) = s.
Proof. unfold apply_permissions_if_necessary. repeat (break_match; cbn [snd]); reflexivity. Qed.

Lemma define_file_check e p s : snd (define_file e p true s) = s.
Proof.
  unfold define_file, fail_if_not_exist.
  repeat (first [ reflexivity | apply apply_permissions_check | break_match; cbn [snd] ]).
Qed.

Lemma run_task_check e t s : unchanged s (snd (run_task e t true s)).
Proof.
  destruct t; cbn [run_task].
  - apply copy_file_check.
  - apply template_check.
  - rewrite define_file_check. apply unchanged_refl.
Qed.

(* both ways of enabling check mode reach the module with check = true *)
Lemma effective_check_spec g k : effective_check g k = orb g k.
Proof. destruct g, k; reflexivity. Qed.

(* pacman: in check mode only read-only requests are logged and the database is unchanged *)
Lemma pacman_check p s :
  let s' := snd (pacman p true s) in
  pdb s' = pdb s /\ exists l, plog s' = plog s ++ l /\ forallb read_only l = true.
Proof.
  unfold pacman. cbn [negb andb]. rewrite andb_false_r.
  destruct (pp_state p); destruct (pp_upgrade p); cbn [plog1 pdb plog];
    repeat (first [progress simp_eqs | break_match; cbn [snd plog1 pdb plog] in * ]);
    cbn [snd plog1 pdb plog];
    (split; [reflexivity|]); rewrite <- ?app_assoc; eexists; (split; [reflexivity|]); reflexivity.
Qed.

(* non-vacuity: a concrete check-mode task that WOULD act *)
Example c03_nonvacuous :
  let w := of_list [([], NDir 493); (["d"%string], NFile "old" 420)] in
  let p := {| cp_input := IContent "new"; cp_dest := ["d"%string]; cp_mode := MStr "0600" |} in
  fst (copy_file {| umask := 18; tmpmode := 420 |} p true {| sw := w; slog := [] |}) = ROk true
  /\ fst (copy_file {| umask := 18; tmpmode := 420 |} p false {| sw := w; slog := [] |}) = ROk true.
Proof. split; vm_compute; reflexivity. Qed.
