(* Proofs about the state-module mirrors: C03 (check mode performs no managed action). *)
From Coq Require Import List String Ascii Bool NArith Lia.
From RashV Require Import Fs Octal OctalProofs StateMods Pacman StateSpec SeqSpec FsLemmas CopyProofs FileProofs TemplatePacmanProofs.
Import ListNotations.
Open Scope list_scope.

Definition unchanged (s s' : st) : Prop :=
  sw s' = sw s /\ filter managed (slog s') = filter managed (slog s).

Lemma unchanged_refl s : unchanged s s. Proof. split; reflexivity. Qed.
Lemma unchanged_tmp s : unchanged s (log1 s ATmpAnon (sw s)).
Proof. split; [reflexivity|]. unfold log1; cbn [slog]. rewrite filter_app. cbn. now rewrite app_nil_r. Qed.
Lemma unchanged_trans a b c : unchanged a b -> unchanged b c -> unchanged a c.
Proof. intros [H1 H2] [H3 H4]. split; congruence. Qed.

Lemma change_permissions_check s dest dm m s' ch :
  change_permissions s dest dm m true = Some (s', ch) -> s' = s.
Proof. unfold change_permissions. repeat break_match; intros H; inversion H; reflexivity. Qed.

Lemma open_dest_check e dest s s1 x : open_dest e dest true s = Some (s1, x) -> unchanged s s1.
Proof.
  unfold open_dest. repeat break_match; intro H; simp_eqs; auto using unchanged_refl, unchanged_tmp.
Qed.
Lemma content_phase_check dest c w dm s1 s2 ch : content_phase dest c w dm true s1 = Some (s2, ch) -> s2 = s1.
Proof. unfold content_phase. repeat break_match; intro H; simp_eqs; reflexivity. Qed.
Lemma mode_phase_check p dm ch1 s2 : snd (mode_phase p dm true ch1 s2) = s2.
Proof.
  unfold mode_phase. repeat (break_match; cbn [snd]); try reflexivity;
    match goal with H : change_permissions _ _ _ _ true = Some _ |- _ => now apply change_permissions_check in H end.
Qed.

Lemma copy_file_check e p s : unchanged s (snd (copy_file e p true s)).
Proof.
  unfold copy_file.
  destruct (open_dest e (cp_dest p) true s) as [[s1 [[c dm]|]]|] eqn:Ho; cbn [snd]; try apply unchanged_refl.
  - apply open_dest_check in Ho.
    destruct (desired_content (cp_input p) (sw s1)); cbn [snd]; [|assumption].
    destruct (content_phase (cp_dest p) c s0 dm true s1) as [[s2 ch1]|] eqn:Hc; cbn [snd]; [|assumption].
    apply content_phase_check in Hc. subst. now rewrite mode_phase_check.
  - now apply open_dest_check in Ho.
Qed.

Lemma template_check e p r s : unchanged s (snd (template e p r true s)).
Proof.
  unfold template. repeat (first [apply copy_file_check | apply unchanged_refl | break_match; cbn [snd]]).
Qed.

Lemma apply_permissions_check n o p s : snd (apply_permissions_if_necessary n o p true s) = s.
Proof. unfold apply_permissions_if_necessary. repeat (break_match; cbn [snd]); reflexivity. Qed.

Lemma define_file_check e p s : snd (define_file e p true s) = s.
Proof.
  unfold define_file, fail_if_not_exist.
  repeat (first [ reflexivity | apply apply_permissions_check | break_match; cbn [snd] ]).
Qed.

Lemma run_task_check e t s : unchanged s (snd (run_task e t true s)).
Proof.
  destruct t; cbn [run_task].
  - apply copy_file_check.
  - apply template_check.
  - rewrite define_file_check. apply unchanged_refl.
Qed.

(* both ways of enabling check mode reach the module with check = true *)
Lemma effective_check_spec g k : effective_check g k = orb g k.
Proof. destruct g, k; reflexivity. Qed.

(* pacman: in check mode only read-only requests are logged and the database is unchanged *)
Lemma pacman_check p s :
  let s' := snd (pacman p true s) in
  pdb s' = pdb s /\ exists l, plog s' = plog s ++ l /\ forallb read_only l = true.
Proof.
  unfold pacman. cbn [negb andb]. rewrite andb_false_r.
  destruct (pp_state p); destruct (pp_upgrade p); cbn [plog1 pdb plog];
    repeat (first [progress simp_eqs | break_match; cbn [snd plog1 pdb plog] in * ]);
    cbn [snd plog1 pdb plog];
    (split; [reflexivity|]); rewrite <- ?app_assoc; eexists; (split; [reflexivity|]); reflexivity.
Qed.

(* non-vacuity: a concrete check-mode task that WOULD act *)
Example c03_nonvacuous :
  let w := of_list [([], NDir 493); (["d"%string], NFile "old" 420)] in
  let p := {| cp_input := IContent "new"; cp_dest := ["d"%string]; cp_mode := MStr "0600" |} in
  fst (copy_file {| umask := 18; tmpmode := 420 |} p true {| sw := w; slog := [] |}) = ROk true
  /\ fst (copy_file {| umask := 18; tmpmode := 420 |} p false {| sw := w; slog := [] |}) = ROk true.
Proof. split; vm_compute; reflexivity. Qed.


(* ================================================================== C04 / C05 / C06 over run_task *)
Definition wf_task (t : task) : Prop :=
  match t with TFile p => fp_path p <> [] | _ => True end.


Theorem fs_declared e t s ch s' :
  run_task e t false s = (ROk ch, s') -> wf_task t -> no_alias t (sw s) = true ->
  known_type_mismatch t (sw s) = false -> known_absent_dangling t (sw s) = false ->
  declared_b t (sw s) (sw s') = true.
Proof.
  destruct t as [p|p [text|]|p]; cbn [run_task wf_task]; intros H W NA K1 K2.
  - eapply copy_declared; eauto.
  - eapply template_declared; eauto.
  - pose proof (template_none e p false s) as E. rewrite H in E. discriminate E.
  - eapply file_declared; eauto.
Qed.

Theorem fs_ok_means_unchanged e t s s' :
  run_task e t false s = (ROk false, s') -> known_empty_create e t (sw s) = false -> s' = s.
Proof.
  destruct t as [p|p [text|]|p]; cbn [run_task]; intros H K.
  - eapply copy_ok_noop; eauto.
  - eapply template_ok_noop; eauto.
  - pose proof (template_none e p false s) as E. rewrite H in E. discriminate E.
  - eapply file_ok_noop; eauto.
Qed.

Theorem fs_changed_means_differs e t s s' :
  run_task e t false s = (ROk true, s') -> wf_task t ->
  lstat (sw s') (target t) <> lstat (sw s) (target t) \/ stat (sw s') (target t) <> stat (sw s) (target t).
Proof.
  destruct t as [p|p [text|]|p]; cbn [run_task wf_task target]; intros H W.
  - right. eapply copy_changed_differs; eauto.
  - right. eapply template_changed_differs; eauto.
  - pose proof (template_none e p false s) as E. rewrite H in E. discriminate E.
  - eapply file_changed_differs; eauto.
Qed.

Theorem fs_idempotent e t s ch s' :
  run_task e t false s = (ROk ch, s') -> wf_task t -> no_alias t (sw s) = true ->
  forall l, run_task e t false {| sw := sw s'; slog := l |} = (ROk false, {| sw := sw s'; slog := l |}).
Proof.
  destruct t as [p|p [text|]|p]; cbn [run_task wf_task]; intros H W NA l.
  - eapply copy_idempotent; eauto.
  - eapply template_idempotent; eauto.
  - pose proof (template_none e p false s) as E. rewrite H in E. discriminate E.
  - eapply file_idempotent; eauto.
Qed.

Theorem fs_predicts e t s c1 s1 c2 s2 :
  run_task e t true s = (ROk c1, s1) -> run_task e t false s = (ROk c2, s2) ->
  no_alias t (sw s) = true -> known_empty_create e t (sw s) = false -> tmp_like_create e -> c1 = c2.
Proof.
  destruct t as [p|p [text|]|p]; cbn [run_task]; intros H1 H2 NA K T.
  - eapply copy_predicts; eauto.
  - eapply template_predicts; eauto.
  - pose proof (template_none e p false s) as E. rewrite H2 in E. discriminate E.
  - eapply file_predicts; eauto.
Qed.

Theorem fs_check_ok_means_real_noop e t s s1 c2 s2 :
  run_task e t true s = (ROk false, s1) -> run_task e t false s = (ROk c2, s2) ->
  no_alias t (sw s) = true -> known_empty_create e t (sw s) = false -> tmp_like_create e -> c2 = false /\ s2 = s.
Proof.
  intros H1 H2 NA K T. assert (false = c2) by (eapply fs_predicts; eauto). subst c2.
  split; [reflexivity|]. eapply fs_ok_means_unchanged; eauto.
Qed.

(* a pass over a task list in which every task is already stable is a no-op reported ok *)
Definition stable (e : env) (t : task) (w : world) : Prop :=
  forall l, run_task e t false {| sw := w; slog := l |} = (ROk false, {| sw := w; slog := l |}).
Theorem pass_of_stable_tasks_is_noop e ts : forall w l,
  Forall (fun t => stable e t w) ts ->
  run_all e ts {| sw := w; slog := l |} = (map (fun _ => ROk false) ts, {| sw := w; slog := l |}).
Proof.
  induction ts as [|t r IH]; intros w l HF; [reflexivity|]. inversion HF as [|? ? Ht Hr]; subst.
  cbn [run_all map]. rewrite (Ht l). rewrite (IH w l Hr). reflexivity.
Qed.

(* ------------------------------------------------------------------ refuted full statements *)
Definition env0 := {| umask := 18; tmpmode := 420 |}.
Definition w_empty : world := of_list [([], NDir 493)].

(* K8: changed-iff is false for an empty copy onto an absent destination *)
Lemma K8_changed_iff_refuted :
  let t := TCopy {| cp_input := IContent ""; cp_dest := ["d"%string]; cp_mode := MNone |} in
  let r := run_task env0 t false {| sw := w_empty; slog := [] |} in
  fst r = ROk false /\ sw (snd r) ["d"%string] <> w_empty ["d"%string]
  /\ known_empty_create env0 t w_empty = true
  /\ fst (run_task env0 (TCopy {| cp_input := IContent ""; cp_dest := ["d"%string]; cp_mode := MStr "0600" |}) true
            {| sw := w_empty; slog := [] |}) = ROk true
  /\ fst (run_task env0 (TCopy {| cp_input := IContent ""; cp_dest := ["d"%string]; cp_mode := MStr "0644" |}) false
            {| sw := w_empty; slog := [] |}) = ROk false
  (* the class is exactly "no chmod follows": with a mode that differs from the creation mode the task
     reports changed (check mode too) and is outside the class *)
  /\ known_empty_create env0 (TCopy {| cp_input := IContent ""; cp_dest := ["d"%string]; cp_mode := MStr "0600" |}) w_empty = false
  /\ known_empty_create env0 (TCopy {| cp_input := IContent ""; cp_dest := ["d"%string]; cp_mode := MStr "0644" |}) w_empty = true
  /\ fst (run_task env0 (TCopy {| cp_input := IContent ""; cp_dest := ["d"%string]; cp_mode := MStr "0600" |}) false
            {| sw := w_empty; slog := [] |}) = ROk true
  /\ tmp_like_create env0.
Proof. cbv zeta. repeat split; try (vm_compute; reflexivity). vm_compute. discriminate. Qed.

(* K9: declared state is false after a successful directory-on-file / touch-on-dir / absent-on-dangling *)
Lemma K9_declared_refuted :
  let wf := of_list [([], NDir 493); (["d"%string], NFile "x" 420)] in
  let wd := of_list [([], NDir 493); (["d"%string], NDir 493)] in
  let wl := of_list [([], NDir 493); (["d"%string], NLink ["nowhere"%string])] in
  let tdir := TFile {| fp_path := ["d"%string]; fp_state := SDirectory; fp_mode := None |} in
  let ttouch := TFile {| fp_path := ["d"%string]; fp_state := STouch; fp_mode := None |} in
  let tabs := TFile {| fp_path := ["d"%string]; fp_state := SAbsent; fp_mode := None |} in
  (fst (run_task env0 tdir false {| sw := wf; slog := [] |}) = ROk false /\ declared_b tdir wf wf = false
   /\ known_type_mismatch tdir wf = true)
  /\ (fst (run_task env0 ttouch false {| sw := wd; slog := [] |}) = ROk false /\ declared_b ttouch wd wd = false
      /\ known_type_mismatch ttouch wd = true)
  /\ (fst (run_task env0 tabs false {| sw := wl; slog := [] |}) = ROk false /\ declared_b tabs wl wl = false
      /\ known_absent_dangling tabs wl = true).
Proof. cbv zeta. repeat split; vm_compute; reflexivity. Qed.

(* K28: check mode reports a status where the real run fails (missing parent directory) *)
Lemma K28_check_misses_failure_refuted :
  let t := TFile {| fp_path := ["np"; "d"]%string; fp_state := STouch; fp_mode := None |} in
  fst (run_task env0 t true {| sw := w_empty; slog := [] |}) = ROk true
  /\ fst (run_task env0 t false {| sw := w_empty; slog := [] |}) = RErr
  /\ (let c := TCopy {| cp_input := IContent "x"; cp_dest := ["np"; "d"]%string; cp_mode := MNone |} in
      fst (run_task env0 c true {| sw := w_empty; slog := [] |}) = ROk true
      /\ fst (run_task env0 c false {| sw := w_empty; slog := [] |}) = RErr).
Proof. cbv zeta. repeat split; vm_compute; reflexivity. Qed.

(* K19: sync of a dependency-installed package never reaches the declared state *)
Lemma K19_sync_refuted :
  let d := {| installed := ["a"%string]; explicit := []; sysver := 0; dbver := 0; upstream := 0 |} in
  let p := {| pp_names := ["a"%string]; pp_state := PSync; pp_update_cache := false; pp_upgrade := false |} in
  let r := pacman p false {| pdb := d; plog := [] |} in
  pr_changed (fst r) = true /\ pdb (snd r) = {| installed := ["a"%string]; explicit := []; sysver := 0; dbver := 0; upstream := 0 |}
  /\ pdeclared_b p (pdb (snd r)) = false /\ known_sync_dependency p d = true.
Proof. cbv zeta. repeat split; vm_compute; reflexivity. Qed.

(* non-vacuity of the positive theorems *)
Example c04_nonvacuous :
  let w := of_list [([], NDir 493); (["d"%string], NFile "old" 292)] in
  let t := TCopy {| cp_input := IContent "new"; cp_dest := ["d"%string]; cp_mode := MStr "4755" |} in
  fst (run_task env0 t false {| sw := w; slog := [] |}) = ROk true
  /\ no_alias t w = true /\ known_type_mismatch t w = false /\ known_absent_dangling t w = false
  /\ known_empty_create env0 t w = false
  /\ stat (sw (snd (run_task env0 t false {| sw := w; slog := [] |}))) ["d"%string] = Some (NFile "new" 2541).
Proof. cbv zeta. repeat split; vm_compute; reflexivity. Qed.
