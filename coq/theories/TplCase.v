(* Case runner for C12: class predicates evaluated in Coq. *)
From Coq Require Import List String Bool.
From RashV Require Import Sexp Tpl.
Import ListNotations.
Open Scope string_scope.

(* (plain xHEX) -> (plain_string has_open known_retyped) *)
Definition run_plain (e : sexp) : option sexp :=
  match e with
  | SList [Atom "plain"; s] =>
      match atom_bytes s with
      | Some s => Some (SList [show_bool (plain_string s); show_bool (has_open s); show_bool (known_retyped s)])
      | None => None
      end
  | _ => None
  end.
