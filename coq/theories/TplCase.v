(* Case runner for C12: class predicates evaluated in Coq. *)
From Coq Require Import List String Bool.
From RashV Require Import Sexp Tpl HelpDoc UsageDoc.
Import ListNotations.
Open Scope string_scope.

(* (plain xHEX) -> (plain_string has_open known_retyped) *)
Definition run_plain (e : sexp) : option sexp :=
  match e with
  | SList [Atom "plain"; s] =>
      match atom_bytes s with
      | Some s => Some (SList [show_bool (plain_string s); show_bool (has_open s); show_bool (known_retyped s)])
      | None => None
      end
  | _ => None
  end.

(* (helpdoc xFILE) -> xTEXT : the help text docopt::parse_help extracts from a script *)
Definition run_helpdoc (e : sexp) : option sexp :=
  match e with
  | SList [Atom "helpdoc"; f] => option_map (fun f => bytes_atom (parse_help f)) (atom_bytes f)
  | _ => None
  end.

(* (usagedoc xFILE) -> none | (xPATTERN ...) : the usage patterns docopt::parse_usage reads from a script *)
Definition run_usagedoc (e : sexp) : option sexp :=
  match e with
  | SList [Atom "usagedoc"; f] =>
      option_map (fun f => match usages_of_file f with
                           | None => Atom "none"
                           | Some l => SList (Atom "usages" :: map bytes_atom l)
                           end) (atom_bytes f)
  | _ => None
  end.
