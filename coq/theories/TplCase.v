(* Case runner for C12: class predicates evaluated in Coq. *)
From Coq Require Import List String Bool.
From RashV Require Import Sexp Tpl Omit Valid HelpDoc UsageDoc.
Import ListNotations.
Open Scope string_scope.

(* (plain xHEX) -> (plain_string has_open known_retyped) *)
Definition run_plain (e : sexp) : option sexp :=
  match e with
  | SList [Atom "plain"; s] =>
      match atom_bytes s with
      | Some s => Some (SList [show_bool (plain_string s); show_bool (has_open s); show_bool (known_retyped s)])
      | None => None
      end
  | _ => None
  end.

(* (helpdoc xFILE) -> xTEXT : the help text docopt::parse_help extracts from a script *)
Definition run_helpdoc (e : sexp) : option sexp :=
  match e with
  | SList [Atom "helpdoc"; f] => option_map (fun f => bytes_atom (parse_help f)) (atom_bytes f)
  | _ => None
  end.

(* (usagedoc xFILE) -> none | (xPATTERN ...) : the usage patterns docopt::parse_usage reads from a script *)
Definition run_usagedoc (e : sexp) : option sexp :=
  match e with
  | SList [Atom "usagedoc"; f] =>
      option_map (fun f => match usages_of_file f with
                           | None => Atom "none"
                           | Some l => SList (Atom "usages" :: map bytes_atom l)
                           end) (atom_bytes f)
  | _ => None
  end.

(* (rendermap (store (xK xV) ...) (entries (xK lit xV) | (xK var xK2) | (xK omit) | (xK defomit xK2) ...))
   -> (ok (xK xV) ...) | (err) : jinja::render_map over a mapping whose entries may yield `omit` *)
Definition read_pair (e : sexp) : option (string * string) :=
  match e with
  | SList [k; v] => match atom_bytes k, atom_bytes v with Some k, Some v => Some (k, v) | _, _ => None end
  | _ => None
  end.
Definition read_entry (e : sexp) : option (string * oval) :=
  match e with
  | SList [k; Atom "lit"; v] => match atom_bytes k, atom_bytes v with Some k, Some v => Some (k, OLit v) | _, _ => None end
  | SList [k; Atom "var"; v] => match atom_bytes k, atom_bytes v with Some k, Some v => Some (k, OVar v) | _, _ => None end
  | SList [k; Atom "defomit"; v] => match atom_bytes k, atom_bytes v with Some k, Some v => Some (k, ODefOmit v) | _, _ => None end
  | SList [k; Atom "omit"] => option_map (fun k => (k, OOmit)) (atom_bytes k)
  | _ => None
  end.
Definition run_rendermap (e : sexp) : option sexp :=
  match e with
  | SList [Atom "rendermap"; SList (Atom "store" :: st); SList (Atom "entries" :: es)] =>
      match map_opt read_pair st, map_opt read_entry es with
      | Some st, Some es =>
          Some (match render_entries st es with
                | Some l => SList (Atom "ok" :: map (fun '(k, v) => SList [bytes_atom k; bytes_atom v]) l)
                | None => SList [Atom "err"]
                end)
      | _, _ => None
      end
  | _ => None
  end.

(* (validfile notmap | (keys (s xKEY) | other ...) ...) -> (t|f per entry ... file t|f) : task/new.rs + task/valid.rs on the
   key sets of a file's entries *)
Definition read_tkey (e : sexp) : option tkey :=
  match e with
  | SList [Atom "s"; k] => option_map KStr (atom_bytes k)
  | Atom "other" => Some KOther
  | _ => None
  end.
Definition read_rawtask (e : sexp) : option rawtask :=
  match e with
  | Atom "notmap" => Some RNotMap
  | SList (Atom "keys" :: ks) => option_map RMap (map_opt read_tkey ks)
  | _ => None
  end.
Definition run_validfile (e : sexp) : option sexp :=
  match e with
  | SList (Atom "validfile" :: ts) =>
      option_map (fun ts => SList (map (fun t => show_bool (valid_task t)) ts ++ [Atom "file"; show_bool (valid_file ts)])) (map_opt read_rawtask ts)
  | _ => None
  end.

(* (validvals (W C K) ...) with W, C, K in null | bool | num | str | map | (seq ...) -> (t|f ...) : are the values of when /
   changed_when / check_mode readable (task/valid.rs::get_task) *)
Fixpoint read_yv (fuel : nat) (e : sexp) : option yv :=
  match fuel with
  | O => None
  | S f =>
      match e with
      | Atom "null" => Some YNull
      | Atom "bool" => Some YBool
      | Atom "num" => Some YNum
      | Atom "str" => Some YStr
      | Atom "map" => Some YMap
      | SList (Atom "seq" :: l) => option_map YSeq (map_opt (read_yv f) l)
      | _ => None
      end
  end.
Definition read_taskvals (e : sexp) : option taskvals :=
  match e with
  | SList [w; c; k] =>
      match read_yv 6 w, read_yv 6 c, read_yv 6 k with
      | Some w, Some c, Some k => Some {| v_when := w; v_changed_when := c; v_check_mode := k |}
      | _, _, _ => None
      end
  | _ => None
  end.
Definition run_validvals (e : sexp) : option sexp :=
  match e with
  | SList (Atom "validvals" :: l) => option_map (fun l => SList (map (fun tv => show_bool (values_ok tv)) l)) (map_opt read_taskvals l)
  | _ => None
  end.
