(* parse_octal: value of every 3- and 4-digit octal string, bound, round trip with {:o}. *)
From Coq Require Import List String Ascii Bool NArith Lia.
From RashV Require Import Octal.
Import ListNotations.
Open Scope N_scope.

Lemma odigit_inv c d : odigit c = Some d -> c = ascii_of_N (48 + d) /\ d < 8.
Proof.
  unfold odigit. destruct (andb (N.leb 48 (N_of_ascii c)) (N.leb (N_of_ascii c) 55)) eqn:E; [|discriminate].
  intro H; inversion H; subst. apply andb_true_iff in E as [E1 E2].
  apply N.leb_le in E1, E2. split; [|lia].
  replace (48 + (N_of_ascii c - 48)) with (N_of_ascii c) by lia. now rewrite ascii_N_embedding.
Qed.

Definition dchar (d : N) : ascii := ascii_of_N (48 + d).
Definition digs : list N := [0;1;2;3;4;5;6;7].

Definition sweep3 : bool :=
  forallb (fun a => forallb (fun b => forallb (fun c =>
    match parse_octal (String (dchar a) (String (dchar b) (String (dchar c) EmptyString))) with
    | OOk n => N.eqb n (64 * a + 8 * b + c) | OErr => false end) digs) digs) digs.
Definition sweep4 : bool :=
  forallb (fun z => forallb (fun a => forallb (fun b => forallb (fun c =>
    match parse_octal (String (dchar z) (String (dchar a) (String (dchar b) (String (dchar c) EmptyString)))) with
    | OOk n => N.eqb n (512 * z + 64 * a + 8 * b + c) | OErr => false end) digs) digs) digs) digs.
Lemma sweep3_ok : sweep3 = true. Proof. vm_compute. reflexivity. Qed.
Lemma sweep4_ok : sweep4 = true. Proof. vm_compute. reflexivity. Qed.

Lemma in_digs d : d < 8 -> In d digs.
Proof. intro H. unfold digs. assert (d = 0 \/ d = 1 \/ d = 2 \/ d = 3 \/ d = 4 \/ d = 5 \/ d = 6 \/ d = 7) by lia.
  cbn. intuition. Qed.

(* every 3-digit octal mode string denotes exactly its value *)
Lemma parse_octal_3 c2 c1 c0 d2 d1 d0 :
  odigit c2 = Some d2 -> odigit c1 = Some d1 -> odigit c0 = Some d0 ->
  parse_octal (String c2 (String c1 (String c0 EmptyString))) = OOk (64 * d2 + 8 * d1 + d0).
Proof.
  intros H2 H1 H0. apply odigit_inv in H2 as [-> L2], H1 as [-> L1], H0 as [-> L0].
  pose proof sweep3_ok as S. unfold sweep3 in S.
  rewrite forallb_forall in S. specialize (S _ (in_digs _ L2)).
  rewrite forallb_forall in S. specialize (S _ (in_digs _ L1)).
  rewrite forallb_forall in S. specialize (S _ (in_digs _ L0)).
  unfold dchar in S. destruct (parse_octal _) as [n|]; [|discriminate]. apply N.eqb_eq in S. now subst.
Qed.

(* every 4-digit octal mode string denotes exactly its value, leading digit included
   (setuid/setgid/sticky): the statement K1 violated before the fix *)
Lemma parse_octal_4 c3 c2 c1 c0 d3 d2 d1 d0 :
  odigit c3 = Some d3 -> odigit c2 = Some d2 -> odigit c1 = Some d1 -> odigit c0 = Some d0 ->
  parse_octal (String c3 (String c2 (String c1 (String c0 EmptyString)))) = OOk (512 * d3 + 64 * d2 + 8 * d1 + d0).
Proof.
  intros H3 H2 H1 H0. apply odigit_inv in H3 as [-> L3], H2 as [-> L2], H1 as [-> L1], H0 as [-> L0].
  pose proof sweep4_ok as S. unfold sweep4 in S.
  rewrite forallb_forall in S. specialize (S _ (in_digs _ L3)).
  rewrite forallb_forall in S. specialize (S _ (in_digs _ L2)).
  rewrite forallb_forall in S. specialize (S _ (in_digs _ L1)).
  rewrite forallb_forall in S. specialize (S _ (in_digs _ L0)).
  unfold dchar in S. destruct (parse_octal _) as [n|]; [|discriminate]. apply N.eqb_eq in S. now subst.
Qed.

(* the pre-fix code is refuted by "4755" and panics on "e-acute 7 5" *)
Lemma parse_octal_old_refuted :
  parse_octal_old "4755" = OldOk 493 /\ parse_octal "4755" = OOk 2541
  /\ parse_octal_old (String (ascii_of_N 195) (String (ascii_of_N 169) "75")) = OldPanic.
Proof. repeat split; vm_compute; reflexivity. Qed.

(* bound: whatever parse_octal accepts fits in the 12 permission bits *)
Lemma odigits_bound s : forall acc n, odigits s acc = Some n -> n < acc * 8 ^ N.of_nat (String.length s) + 8 ^ N.of_nat (String.length s).
Proof.
  induction s as [|c r IH]; intros acc n H; cbn [odigits] in H.
  - inversion H; subst. cbn. lia.
  - destruct (odigit c) as [d|] eqn:E; [|discriminate]. apply odigit_inv in E as [_ Ld].
    apply IH in H. cbn [String.length]. rewrite Nat2N.inj_succ, N.pow_succ_r'.
    set (P := 8 ^ N.of_nat (String.length r)) in *. clearbody P. clear IH.
    replace ((8 * acc + d) * P + P) with (8 * acc * P + (d + 1) * P) in H by ring.
    assert ((d + 1) * P <= 8 * P) by (apply N.mul_le_mono_r; lia).
    replace (acc * (8 * P)) with (8 * acc * P) by ring. lia.
Qed.

Lemma fsr_unfold c r : from_str_radix8 (String c r) =
  if Ascii.eqb c "+"%char then match r with EmptyString => None | _ => odigits r 0 end else odigits (String c r) 0.
Proof. destruct c as [[] [] [] [] [] [] [] []]; try reflexivity; destruct r; reflexivity. Qed.

Lemma odigits_bound_len t n k : (String.length t <= k)%nat -> odigits t 0 = Some n -> n < 8 ^ N.of_nat k.
Proof.
  intros Ht Ho. apply odigits_bound in Ho. cbn in Ho.
  assert (8 ^ N.of_nat (String.length t) <= 8 ^ N.of_nat k) by (apply N.pow_le_mono_r; lia). lia.
Qed.

Lemma from_str_radix8_bound s n k : (String.length s <= k)%nat -> from_str_radix8 s = Some n -> n < 8 ^ N.of_nat k.
Proof.
  destruct s as [|c r]; [discriminate|]. rewrite fsr_unfold. intros L F.
  destruct (Ascii.eqb c "+"%char).
  - destruct r as [|c' r']; [discriminate|]. eapply odigits_bound_len; [|exact F]. cbn in *; lia.
  - eapply odigits_bound_len; [|exact F]. exact L.
Qed.

Lemma parse_octal_bound s n : parse_octal s = OOk n -> n < 4096.
Proof.
  unfold parse_octal.
  destruct (String.length s) as [|[|[|[|[|k]]]]] eqn:L; try discriminate;
    (destruct (from_str_radix8 s) as [m|] eqn:F; [|discriminate]); intro H; inversion H; subst.
  - apply (from_str_radix8_bound s n 3) in F; [|lia]. change (8 ^ N.of_nat 3) with 512 in F. lia.
  - apply (from_str_radix8_bound s n 4) in F; [|lia]. exact F.
Qed.

(* {:o} then parse_octal is the identity on every mode with 3 or 4 octal digits
   (template's `preserve`): finite domain, swept and lifted *)
Definition range (a b : N) : list N := map (fun i => a + N.of_nat i) (seq 0 (N.to_nat (b - a))).
Lemma in_range a b x : a <= x < b -> In x (range a b).
Proof. intros [H1 H2]. unfold range. apply in_map_iff. exists (N.to_nat (x - a)). split; [lia|].
  apply in_seq. lia. Qed.
Definition rt_ok (m : N) : bool := match parse_octal (to_octal m) with OOk n => N.eqb n m | OErr => false end.
Definition rt_err (m : N) : bool := match parse_octal (to_octal m) with OOk _ => false | OErr => true end.
Lemma sweep_rt_ok : forall m, In m (range 64 4096) -> rt_ok m = true.
Proof. apply forallb_forall. vm_compute. reflexivity. Qed.
Lemma sweep_rt_small_ok : forall m, In m (range 0 64) -> rt_err m = true.
Proof. apply forallb_forall. vm_compute. reflexivity. Qed.
Lemma parse_to_octal m : 64 <= m < 4096 -> parse_octal (to_octal m) = OOk m.
Proof.
  intro H. pose proof (sweep_rt_ok m (in_range _ _ _ H)) as S. unfold rt_ok in S.
  destruct (parse_octal (to_octal m)); [|discriminate]. apply N.eqb_eq in S. now subst.
Qed.
Lemma parse_to_octal_small m : m < 64 -> parse_octal (to_octal m) = OErr.
Proof.
  intro H. assert (Hin : In m (range 0 64)) by (apply in_range; lia).
  pose proof (sweep_rt_small_ok m Hin) as S. unfold rt_err in S.
  destruct (parse_octal (to_octal m)); [discriminate|reflexivity].
Qed.
