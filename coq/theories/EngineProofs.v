(* Theorems about the engine mirror (for every setting of the quirk switches, every way of
   running included files, every program): order, once per item, stop at the first failure
   (C01); what a store looks like after each kind of step (C02); nothing runs before
   validation (C11); include identity (C17); and the refuting witnesses of K2-K5. *)
From Coq Require Import List String Ascii Bool NArith Lia.
From RashV Require Import Engine.
Import ListNotations.
Open Scope string_scope. Open Scope list_scope.

Section thms.
  Variable q : quirks.
  Variable root : string.
  Variable fs : files.
  Variable run_inc : runner.

  Notation exec_list := (exec_list q root fs run_inc).
  Notation exec_task := (exec_task q root fs run_inc).
  Notation exec_module := (exec_module q root fs run_inc).
  Notation exec_items := (exec_items q root fs run_inc).
  Notation exec_mod := (exec_mod q root fs run_inc).

  (* ------------------------------------------------------------ C01: order and stop *)
  Lemma exec_list_app ts1 ts2 st :
    exec_list (ts1 ++ ts2) st =
    match exec_list ts1 st with
    | (e1, Ok st1) => let '(e2, r) := exec_list ts2 st1 in (e1 ++ e2, r)
    | (e1, Fail) => (e1, Fail)
    end.
  Proof.
    revert st. induction ts1 as [|t ts1 IH]; intro st; cbn [app Engine.exec_list].
    - destruct (exec_list ts2 st) as [e2 r]. reflexivity.
    - destruct (exec_task t st) as [e [st'|]]; [|reflexivity].
      rewrite IH. destruct (exec_list ts1 st') as [e1 [st1|]].
      + destruct (exec_list ts2 st1) as [e2 r]. now rewrite app_assoc.
      + reflexivity.
  Qed.

  (* the first task that fails ends the run: whatever follows it contributes nothing *)
  Theorem stop_at_first_failure ts1 t ts2 st e1 st1 et :
    exec_list ts1 st = (e1, Ok st1) -> exec_task t st1 = (et, Fail) ->
    exec_list (ts1 ++ t :: ts2) st = (e1 ++ et, Fail).
  Proof.
    intros H1 H2. rewrite exec_list_app, H1. cbn [Engine.exec_list]. now rewrite H2.
  Qed.

  (* a successful run is the chain of its tasks, each run exactly once, in file order,
     each starting from the store its predecessor left *)
  Inductive Chain : list task -> store -> list event -> store -> Prop :=
  | ChNil st : Chain [] st [] st
  | ChCons t r st e st' es st'' :
      exec_task t st = (e, Ok st') -> Chain r st' es st'' -> Chain (t :: r) st (e ++ es) st''.

  Theorem success_is_chain ts : forall st evs st',
    exec_list ts st = (evs, Ok st') -> Chain ts st evs st'.
  Proof.
    induction ts as [|t r IH]; intros st evs st' H; cbn in H.
    - inversion H; subst. constructor.
    - destruct (exec_task t st) as [e [st1|]] eqn:Et; [|discriminate].
      destruct (exec_list r st1) as [es [st2|]] eqn:Er; inversion H; subst.
      econstructor; eauto.
  Qed.

  (* loops: one module execution per item, in list order, stopping at the first failing item *)
  Lemma exec_items_app t its1 its2 ctx :
    q_item_leaks q = true ->
    exec_items t (its1 ++ its2) ctx =
    match exec_items t its1 ctx with
    | (e1, Ok c1) => let '(e2, r) := exec_items t its2 c1 in (e1 ++ e2, r)
    | (e1, Fail) => (e1, Fail)
    end.
  Proof.
    intro Hq. revert ctx. induction its1 as [|it its1 IH]; intro ctx; cbn [app Engine.exec_items].
    - destruct (exec_items t its2 ctx) as [e2 r]. reflexivity.
    - destruct (exec_module t (("item", VStr it) :: ctx)) as [e [c'|]]; [|reflexivity].
      rewrite Hq, IH. destruct (exec_items t its1 c') as [e1 [c1|]].
      + destruct (exec_items t its2 c1) as [e2 r]. now rewrite app_assoc.
      + reflexivity.
  Qed.

  Theorem loop_stops_at_failing_item t its1 it its2 ctx e1 c1 ei :
    q_item_leaks q = true ->
    exec_items t its1 ctx = (e1, Ok c1) -> exec_module t (("item", VStr it) :: c1) = (ei, Fail) ->
    exec_items t (its1 ++ it :: its2) ctx = (e1 ++ ei, Fail).
  Proof.
    intros Hq H1 H2. rewrite exec_items_app, H1 by assumption. cbn [Engine.exec_items]. now rewrite H2.
  Qed.

  (* a task (or loop item) whose `when` is false has no effect at all *)
  Theorem skipped_has_no_effect t st ext e :
    extend_vars t st = Some ext -> t_when t = Some e -> cond ext e = Some false ->
    exec_module t st = ([], Ok st).
  Proof. intros H1 H2 H3. unfold Engine.exec_module. now rewrite H1, H2, H3. Qed.

  (* an ignored module failure logs one record and leaves the store untouched *)
  Theorem ignored_failure_continues t st ext evs msg :
    extend_vars t st = Some ext ->
    (match t_when t with Some e => cond ext e | None => Some true end) = Some true ->
    exec_mod t st ext = MErr evs msg -> t_ignore t = true ->
    exec_module t st = (evs ++ [ignored_event msg], Ok st).
  Proof. intros H1 H2 H3 H4. unfold Engine.exec_module. now rewrite H1, H2, H3, H4. Qed.

  Theorem unignored_failure_fails t st ext evs msg :
    extend_vars t st = Some ext ->
    (match t_when t with Some e => cond ext e | None => Some true end) = Some true ->
    exec_mod t st ext = MErr evs msg -> t_ignore t = false ->
    exec_module t st = (evs, Fail).
  Proof. intros H1 H2 H3 H4. unfold Engine.exec_module. now rewrite H1, H2, H3, H4. Qed.

  (* ------------------------------------------------------------ C02: the store *)
  Lemma lookup_cons_same k v st : lookup ((k, v) :: st) k = v.
  Proof. cbn. now rewrite String.eqb_refl. Qed.
  Lemma lookup_cons_other k k' v st : k <> k' -> lookup ((k, v) :: st) k' = lookup st k'.
  Proof. intro H. cbn. apply String.eqb_neq in H. now rewrite H. Qed.

  Definition writes (m : modcall) : bool :=
    match m with MSetVars _ | MSetLit _ _ | MInclude _ => true | _ => false end.

  (* modules other than set_vars / include hand the store back untouched: in particular the
     task's own `vars` and the rendered parameters never persist *)
  Lemma exec_mod_keeps_store t st ext evs r :
    writes (t_mod t) = false -> exec_mod t st ext = MOk evs r -> m_vars r = st.
  Proof.
    unfold Engine.exec_mod. destruct (t_mod t) as [tp|p|kvs|k v|es|l o rc|l|f|]; cbn [writes]; try discriminate; intros _ H;
      repeat match goal with
      | H : context [match ?x with _ => _ end] |- _ => destruct x eqn:?
      end; inversion H; reflexivity.
  Qed.

  Theorem task_vars_do_not_persist t st evs st' :
    writes (t_mod t) = false -> t_register t = None ->
    exec_module t st = (evs, Ok st') -> st' = st.
  Proof.
    intros Hw Hr. unfold Engine.exec_module.
    destruct (extend_vars t st) as [ext|]; [|unfold render_failure; destruct (andb _ _); intro H; inversion H; reflexivity].
    destruct (match t_when t with Some e => cond ext e | None => Some true end) as [[|]|];
      [|intro H; inversion H; reflexivity|unfold render_failure; destruct (andb _ _); intro H; inversion H; reflexivity].
    destruct (exec_mod t st ext) as [evs' r|evs' msg|] eqn:Em.
    - apply exec_mod_keeps_store in Em; [|assumption].
      destruct (match t_changed_when t with Some _ => _ | None => _ end);
        [|destruct (andb _ _); intro H; inversion H; reflexivity].
      rewrite Hr, Em. intro H; inversion H; reflexivity.
    - destruct (t_ignore t); intro H; inversion H; reflexivity.
    - unfold render_failure; destruct (andb _ _); intro H; inversion H; reflexivity.
  Qed.

  (* register: the result is visible under that name, every other name is as the module left it *)
  Theorem register_visible t st ext evs r reg evs' st' :
    extend_vars t st = Some ext ->
    (match t_when t with Some e => cond ext e | None => Some true end) = Some true ->
    exec_mod t st ext = MOk evs r -> t_register t = Some reg -> t_changed_when t = None ->
    exec_module t st = (evs', Ok st') ->
    lookup st' reg = result_val (m_changed r) (m_output r) (m_extra r) /\
    forall k, k <> reg -> lookup st' k = lookup (m_vars r) k.
  Proof.
    intros H1 H2 H3 H4 H5. unfold Engine.exec_module. rewrite H1, H2, H3, H4, H5.
    intro H; inversion H; subst. split; [apply lookup_cons_same|intros k Hk; apply lookup_cons_other; congruence].
  Qed.

  (* set_vars: the latest write to a name wins, other names are untouched *)
  Fixpoint last_write (l : list (string * string)) (k : string) : option string :=
    match l with
    | [] => None
    | (k', v) :: r => match last_write r k with
                      | Some x => Some x
                      | None => if String.eqb k' k then Some v else None
                      end
    end.
  Lemma set_vars_lookup l : forall st k,
    lookup (fold_left (fun acc '(k, v) => (k, VStr v) :: acc) l st) k =
    match last_write l k with Some v => VStr v | None => lookup st k end.
  Proof.
    induction l as [|[k' v] l IH]; intros st k; cbn [fold_left last_write]; [reflexivity|].
    rewrite IH. destruct (last_write l k); [reflexivity|]. cbn. destruct (String.eqb k' k); reflexivity.
  Qed.

  (* ------------------------------------------------------------ C17: include *)
  Theorem include_identity t st ext file its evs r :
    t_mod t = MInclude file -> find_file fs file = Some (Some its) ->
    exec_mod t st ext = MOk evs r ->
    (* inside: the included file's identity, and every caller variable *)
    (exists res, run_inc its (("rash", builtins root file) :: st) = (evs, Ok res)) /\
    lookup (("rash", builtins root file) :: st) "rash" = builtins root file /\
    (forall k, k <> "rash" -> lookup (("rash", builtins root file) :: st) k = lookup st k) /\
    (* afterwards: the caller's identity again *)
    lookup (m_vars r) "rash" = lookup st "rash".
  Proof.
    intros Hm Hf. unfold Engine.exec_mod. rewrite Hm, Hf.
    destruct (run_inc its _) as [e [res|]] eqn:Er; intro H; inversion H; subst.
    split; [eauto|]. split; [apply lookup_cons_same|]. split; [intros k Hk; apply lookup_cons_other; congruence|].
    cbn [m_vars]. apply lookup_cons_same.
  Qed.

  Theorem include_failure_propagates t st ext file its evs :
    t_mod t = MInclude file -> find_file fs file = Some (Some its) ->
    run_inc its (("rash", builtins root file) :: st) = (evs, Fail) ->
    exec_mod t st ext = MErr evs None.
  Proof. intros Hm Hf Hr. unfold Engine.exec_mod. now rewrite Hm, Hf, Hr. Qed.

  Theorem invalid_include_runs_nothing t st ext file :
    t_mod t = MInclude file -> find_file fs file = Some None -> exec_mod t st ext = MErr [] None.
  Proof. intros Hm Hf. unfold Engine.exec_mod. now rewrite Hm, Hf. Qed.
End thms.

(* ------------------------------------------------------------ C11: main *)
(* parse_file validates every task of the file before any runs *)
Definition parse_file (raw : list (option task)) : option (list task) :=
  (fix go (l : list (option task)) : option (list task) :=
     match l with
     | [] => Some []
     | Some t :: r => match go r with Some ts => Some (t :: ts) | None => None end
     | None :: _ => None
     end) raw.

Lemma parse_file_invalid raw : In None raw -> parse_file raw = None.
Proof.
  induction raw as [|[t|] r IH]; intro H; cbn in *; [tauto| |reflexivity].
  destruct H as [H|H]; [discriminate|]. unfold parse_file in IH. now rewrite (IH H).
Qed.
Lemma parse_file_valid raw ts : parse_file raw = Some ts -> raw = map Some ts.
Proof.
  revert ts. induction raw as [|[t|] r IH]; intros ts H; cbn in H.
  - inversion H. reflexivity.
  - unfold parse_file in IH. destruct ((fix go (l : list (option task)) := _) r) as [ts'|] eqn:E; [|discriminate].
    inversion H; subst. cbn. f_equal. now apply IH.
  - discriminate.
Qed.

Theorem main_rejected_arguments q root fs fuel script env :
  main q root fs fuel script DReject env = {| r_events := []; r_exit_ok := false |}.
Proof. reflexivity. Qed.

Theorem main_help q root fs fuel script env text :
  main q root fs fuel script (DHelp text) env = {| r_events := [EvOut text]; r_exit_ok := true |}.
Proof. reflexivity. Qed.

(* one invalid task anywhere in the file - also after any number of valid ones - and nothing runs *)
Theorem main_invalid_task_runs_nothing q root fs fuel script vars env raw :
  In None raw -> find_file fs script = Some (parse_file raw) ->
  main q root fs fuel script (DAccept vars) env = {| r_events := []; r_exit_ok := false |}.
Proof. intros Hin Hf. unfold main. now rewrite Hf, (parse_file_invalid raw Hin). Qed.

Theorem main_exit_status q root fs fuel script vars env ts :
  find_file fs script = Some (Some ts) ->
  r_exit_ok (main q root fs fuel script (DAccept vars) env) =
  match snd (run_tasks q root fs fuel ts (("rash", builtins root script) :: vars ++ env)) with Ok _ => true | Fail => false end.
Proof. intro Hf. unfold main. rewrite Hf. destruct (run_tasks _ _ _ _ _ _) as [e [s|]]; reflexivity. Qed.

(* ------------------------------------------------------------ witnesses of K2-K5 *)
Definition tk (m : modcall) : task :=
  {| t_when := None; t_loop := None; t_register := None; t_vars := []; t_ignore := false; t_changed_when := None; t_mod := m |}.
Definition run0 (q : quirks) (fs : files) (ts : list task) := run_tasks q "R" fs 4 ts [].

(* K5: an undefined variable in the parameters of a task with ignore_errors ends the run in the
   mirror, although no task failed without ignore_errors; the spec switches continue *)
Theorem K5_refuted :
  let t1 := {| t_when := None; t_loop := None; t_register := None; t_vars := []; t_ignore := true;
               t_changed_when := None; t_mod := MDebugMsg [TVar ["u"]] |} in
  let t2 := tk (MDebugMsg [TLit "after"]) in
  run0 mirror_quirks [] [t1; t2] = ([], Fail) /\
  run0 spec_quirks [] [t1; t2] = ([EvAny; EvOut "after"], Ok []).
Proof. split; vm_compute; reflexivity. Qed.

(* K2: after a loop the mirror still has `item`; the spec switches restore the store *)
Theorem K2_refuted :
  let t1 := {| t_when := None; t_loop := Some [[TLit "x"]; [TLit "y"]]; t_register := None; t_vars := [];
               t_ignore := false; t_changed_when := None; t_mod := MDebugMsg [TVar ["item"]] |} in
  let t2 := tk (MDebugMsg [TExp (EDefined ["item"])]) in
  fst (run0 mirror_quirks [] [t1; t2]) = [EvOut "x"; EvOut "y"; EvOut "true"] /\
  fst (run0 spec_quirks [] [t1; t2]) = [EvOut "x"; EvOut "y"; EvOut "false"].
Proof. split; vm_compute; reflexivity. Qed.

(* K4: a variable set inside an included file is lost on return in the mirror *)
Theorem K4_refuted :
  let inc := [tk (MSetVars [("a", [TLit "new"])])] in
  let ts := [tk (MSetVars [("a", [TLit "old"])]); tk (MInclude "inc"); tk (MDebugMsg [TVar ["a"]])] in
  fst (run0 mirror_quirks [("inc", Some inc)] ts) = [EvOut ""; EvOut ""; EvOut "old"] /\
  fst (run0 spec_quirks [("inc", Some inc)] ts) = [EvOut ""; EvOut ""; EvOut "new"].
Proof. split; vm_compute; reflexivity. Qed.

(* K3: an assert does not see the task's own vars in the mirror *)
Theorem K3_refuted :
  let t1 := {| t_when := None; t_loop := None; t_register := None; t_vars := [("a", [TLit "inner"])];
               t_ignore := false; t_changed_when := None; t_mod := MAssert [EEq (EVar ["a"]) (EStr "inner")] |} in
  run0 mirror_quirks [] [t1] = ([], Fail) /\ run0 spec_quirks [] [t1] = ([EvOut ""], Ok []).
Proof. split; vm_compute; reflexivity. Qed.

(* with the spec switches a loop over a non-writing module hands back exactly the store it got *)
Theorem spec_loop_restores_store root fs run_inc t its : forall ctx evs ctx',
  writes (t_mod t) = false -> t_register t = None ->
  exec_items spec_quirks root fs run_inc t its ctx = (evs, Ok ctx') -> ctx' = ctx.
Proof.
  induction its as [|it r IH]; intros ctx evs ctx' Hw Hr H; cbn in H.
  - inversion H; reflexivity.
  - destruct (Engine.exec_module spec_quirks root fs run_inc t (("item", VStr it) :: ctx)) as [e [c1|]] eqn:Em; [|discriminate].
    apply task_vars_do_not_persist in Em; [|assumption|assumption]. subst c1.
    cbn [List.length] in H. replace (S (List.length ctx) - List.length ctx - 1) with 0 in H by lia. cbn [remove_nth] in H.
    destruct (Engine.exec_items spec_quirks root fs run_inc t r ctx) as [e2 [c2|]] eqn:Er; inversion H; subst.
    eapply IH; eauto.
Qed.

(* non-vacuity: a program with loop x when x ignore_errors runs as a chain *)
Example chain_example :
  let t1 := {| t_when := Some (ENe (EVar ["item"]) (EStr "y")); t_loop := Some [[TLit "x"]; [TLit "y"]; [TLit "z"]];
               t_register := None; t_vars := []; t_ignore := false; t_changed_when := None;
               t_mod := MDebugMsg [TLit "i="; TVar ["item"]] |} in
  let t2 := {| t_when := None; t_loop := None; t_register := None; t_vars := []; t_ignore := true;
               t_changed_when := None; t_mod := MCommand "k" "" 3 |} in
  let t3 := tk (MCommand "k2" "out" 0) in
  run0 mirror_quirks [] [t1; t2; t3] =
  ([EvOut "i=x"; EvOut "i=z"; EvEffect "k"; EvOut ""; EvEffect "k2"; EvOut "out"],
   Ok [("item", VStr "z"); ("item", VStr "y"); ("item", VStr "x")]).
Proof. vm_compute. reflexivity. Qed.


(* ------------------------------------------------------------ the property text, positively *)
(* With the property-text switches nothing that happens inside a task with ignore_errors: true can
   end the run: whatever fails (rendering vars / when / parameters / loop / changed_when, the module,
   an included file) is logged and the run goes on. Together with stop_at_first_failure: a run ends
   early only at a task WITHOUT ignore_errors. (False of the mirror: K5.) *)
Lemma spec_module_ignored root fs run_inc t st :
  t_ignore t = true -> snd (exec_module spec_quirks root fs run_inc t st) <> Fail.
Proof.
  intro Hi. unfold Engine.exec_module, render_failure. cbn [q_render_not_ignorable q_no_task_vars spec_quirks negb andb].
  rewrite Hi. cbn [andb].
  destruct (extend_vars t st) as [ext|]; [|discriminate].
  destruct (match t_when t with Some e => cond ext e | None => Some true end) as [[|]|]; try discriminate.
  destruct (exec_mod spec_quirks root fs run_inc t st ext) as [evs r|evs msg|]; try discriminate.
  destruct (match t_changed_when t with Some _ => _ | None => _ end); discriminate.
Qed.

Lemma spec_items_ignored root fs run_inc t its : forall ctx,
  t_ignore t = true -> snd (exec_items spec_quirks root fs run_inc t its ctx) <> Fail.
Proof.
  induction its as [|it r IH]; intros ctx Hi; cbn; [discriminate|].
  pose proof (spec_module_ignored root fs run_inc t (("item"%string, VStr it) :: ctx) Hi) as Hm.
  destruct (Engine.exec_module spec_quirks root fs run_inc t (("item"%string, VStr it) :: ctx)) as [e [c|]]; [|now cbn in Hm].
  cbn [q_item_leaks spec_quirks].
  specialize (IH (remove_nth (List.length c - List.length ctx - 1) c) Hi).
  destruct (Engine.exec_items spec_quirks root fs run_inc t r _) as [e2 [c2|]]; [discriminate|now cbn in IH].
Qed.

Theorem spec_only_unignored_tasks_end_the_run root fs run_inc t st evs :
  exec_task spec_quirks root fs run_inc t st = (evs, Fail) -> t_ignore t = false.
Proof.
  intro H. destruct (t_ignore t) eqn:Hi; [exfalso|reflexivity].
  unfold Engine.exec_task in H. destruct (t_loop t) as [items|].
  - unfold render_failure in H. cbn [q_render_not_ignorable spec_quirks negb andb] in H. rewrite Hi in H. cbn [andb] in H.
    destruct (extend_vars t (("item"%string, VStr ""%string) :: st)) as [ext|]; [|discriminate].
    destruct (render_items ext items) as [its|]; [|discriminate].
    pose proof (spec_items_ignored root fs run_inc t its st Hi) as N. rewrite H in N. now cbn in N.
  - pose proof (spec_module_ignored root fs run_inc t st Hi) as N. rewrite H in N. now cbn in N.
Qed.

(* ------------------------------------------------------------------ where the code IS the property text *)
(* The four recorded deviations (K2-K5) need a loop, an include, task vars, or ignore_errors.  On
   tasks that use none of them the switches are irrelevant: the mirror of the code and the behaviour
   the properties describe are the same function, so every spec-level theorem holds of the code there. *)
Definition quirk_free (t : task) : bool :=
  andb (match t_loop t with None => true | Some _ => false end)
 (andb (match t_vars t with [] => true | _ => false end)
 (andb (negb (is_include t)) (negb (t_ignore t)))).

Lemma quirk_free_task q q' root fs run_inc t st :
  quirk_free t = true -> exec_task q root fs run_inc t st = exec_task q' root fs run_inc t st.
Proof.
  unfold quirk_free. intro H.
  apply andb_true_iff in H as [Hl H]. apply andb_true_iff in H as [Hv H]. apply andb_true_iff in H as [Hi Hg].
  apply negb_true_iff in Hi, Hg.
  unfold exec_task. destruct (t_loop t); [discriminate|].
  unfold exec_module, extend_vars, render_failure.
  destruct (t_vars t) eqn:Ev; [|discriminate]. cbn [render_map map app].
  rewrite Hg. rewrite !andb_false_r.
  destruct (match t_when t with Some e => cond st e | None => Some true end) as [[|]|]; try reflexivity.
  assert (E : exec_mod q root fs run_inc t st st = exec_mod q' root fs run_inc t st st).
  { unfold exec_mod. unfold is_include in Hi. destruct (t_mod t); try reflexivity; try discriminate.
    - destruct (q_no_task_vars q), (q_no_task_vars q'); reflexivity.
    - destruct (q_no_task_vars q), (q_no_task_vars q'); reflexivity. }
  rewrite E. destruct (exec_mod q' root fs run_inc t st st) as [evs r|evs msg|]; try reflexivity.
  destruct (t_changed_when t) as [e|]; [|reflexivity].
  destruct (q_no_task_vars q), (q_no_task_vars q'); reflexivity.
Qed.

Theorem quirk_free_program q q' root fs run_inc ts : forall st,
  forallb quirk_free ts = true -> exec_list q root fs run_inc ts st = exec_list q' root fs run_inc ts st.
Proof.
  induction ts as [|t r IH]; intros st H; [reflexivity|].
  cbn [forallb] in H. apply andb_true_iff in H as [Ht Hr]. cbn [exec_list].
  rewrite (quirk_free_task q q' root fs run_inc t st Ht).
  destruct (exec_task q' root fs run_inc t st) as [evs [st'|]]; [|reflexivity].
  now rewrite (IH st' Hr).
Qed.

(* in particular: the code mirror equals the property-text semantics on such programs *)
Corollary mirror_is_spec_on_quirk_free_programs root fs run_inc ts st :
  forallb quirk_free ts = true ->
  exec_list mirror_quirks root fs run_inc ts st = exec_list spec_quirks root fs run_inc ts st.
Proof. apply quirk_free_program. Qed.

(* non-vacuity: when, register, changed_when, set_vars, assert, failing commands are all inside the fragment *)
Example quirk_free_example :
  forallb quirk_free
    [ {| t_when := Some (EDefined ["a"]); t_loop := None; t_register := Some "r"; t_vars := []; t_ignore := false;
         t_changed_when := Some (EBool false); t_mod := MCommand "l" "out" 0 |};
      {| t_when := None; t_loop := None; t_register := None; t_vars := []; t_ignore := false;
         t_changed_when := None; t_mod := MSetVars [("a", [TVar ["r"; "output"]])] |};
      {| t_when := None; t_loop := None; t_register := None; t_vars := []; t_ignore := false;
         t_changed_when := None; t_mod := MAssert [EEq (EVar ["a"]) (EStr "out")] |} ] = true.
Proof. reflexivity. Qed.
