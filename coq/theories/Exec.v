(* C14: mirror of command.rs::exec_transferring_pid and of its place in the engine:
   the request handed to execvp (program, arguments, directory), and "no later task". *)
From Coq Require Import List String Ascii Bool NArith.
Import ListNotations.
Open Scope string_scope. Open Scope list_scope.

Definition is_ws (c : ascii) : bool :=
  match c with " "%char | "009"%char | "010"%char | "011"%char | "012"%char | "013"%char => true | _ => false end.

(* str::split_whitespace *)
Fixpoint split_ws_go (s : string) (cur : string) (acc : list string) : list string :=
  match s with
  | EmptyString => rev (match cur with EmptyString => acc | _ => cur :: acc end)
  | String c r =>
      if is_ws c then split_ws_go r "" (match cur with EmptyString => acc | _ => cur :: acc end)
      else split_ws_go r (cur ++ String c "") acc
  end.
Definition split_ws (s : string) : list string := split_ws_go s "" [].

Inductive required := RCmd (s : string) | RArgv (l : list string).
Record tparams := { tp_chdir : option string; tp_req : required }.
Record exec_req := { x_prog : string; x_args : list string; x_cwd : option string }.

(* Err (InvalidData) when there is no program; chdir happens first (also when exec later fails) *)
Definition exec_request (p : tparams) : option exec_req :=
  let args := match tp_req p with RCmd s => split_ws s | RArgv l => l end in
  match args with
  | [] => None
  | prog :: rest => Some {| x_prog := prog; x_args := rest; x_cwd := tp_chdir p |}
  end.

(* argv form: program and every argument exactly as given - blanks, quotes, empty strings are
   just characters *)
Theorem argv_exact chdir prog rest :
  exec_request {| tp_chdir := chdir; tp_req := RArgv (prog :: rest) |} =
  Some {| x_prog := prog; x_args := rest; x_cwd := chdir |}.
Proof. reflexivity. Qed.

(* cmd form: the words are non-empty and free of whitespace *)
Fixpoint no_ws (s : string) : bool := match s with EmptyString => true | String c r => andb (negb (is_ws c)) (no_ws r) end.

Lemma no_ws_app a b : no_ws a = true -> no_ws b = true -> no_ws (a ++ b)%string = true.
Proof. induction a as [|c a IH]; cbn; [auto|]. intros H Hb. apply andb_true_iff in H as [H1 H2]. now rewrite H1, IH. Qed.

Lemma split_ws_go_words s : forall cur acc,
  no_ws cur = true -> Forall (fun w => w <> "" /\ no_ws w = true) acc ->
  Forall (fun w => w <> "" /\ no_ws w = true) (split_ws_go s cur acc).
Proof.
  induction s as [|c r IH]; intros cur acc Hc Ha; cbn.
  - apply Forall_rev. destruct cur; [assumption|]. constructor; [split; [discriminate|assumption]|assumption].
  - destruct (is_ws c) eqn:E.
    + apply IH; [reflexivity|]. destruct cur; [assumption|]. constructor; [split; [discriminate|assumption]|assumption].
    + apply IH; [|assumption]. apply no_ws_app; [assumption|]. cbn. now rewrite E.
Qed.

Theorem cmd_words_clean s : Forall (fun w => w <> "" /\ no_ws w = true) (split_ws s).
Proof. apply split_ws_go_words; [reflexivity|constructor]. Qed.

(* the engine around it: a list of steps; a transfer step that succeeds replaces the process *)
Inductive step := SNormal (label : string) | STransfer (p : tparams) (exec_ok : bool).
Inductive end_state := Finished | Replaced (r : exec_req) | Failed.

Fixpoint run (ts : list step) : list string * end_state :=
  match ts with
  | [] => ([], Finished)
  | SNormal l :: r => let '(ls, e) := run r in (l :: ls, e)
  | STransfer p ok :: r =>
      match exec_request p with
      | Some req => if ok then ([], Replaced req) else ([], Failed)     (* exec returned: error, non-zero exit *)
      | None => ([], Failed)
      end
  end.

Theorem no_task_after_transfer pre p req post :
  exec_request p = Some req ->
  run (map SNormal pre ++ STransfer p true :: post) = (pre, Replaced req).
Proof.
  intro H. induction pre as [|l pre IH]; cbn [map app run].
  - now rewrite H.
  - now rewrite IH.
Qed.

Theorem exec_failure_is_reported pre p post :
  run (map SNormal pre ++ STransfer p false :: post) = (pre, Failed).
Proof.
  induction pre as [|l pre IH]; cbn [map app run].
  - destruct (exec_request p); reflexivity.
  - now rewrite IH.
Qed.

Example split_example : split_ws "  echo   a	b  " = ["echo"; "a"; "b"].
Proof. reflexivity. Qed.
