(* S-expression reader/printer used by every correspondence case.
   The same [run_case : string -> string] functions are evaluated (a) extracted to
   OCaml by the oracle binary and (b) inside Coq with vm_compute (cross-check), so the
   only glue outside Coq is "read a line, call the function, print the line". *)
From Coq Require Import List String Ascii Bool NArith DecimalString.
Import ListNotations.
Open Scope string_scope. Open Scope list_scope.

Inductive sexp := Atom (s : string) | SList (l : list sexp).

Definition is_space (c : ascii) : bool :=
  match c with " "%char | "009"%char | "010"%char | "013"%char => true | _ => false end.

(* stack-based reader: [stack] holds the (reversed) lists being built, innermost first;
   [cur] the (reversed) atom being read *)
Definition flush (cur : option string) (stack : list (list sexp)) : list (list sexp) :=
  match cur with
  | None => stack
  | Some a =>
      match stack with
      | top :: rest => (Atom a :: top) :: rest
      | [] => [[Atom a]]
      end
  end.

Fixpoint rev_string_acc (s acc : string) : string :=
  match s with EmptyString => acc | String c r => rev_string_acc r (String c acc) end.
Definition rev_string (s : string) := rev_string_acc s EmptyString.

Definition flush_atom (cur : option string) (stack : list (list sexp)) :=
  flush (option_map rev_string cur) stack.

Fixpoint read_go (s : string) (cur : option string) (stack : list (list sexp)) : option (list sexp) :=
  match s with
  | EmptyString =>
      match flush_atom cur stack with
      | [top] => Some (rev top)
      | _ => None
      end
  | String c r =>
      if is_space c then read_go r None (flush_atom cur stack)
      else if Ascii.eqb c "("%char then read_go r None ([] :: flush_atom cur stack)
      else if Ascii.eqb c ")"%char then
        match flush_atom cur stack with
        | top :: next :: rest => read_go r None ((SList (rev top) :: next) :: rest)
        | _ => None
        end
      else read_go r (Some (String c (match cur with Some a => a | None => EmptyString end))) stack
  end.

(* a line is a sequence of s-expressions *)
Definition read_all (s : string) : option (list sexp) := read_go s None [[]].
Definition read_one (s : string) : option sexp :=
  match read_all s with Some [x] => Some x | _ => None end.

(* ---- hex <-> bytes ---- *)
Definition hexval (c : ascii) : option N :=
  let n := N_of_ascii c in
  if andb (N.leb 48 n) (N.leb n 57) then Some (n - 48)%N
  else if andb (N.leb 97 n) (N.leb n 102) then Some (n - 87)%N
  else None.

Fixpoint unhex (s : string) : option string :=
  match s with
  | EmptyString => Some EmptyString
  | String a (String b r) =>
      match hexval a, hexval b, unhex r with
      | Some x, Some y, Some t => Some (String (ascii_of_N (16 * x + y)) t)
      | _, _, _ => None
      end
  | _ => None
  end.

Definition hexdigit (n : N) : ascii :=
  if N.ltb n 10 then ascii_of_N (48 + n) else ascii_of_N (87 + n).

Fixpoint hex (s : string) : string :=
  match s with
  | EmptyString => EmptyString
  | String c r => let n := N_of_ascii c in String (hexdigit (n / 16)) (String (hexdigit (n mod 16)) (hex r))
  end.

(* atoms carrying arbitrary bytes are written  x<hex>  (so the empty string is "x") *)
Definition bytes_atom (b : string) : sexp := Atom (String "x" (hex b)).
Definition atom_bytes (a : sexp) : option string :=
  match a with
  | Atom (String "x" h) => unhex h
  | _ => None
  end.

(* ---- decimal ---- *)
Definition N_to_string (n : N) : string := NilZero.string_of_uint (N.to_uint n).
Definition digitval (c : ascii) : option N :=
  let n := N_of_ascii c in if andb (N.leb 48 n) (N.leb n 57) then Some (n - 48)%N else None.
Fixpoint N_of_string_acc (s : string) (acc : N) : option N :=
  match s with
  | EmptyString => Some acc
  | String c r => match digitval c with Some d => N_of_string_acc r (10 * acc + d) | None => None end
  end.
Definition N_of_string (s : string) : option N :=
  match s with EmptyString => None | _ => N_of_string_acc s 0 end.
Definition atom_N (a : sexp) : option N :=
  match a with Atom s => N_of_string s | _ => None end.
Definition atom_bool (a : sexp) : option bool :=
  match a with Atom "t" => Some true | Atom "f" => Some false | _ => None end.

(* ---- printer ---- *)
Fixpoint concat_sep (sep : string) (l : list string) : string :=
  match l with
  | [] => ""
  | [x] => x
  | x :: r => x ++ sep ++ concat_sep sep r
  end.

Fixpoint show (e : sexp) : string :=
  match e with
  | Atom s => s
  | SList l => "(" ++ concat_sep " " (map show l) ++ ")"
  end.

Definition show_bool (b : bool) : sexp := Atom (if b then "t" else "f").
Definition show_N (n : N) : sexp := Atom (N_to_string n).

Fixpoint map_opt {A B} (f : A -> option B) (l : list A) : option (list B) :=
  match l with
  | [] => Some []
  | x :: r => match f x, map_opt f r with Some y, Some t => Some (y :: t) | _, _ => None end
  end.

(* sanity *)
Example read_ex : read_one "(a (b x6869) 12)" = Some (SList [Atom "a"; SList [Atom "b"; Atom "x6869"]; Atom "12"]).
Proof. reflexivity. Qed.
Example show_ex : show (SList [Atom "a"; SList [bytes_atom "hi"; show_N 12]]) = "(a (x6869 12))".
Proof. reflexivity. Qed.
Example unhex_ex : atom_bytes (bytes_atom "a b") = Some "a b". Proof. reflexivity. Qed.
