(* Theorems about the mirror of docopt::parse_help (C11: "the script's help text is printed"). *)
From Coq Require Import List String Ascii Bool Lia.
From RashV Require Import HelpDoc.
Import ListNotations.
Open Scope string_scope. Open Scope list_scope.

Definition nl : ascii := "010"%char.
Fixpoint no_nl (s : string) : bool :=
  match s with EmptyString => true | String c r => andb (negb (Ascii.eqb c nl)) (no_nl r) end.

Lemma sapp_assoc (a b c : string) : ((a ++ b) ++ c = a ++ (b ++ c))%string.
Proof. induction a as [|x a IH]; cbn; [reflexivity|now rewrite IH]. Qed.
Lemma sapp_nil_r (a : string) : (a ++ "" = a)%string.
Proof. induction a as [|x a IH]; cbn; [reflexivity|now rewrite IH]. Qed.

Lemma rev_str_app s acc : rev_str s acc = (rev_str s "" ++ acc)%string.
Proof.
  revert acc. induction s as [|c s IH]; intro acc; cbn; [reflexivity|].
  rewrite IH. rewrite (IH (String c "")). rewrite sapp_assoc. reflexivity.
Qed.

Lemma rev_str_involutive_aux s acc : rev_str (rev_str s acc) "" = (rev_str acc "" ++ s)%string.
Proof.
  revert acc. induction s as [|c s IH]; intro acc; cbn.
  - now rewrite sapp_nil_r.
  - rewrite IH. cbn. rewrite (rev_str_app acc (String c "")). rewrite sapp_assoc. reflexivity.
Qed.

(* splitting a newline-free line that is followed by more text *)
Lemma split_nl_line x : forall cur y,
  no_nl x = true -> split_nl (x ++ String nl y) cur = (rev_str cur "" ++ x)%string :: split_nl y "".
Proof.
  induction x as [|c x IH]; intros cur y H; cbn in *.
  - now rewrite sapp_nil_r.
  - apply andb_true_iff in H as [Hc Hx]. apply negb_true_iff in Hc. unfold nl in Hc. rewrite Hc.
    rewrite (IH (String c cur) y Hx). cbn. rewrite (rev_str_app cur (String c "")).
    rewrite sapp_assoc. reflexivity.
Qed.
Lemma split_nl_last x : forall cur, no_nl x = true -> split_nl x cur = [(rev_str cur "" ++ x)%string].
Proof.
  induction x as [|c x IH]; intros cur H; cbn in *.
  - now rewrite sapp_nil_r.
  - apply andb_true_iff in H as [Hc Hx]. apply negb_true_iff in Hc. unfold nl in Hc. rewrite Hc.
    rewrite (IH (String c cur) Hx). cbn. rewrite (rev_str_app cur (String c "")).
    rewrite sapp_assoc. reflexivity.
Qed.

(* a file written as lines joined by '\n' splits back into those lines *)
Theorem split_join ls : ls <> [] -> Forall (fun l => no_nl l = true) ls -> split_nl (join_nl ls) "" = ls.
Proof.
  induction ls as [|x r IH]; intros N F; [contradiction|].
  inversion F as [|? ? Hx Hr]; subst. destruct r as [|y r'].
  - cbn [join_nl]. now rewrite split_nl_last.
  - change (join_nl (x :: y :: r')) with (x ++ String nl (join_nl (y :: r')))%string.
    rewrite split_nl_line by assumption. cbn [rev_str String.append]. f_equal. apply IH; [discriminate|assumption].
Qed.

(* C11: nothing after the first line without '#' reaches the help text (or the usage parser): the
   tasks of the script - whatever they contain - never leak into it *)
Lemma doc_lines_cut a l b b' : after_hash l = None -> doc_lines (a ++ l :: b) = doc_lines (a ++ l :: b').
Proof.
  intro H. induction a as [|x a IH]; cbn [app doc_lines].
  - now rewrite H.
  - destruct (after_hash x); [now rewrite IH|reflexivity].
Qed.

Theorem help_ignores_everything_after_the_first_hashless_line first doc l rest rest' :
  Forall (fun x => no_nl x = true) (first :: doc ++ l :: rest) ->
  Forall (fun x => no_nl x = true) (first :: doc ++ l :: rest') ->
  after_hash l = None ->
  parse_help (join_nl (first :: doc ++ l :: rest)) = parse_help (join_nl (first :: doc ++ l :: rest')).
Proof.
  intros F F' H. unfold parse_help, help_lines.
  rewrite !split_join by (assumption || discriminate). cbn [tl].
  now rewrite (doc_lines_cut doc l rest rest' H).
Qed.

(* C11: a documentation block written the documented way - every line `# text` - is printed verbatim,
   followed by the two fixed note lines; the `#!` line above it is not part of it *)
Definition docline (t : string) : string := String "#" (String " " t).     (* "# " ++ t *)

Lemma doc_lines_block ts l rest :
  after_hash l = None ->
  doc_lines (map docline ts ++ l :: rest) = map (String " ") ts.
Proof.
  intro H. induction ts as [|t ts IH]; cbn [map app doc_lines].
  - now rewrite H.
  - cbn [docline after_hash]. now rewrite IH.
Qed.

Theorem documented_block_is_printed_verbatim first ts l rest :
  Forall (fun x => no_nl x = true) (first :: map docline ts ++ l :: rest) ->
  after_hash l = None ->
  parse_help (join_nl (first :: map docline ts ++ l :: rest)) = join_nl (ts ++ [note1; note2; ""]).
Proof.
  intros F H. unfold parse_help, help_lines.
  rewrite split_join by (assumption || discriminate). cbn [tl].
  rewrite (doc_lines_block ts l rest H). f_equal. f_equal. clear F.
  induction ts as [|t ts IH]; [reflexivity|]. cbn [map filter starts_bang negb drop_first_blank]. now rewrite IH.
Qed.

(* what the mirror (and the code) does with lines written in other ways: the first blank is removed
   wherever it is, a `#!` line inside the block is skipped, and a '#' further right on a task line
   continues the block *)
Example help_quirks :
  help_lines (join_nl ["#!/usr/bin/env rash"; "#"; "# Usage: prog <x>"; "#nospace after"; "#!bang"; "- debug: # trailing"; "    msg: x"; "# later"])
  = [""; "Usage: prog <x>"; "nospaceafter"; "trailing"].
Proof. vm_compute. reflexivity. Qed.
