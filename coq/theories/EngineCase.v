(* Case runner for the engine family (C01, C02, C11, C17, C15). *)
From Coq Require Import List String Ascii Bool NArith.
From RashV Require Import Sexp Engine.
Import ListNotations.
Open Scope string_scope. Open Scope list_scope.

Definition dec_strs (l : list sexp) : option (list string) := map_opt atom_bytes l.

Fixpoint dec_expr (e : sexp) : option expr :=
  match e with
  | SList (Atom "var" :: p) => option_map EVar (dec_strs p)
  | SList [Atom "str"; s] => option_map EStr (atom_bytes s)
  | SList [Atom "bool"; b] => option_map EBool (atom_bool b)
  | SList [Atom "eq"; a; b] => match dec_expr a, dec_expr b with Some a, Some b => Some (EEq a b) | _, _ => None end
  | SList [Atom "ne"; a; b] => match dec_expr a, dec_expr b with Some a, Some b => Some (ENe a b) | _, _ => None end
  | SList [Atom "not"; a] => option_map ENot (dec_expr a)
  | SList [Atom "and"; a; b] => match dec_expr a, dec_expr b with Some a, Some b => Some (EAnd a b) | _, _ => None end
  | SList [Atom "or"; a; b] => match dec_expr a, dec_expr b with Some a, Some b => Some (EOr a b) | _, _ => None end
  | SList (Atom "def" :: p) => option_map EDefined (dec_strs p)
  | SList (Atom "ndef" :: p) => option_map ENotDefined (dec_strs p)
  | _ => None
  end.

Definition dec_part (e : sexp) : option tpart :=
  match e with
  | SList [Atom "lit"; s] => option_map TLit (atom_bytes s)
  | SList (Atom "v" :: p) => option_map TVar (dec_strs p)
  | SList [Atom "e"; x] => option_map TExp (dec_expr x)
  | _ => None
  end.
Definition dec_tpl (e : sexp) : option template :=
  match e with SList (Atom "tpl" :: ps) => map_opt dec_part ps | _ => None end.

Definition dec_kv (e : sexp) : option (string * template) :=
  match e with
  | SList [k; t] => match atom_bytes k, dec_tpl t with Some k, Some t => Some (k, t) | _, _ => None end
  | _ => None
  end.

Definition dec_opt {A} (f : sexp -> option A) (e : sexp) : option (option A) :=
  match e with Atom "none" => Some None | x => option_map Some (f x) end.

(* typed literal of a set_vars value: (list N) | (map N) | none | (num N) | (bool b) | (str xS) *)
Definition dec_lit (e : sexp) : option val :=
  match e with
  | SList [Atom "list"; n] => option_map (fun n => VList (N.to_nat n)) (atom_N n)
  | SList [Atom "map"; n] => option_map (fun n => VMap (repeat ("k", VStr "v") (N.to_nat n))) (atom_N n)
  | Atom "none" => Some VNone
  | SList [Atom "num"; n] => option_map VNum (atom_N n)
  | SList [Atom "bool"; b] => option_map VBool (atom_bool b)
  | SList [Atom "str"; s] => option_map VStr (atom_bytes s)
  | _ => None
  end.

Definition dec_mod (e : sexp) : option modcall :=
  match e with
  | SList [Atom "setlit"; k; v] => match atom_bytes k, dec_lit v with Some k, Some v => Some (MSetLit k v) | _, _ => None end
  | SList [Atom "debug"; t] => option_map MDebugMsg (dec_tpl t)
  | SList (Atom "debugvar" :: p) => option_map MDebugVar (dec_strs p)
  | SList (Atom "setvars" :: kvs) => option_map MSetVars (map_opt dec_kv kvs)
  | SList (Atom "assert" :: es) => option_map MAssert (map_opt dec_expr es)
  | SList [Atom "command"; l; o; rc] =>
      match atom_bytes l, atom_bytes o, atom_N rc with
      | Some l, Some o, Some rc => Some (MCommand l o rc) | _, _, _ => None end
  | SList [Atom "copy"; l] => option_map MCopy (atom_bytes l)
  | SList [Atom "include"; f] => option_map MInclude (atom_bytes f)
  | Atom "badparam" => Some MBadParam
  | _ => None
  end.

Definition dec_task (e : sexp) : option task :=
  match e with
  | SList [Atom "task"; w; lp; reg; SList (Atom "vars" :: vs); ign; chw; m] =>
      match dec_opt dec_expr w,
            dec_opt (fun x => match x with SList (Atom "items" :: its) => map_opt dec_tpl its | _ => None end) lp,
            dec_opt atom_bytes reg, map_opt dec_kv vs, atom_bool ign, dec_opt dec_expr chw, dec_mod m with
      | Some w, Some lp, Some reg, Some vs, Some ign, Some chw, Some m =>
          Some {| t_when := w; t_loop := lp; t_register := reg; t_vars := vs; t_ignore := ign;
                  t_changed_when := chw; t_mod := m |}
      | _, _, _, _, _, _, _ => None
      end
  | _ => None
  end.

Definition dec_file (e : sexp) : option (string * option (list task)) :=
  match e with
  | SList [n; Atom "invalid"] => option_map (fun n => (n, None)) (atom_bytes n)
  | SList [n; SList (Atom "tasks" :: ts)] =>
      match atom_bytes n, map_opt dec_task ts with
      | Some n, Some ts => Some (n, Some ts) | _, _ => None end
  | _ => None
  end.

Definition dec_var (e : sexp) : option (string * val) :=
  match e with
  | SList [k; v] => match atom_bytes k, atom_bytes v with Some k, Some v => Some (k, VStr v) | _, _ => None end
  | _ => None
  end.

Definition enc_event (e : event) : sexp :=
  match e with
  | EvOut s => SList [Atom "out"; bytes_atom s]
  | EvAny => Atom "any"
  | EvEffect l => SList [Atom "eff"; bytes_atom l]
  end.

(* (engine (q K5 K2 K4 K3) xROOT (files FILE...) xSCRIPT (vars (xK xV)...) (docopt accept|reject|(help xTEXT)) FUEL) *)
Definition run_engine (e : sexp) : option sexp :=
  match e with
  | SList [Atom "engine"; SList [Atom "q"; q1; q2; q3; q4]; root; SList (Atom "files" :: fls); script; SList (Atom "vars" :: vs); d; fuel] =>
      match atom_bytes root, map_opt dec_file fls, atom_bytes script, map_opt dec_var vs, atom_N fuel,
            map_opt atom_bool [q1; q2; q3; q4] with
      | Some root, Some fls, Some script, Some vs, Some fuel, Some [b1; b2; b3; b4] =>
          let q := {| q_render_not_ignorable := b1; q_item_leaks := b2; q_include_discards := b3; q_no_task_vars := b4 |} in
          let dres := match d with
                      | Atom "accept" => Some (DAccept [])
                      | Atom "reject" => Some DReject
                      | SList [Atom "help"; t] => option_map DHelp (atom_bytes t)
                      | _ => None
                      end in
          match dres with
          | None => None
          | Some dres =>
              let r := main q root fls (N.to_nat fuel) script dres vs in
              Some (SList [SList (Atom "events" :: map enc_event (r_events r)); show_bool (r_exit_ok r)])
          end
      | _, _, _, _, _, _ => None
      end
  | _ => None
  end.
