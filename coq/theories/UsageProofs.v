(* The reference matcher is sound and complete for the documented relation [Matches];
   every argument is accounted for exactly once; language laws; rearrangement check. *)
From Coq Require Import List String Ascii Bool Arith Lia Permutation.
From RashV Require Import Usage.
Import ListNotations.
Open Scope list_scope.

Arguments Nat.ltb : simpl never.

Section ind.
  Variable P : upat -> Prop.
  Hypothesis HC : forall c, P (Cmd c).
  Hypothesis HP : forall x, P (Pos x).
  Hypothesis HO : forall o, P (Opt o).
  Hypothesis HA : P AnyOptions.
  Hypothesis HS : forall ps, Forall P ps -> P (Seq ps).
  Hypothesis HOp : forall p, P p -> P (Optional p).
  Hypothesis HAl : forall ps, Forall P ps -> P (Alt ps).
  Hypothesis HR : forall p, P p -> P (Repeat p).
  Fixpoint upat_ind' (p : upat) : P p :=
    match p with
    | Cmd c => HC c | Pos x => HP x | Opt o => HO o | AnyOptions => HA
    | Seq ps => HS ps ((fix f (l : list upat) : Forall P l :=
                          match l with [] => Forall_nil _ | q :: qs => Forall_cons _ (upat_ind' q) (f qs) end) ps)
    | Optional q => HOp q (upat_ind' q)
    | Alt ps => HAl ps ((fix f (l : list upat) : Forall P l :=
                           match l with [] => Forall_nil _ | q :: qs => Forall_cons _ (upat_ind' q) (f qs) end) ps)
    | Repeat q => HR q (upat_ind' q)
    end.
End ind.

(* ------------------------------------------------------------------ soundness *)
Definition Sound (p : upat) := forall ws b r, In (b, r) (mtch p ws) -> exists w, ws = w ++ r /\ Matches p w b.

Lemma opt_prefixes_sound ws b r :
  In (b, r) (opt_prefixes ws) -> exists w, ws = w ++ r /\ forallb is_opt_tok w = true /\ b = map bind_of_opt w.
Proof.
  revert b r. induction ws as [|t ws IH]; intros b r H; cbn in H.
  - destruct H as [H|[]]. inversion H; subst. exists []. auto.
  - destruct H as [H|H].
    + inversion H; subst. exists []. auto.
    + destruct t as [w|o v]; [destruct H|].
      apply in_map_iff in H as [[b' r'] [E H]]. inversion E; subst.
      apply IH in H as (w & -> & Hw & ->). exists (TOpt o v :: w). auto.
Qed.

Lemma sound_all : forall p, Sound p.
Proof.
  induction p using upat_ind'; unfold Sound in *.
  - intros [|[w|o v] ws] b r H; cbn in H; try tauto. destruct (String.eqb_spec w c); cbn in H; [|tauto].
    destruct H as [H|[]]. inversion H; subst. exists [TWord c]. split; [reflexivity|constructor].
  - intros [|[w|o v] ws] b r H; cbn in H; try tauto.
    destruct H as [H|[]]. inversion H; subst. exists [TWord w]. split; [reflexivity|constructor].
  - intros [|[w|o' v] ws] b r H; cbn in H; try tauto. destruct (String.eqb_spec o' o); cbn in H; [|tauto].
    destruct H as [H|[]]. inversion H; subst. exists [TOpt o v]. split; [reflexivity|constructor].
  - intros ws b r H. cbn in H. apply opt_prefixes_sound in H as (w & -> & Hw & ->).
    exists w. split; [reflexivity|now constructor].
  - intros ws b r. rewrite mtch_seq. revert ws b r.
    induction H as [|q qs Hq Hqs IH]; intros ws b r Hin; cbn in Hin.
    + destruct Hin as [Hin|[]]. inversion Hin; subst. exists []. split; [reflexivity|constructor].
    + apply in_flat_map in Hin. destruct Hin as [[b1 r1] [H1 H2]].
      apply in_map_iff in H2. destruct H2 as [[b2 r2] [Heq H2]]. inversion Heq; subst.
      apply Hq in H1. destruct H1 as [w1 [-> M1]].
      apply IH in H2. destruct H2 as [w2 [-> M2]].
      exists (w1 ++ w2). split; [now rewrite app_assoc|]. now constructor.
  - intros ws b r Hin. cbn in Hin. destruct Hin as [Hin|Hin].
    + inversion Hin; subst. exists []. split; [reflexivity|constructor].
    + apply IHp in Hin. destruct Hin as [w [-> M]]. exists w. split; [reflexivity|now constructor].
  - intros ws b r. rewrite mtch_alt.
    assert (G : forall l, Forall (fun p => Sound p) l -> incl l ps ->
              In (b, r) (alt_go mtch ws l) -> exists w, ws = w ++ r /\ Matches (Alt ps) w b).
    { induction l as [|q qs IHl]; intros HF Hincl Hl; cbn in Hl; [tauto|].
      apply in_app_or in Hl. inversion HF; subst. destruct Hl as [Hl|Hl].
      - apply H2 in Hl. destruct Hl as [w [-> M]]. exists w. split; [reflexivity|].
        apply MAlt with q; [apply Hincl; now left|exact M].
      - apply IHl; auto. intros x Hx. apply Hincl. now right. }
    apply (G ps); auto. apply incl_refl.
  - intros ws b r. rewrite mtch_rep. generalize (S (List.length ws)) as n. intros n; revert ws b r.
    induction n as [|n IHn]; intros ws b r Hin; cbn in Hin; [tauto|].
    apply in_flat_map in Hin. destruct Hin as [[b1 r1] [H1 H2]].
    apply IHp in H1. destruct H1 as [w1 [-> M1]].
    destruct H2 as [H2|H2].
    + inversion H2; subst. exists w1. split; [reflexivity|now constructor].
    + destruct (Nat.ltb_spec (List.length r1) (List.length (w1 ++ r1))) as [Hlt|Hge]; [|cbn in H2; tauto].
      apply in_map_iff in H2. destruct H2 as [[b2 r2] [Heq H2]]. inversion Heq; subst.
      apply IHn in H2. destruct H2 as [w2 [-> M2]].
      exists (w1 ++ w2). split; [now rewrite app_assoc|].
      apply MRepMore; auto. intro; subst. cbn in Hlt. lia.
Qed.

(* ------------------------------------------------------------------ completeness *)
Lemma opt_prefixes_complete w r :
  forallb is_opt_tok w = true -> In (map bind_of_opt w, r) (opt_prefixes (w ++ r)).
Proof.
  induction w as [|t w IH]; intro H; cbn.
  - destruct r; cbn; auto.
  - cbn in H. apply andb_true_iff in H as [Ht Hw]. destruct t as [x|o v]; [discriminate|].
    right. apply in_map_iff. exists (map bind_of_opt w, r). split; [reflexivity|]. now apply IH.
Qed.

Lemma rep_go_mono mt n : forall m ws x, n <= m -> In x (rep_go mt n ws) -> In x (rep_go mt m ws).
Proof.
  induction n as [|n IH]; intros m ws x Hle Hin; [destruct Hin|].
  destruct m as [|m]; [lia|]. cbn in *.
  apply in_flat_map in Hin as [[b1 r1] [H1 H2]]. apply in_flat_map. exists (b1, r1). split; [assumption|].
  destruct H2 as [H2|H2]; [now left|right].
  destruct (Nat.ltb (List.length r1) (List.length ws)); [|destruct H2].
  apply in_map_iff in H2 as [[b2 r2] [E H2]]. apply in_map_iff. exists (b2, r2). split; [assumption|].
  apply IH; [lia|assumption].
Qed.

Lemma complete_all p w b : Matches p w b -> forall r, In (b, r) (mtch p (w ++ r)).
Proof.
  induction 1; intro r.
  - cbn. rewrite String.eqb_refl. now left.
  - cbn. now left.
  - cbn. rewrite String.eqb_refl. now left.
  - cbn [mtch]. now apply opt_prefixes_complete.
  - cbn. now left.
  - rewrite mtch_seq. cbn. apply in_flat_map. exists (b1, w2 ++ r). split.
    + rewrite <- app_assoc. apply IHMatches1.
    + apply in_map_iff. exists (b2, r). split; [reflexivity|]. rewrite <- mtch_seq. apply IHMatches2.
  - cbn. now left.
  - cbn. right. apply IHMatches.
  - rewrite mtch_alt. revert H. clear -IHMatches. induction ps as [|q qs IH]; intro Hin; [destruct Hin|].
    cbn. apply in_or_app. destruct Hin as [->|Hin]; [left; apply IHMatches|right; now apply IH].
  - rewrite mtch_rep. cbn. apply in_flat_map. exists (b, r). split; [apply IHMatches|now left].
  - rewrite mtch_rep. cbn [rep_go]. apply in_flat_map. exists (b1, w2 ++ r). split.
    + rewrite <- app_assoc. apply IHMatches1.
    + right. rewrite <- app_assoc.
      assert (Hlt : List.length (w2 ++ r) < List.length (w1 ++ w2 ++ r)).
      { rewrite (app_length w1). destruct w1; [congruence|cbn; lia]. }
      apply Nat.ltb_lt in Hlt. rewrite Hlt.
      apply in_map_iff. exists (b2, r). split; [reflexivity|].
      specialize (IHMatches2 r). rewrite mtch_rep in IHMatches2.
      eapply rep_go_mono; [|exact IHMatches2]. apply Nat.ltb_lt in Hlt. lia.
Qed.

Theorem accepts_iff p ws b : In b (accepts p ws) <-> Matches p ws b.
Proof.
  unfold accepts. rewrite in_map_iff. split.
  - intros [[b' r] [E H]]. cbn in E. subst b'. apply filter_In in H as [H Hr].
    destruct r; [|discriminate]. apply sound_all in H as (w & -> & M). now rewrite app_nil_r.
  - intro M. exists (b, []). split; [reflexivity|]. apply filter_In. split; [|reflexivity].
    pose proof (complete_all _ _ _ M []) as H. now rewrite app_nil_r in H.
Qed.

(* ------------------------------------------------------------------ accounting *)
Theorem Matches_accounts p ws bs : Matches p ws bs -> map tok_of_bind bs = ws.
Proof.
  induction 1; cbn; try reflexivity; rewrite ?map_app; try congruence.
  induction ts as [|t ts IH]; [reflexivity|]. cbn in *. apply andb_true_iff in H as [Ht Hts].
  destruct t; [discriminate|]. cbn. now rewrite IH.
Qed.

Corollary Matches_nil_binds p bs : Matches p [] bs -> bs = [].
Proof. intro M. apply Matches_accounts in M. now destruct bs. Qed.

(* ------------------------------------------------------------------ language laws *)
Theorem Repeat_unroll p w b :
  Matches (Repeat p) w b <-> Matches (Seq [p; Optional (Repeat p)]) w b.
Proof.
  split; intro M.
  - inversion M; subst.
    + replace w with (w ++ ([] ++ [])) by (now rewrite !app_nil_r).
      replace b with (b ++ ([] ++ [])) by (now rewrite !app_nil_r).
      apply MSeqCons; [assumption|]. apply MSeqCons; constructor.
    + apply MSeqCons; [assumption|].
      replace w2 with (w2 ++ []) by apply app_nil_r. replace b2 with (b2 ++ []) by apply app_nil_r.
      apply MSeqCons; [now apply MOptSome|constructor].
  - inversion M as [| | | | |q qs w1 w2 b1 b2 M1 M2| | | | |]; subst.
    inversion M2 as [| | | | |q' qs' w3 w4 b3 b4 M3 M4| | | | |]; subst.
    inversion M4; subst. rewrite !app_nil_r.
    inversion M3; subst.
    + rewrite !app_nil_r. now apply MRepOne.
    + destruct w1 as [|t w1].
      * apply Matches_nil_binds in M1. subst. assumption.
      * apply MRepMore; [discriminate|assumption|assumption].
Qed.

Lemma rep_to_repopt p w b : Matches (Repeat p) w b -> Matches (Repeat (Optional p)) w b.
Proof.
  intro M. remember (Repeat p) as q eqn:Eq. induction M; inversion Eq; subst.
  - apply MRepOne. now apply MOptSome.
  - apply MRepMore; [assumption|now apply MOptSome|]. now apply IHM2.
Qed.

(* "[<file>...]" and "[<file>]..." are the same language (zero or more) *)
Theorem zero_or_more_two_ways p w b :
  Matches (Optional (Repeat p)) w b <-> Matches (Repeat (Optional p)) w b.
Proof.
  split; intro M.
  - inversion M; subst; [apply MRepOne; constructor|]. now apply rep_to_repopt.
  - remember (Repeat (Optional p)) as q eqn:Eq. induction M; inversion Eq; subst.
    + inversion M; subst; [constructor|]. apply MOptSome. now apply MRepOne.
    + inversion M1; subst; [congruence|].
      specialize (IHM2 eq_refl). inversion IHM2; subst.
      * rewrite !app_nil_r. apply MOptSome. now apply MRepOne.
      * apply MOptSome. now apply MRepMore.
Qed.

(* several usage lines are one alternation *)
Theorem usage_lines_is_alt ls w b :
  Matches (usage_lines ls) w b <-> exists l, In l ls /\ Matches (desugar l) w b.
Proof.
  unfold usage_lines. split.
  - intro M. inversion M; subst.
    match goal with H : In _ (map desugar ls) |- _ => apply in_map_iff in H as [l [<- Hl]] end. eauto.
  - intros [l [Hl M]]. eapply MAlt; [|exact M]. now apply in_map.
Qed.

(* ------------------------------------------------------------------ rearrangements *)
Lemma tok_eqb_eq a b : tok_eqb a b = true -> a = b.
Proof.
  destruct a as [x|o v], b as [y|o' v']; cbn; try discriminate.
  - intro H. apply String.eqb_eq in H. now subst.
  - intro H. apply andb_true_iff in H as [H1 H2]. apply String.eqb_eq in H1. subst.
    destruct v, v'; try discriminate; [apply String.eqb_eq in H2; now subst|reflexivity].
Qed.

Lemma remove_tok_perm x l l' : remove_tok x l = Some l' -> Permutation l (x :: l').
Proof.
  revert l'. induction l as [|y r IH]; intros l' H; cbn in H; [discriminate|].
  destruct (tok_eqb x y) eqn:E.
  - apply tok_eqb_eq in E. inversion H; subst. reflexivity.
  - destruct (remove_tok x r) as [r'|]; [|discriminate]. inversion H; subst.
    rewrite (IH r' eq_refl). apply perm_swap.
Qed.

Lemma is_perm_sound a : forall b, is_perm a b = true -> Permutation a b.
Proof.
  induction a as [|x r IH]; intros b H; cbn in H.
  - destruct b; [constructor|discriminate].
  - destruct (remove_tok x b) as [b'|] eqn:E; [|discriminate].
    apply remove_tok_perm in E. rewrite E. constructor. now apply IH.
Qed.

Lemma list_eqb_eq a : forall b, list_eqb a b = true -> a = b.
Proof.
  induction a as [|x r IH]; intros [|y s] H; cbn in H; try discriminate; [reflexivity|].
  apply andb_true_iff in H as [H1 H2]. apply String.eqb_eq in H1. subst. f_equal. now apply IH.
Qed.

Theorem rearr_b_sound a b : rearr_b a b = true -> Permutation a b /\ words_of a = words_of b.
Proof.
  unfold rearr_b. intro H. apply andb_true_iff in H as [H1 H2].
  split; [now apply is_perm_sound|now apply list_eqb_eq].
Qed.

(* non-vacuity *)
Example matches_example :
  Matches (Seq [Repeat (Seq [Pos "x"; Pos "y"]); Optional (Cmd "a")])
          [TWord "1"; TWord "2"; TWord "3"; TWord "4"; TWord "a"]
          [BPos "x" "1"; BPos "y" "2"; BPos "x" "3"; BPos "y" "4"; BCmd "a"].
Proof. apply accepts_iff. vm_compute. auto. Qed.
