(* File-system world for the state modules (copy, file, template).
   A world maps model paths (component lists below the sandbox root) to nodes; mutating
   primitives update the world AND append to an action log (every logged action bumps
   mtime/ctime of a managed path on the real system; ATmpAnon is the anonymous temporary
   file, outside the managed tree). *)
From Coq Require Import List String Ascii Bool NArith.
Import ListNotations.
Open Scope string_scope. Open Scope list_scope. Open Scope N_scope.

Definition path := list string.

Fixpoint path_eqb (p q : path) : bool :=
  match p, q with
  | [], [] => true
  | a :: p', b :: q' => andb (String.eqb a b) (path_eqb p' q')
  | _, _ => false
  end.

Fixpoint is_prefix (p q : path) : bool :=
  match p, q with
  | [], _ => true
  | a :: p', b :: q' => andb (String.eqb a b) (is_prefix p' q')
  | _, _ => false
  end.

Inductive node :=
| NFile (content : string) (mode : N)
| NDir (mode : N)
| NLink (target : path).

Definition world := path -> option node.

Definition upd (w : world) (p : path) (n : option node) : world :=
  fun q => if path_eqb p q then n else w q.

Definition rm_tree (w : world) (p : path) : world :=
  fun q => if is_prefix p q then None else w q.

Inductive action :=
| ACreate (p : path) | AWrite (p : path) | AChmod (p : path) (m : N)
| AUnlink (p : path) | ARmTree (p : path) | AMkdir (p : path) | ATmpAnon.

Definition managed (a : action) : bool := match a with ATmpAnon => false | _ => true end.

Record st := { sw : world; slog : list action }.
Definition log1 (s : st) (a : action) (w' : world) : st := {| sw := w'; slog := slog s ++ [a] |}.

(* environment facts the kernel decides; parameters of every theorem *)
Record env := { umask : N; tmpmode : N }.

Definition perm_mask : N := 4095.            (* 0o7777 *)
Definition write_bit : N := 128.             (* 0o200 *)
Definition any_write : N := 146.             (* 0o222, Permissions::readonly() *)
Definition ifreg : N := 32768.               (* 0o100000 *)
Definition ifdir : N := 16384.               (* 0o040000 *)
Definition mask_perm (m : N) : N := N.land m perm_mask.
Definition file_create_mode (e : env) : N := N.land 438 (N.lxor 4095 (N.land (umask e) 4095)).  (* 0o666 & !umask *)
Definition dir_create_mode (e : env) : N := N.land 511 (N.lxor 4095 (N.land (umask e) 4095)).   (* 0o777 & !umask *)

(* follow symlinks at the final component *)
Fixpoint resolve (fuel : nat) (w : world) (p : path) : path :=
  match fuel with
  | O => p
  | S f => match w p with Some (NLink t) => resolve f w t | _ => p end
  end.
Definition res (w : world) (p : path) : path := resolve 8 w p.

Definition parent (p : path) : path := removelast p.

(* stat(2): follows links; None for absent / dangling / loop *)
Definition stat (w : world) (p : path) : option node :=
  match w (res w p) with
  | Some (NLink _) => None
  | x => x
  end.
Definition lstat (w : world) (p : path) : option node := w p.

Definition is_dir (w : world) (p : path) : bool :=
  match stat w p with Some (NDir _) => true | _ => false end.

(* the directory that would hold a new entry named by [p] must exist *)
Definition parent_ok (w : world) (p : path) : bool :=
  match p with [] => false | _ => is_dir w (parent p) end.

Definition st_mode (n : node) : N :=
  match n with
  | NFile _ m => ifreg + mask_perm m
  | NDir m => ifdir + mask_perm m
  | NLink _ => 40960 + 511
  end.

Definition chmod_node (n : node) (m : N) : node :=
  match n with
  | NFile c _ => NFile c (mask_perm m)
  | NDir _ => NDir (mask_perm m)
  | NLink t => NLink t
  end.

(* chmod(path) follows links; the caller has already checked existence *)
Definition sys_chmod (s : st) (p : path) (m : N) : option st :=
  let q := res (sw s) p in
  match sw s q with
  | Some (NLink _) | None => None
  | Some n => Some (log1 s (AChmod q (mask_perm m)) (upd (sw s) q (Some (chmod_node n m))))
  end.

(* open(O_CREAT|O_WRONLY[|O_TRUNC]) on a path that does not resolve to a node *)
Definition sys_create (e : env) (s : st) (p : path) : option st :=
  let q := res (sw s) p in
  match sw s q with
  | None => if parent_ok (sw s) q
            then Some (log1 s (ACreate q) (upd (sw s) q (Some (NFile "" (file_create_mode e)))))
            else None
  | Some _ => None
  end.

Definition sys_write (s : st) (p : path) (c : string) : option st :=
  let q := res (sw s) p in
  match sw s q with
  | Some (NFile _ m) => Some (log1 s (AWrite q) (upd (sw s) q (Some (NFile c m))))
  | _ => None
  end.

(* unlink(2): does not follow *)
Definition sys_unlink (s : st) (p : path) : option st :=
  match sw s p with
  | Some (NFile _ _) | Some (NLink _) => Some (log1 s (AUnlink p) (upd (sw s) p None))
  | _ => None
  end.

(* std::fs::remove_dir_all: a symlink is unlinked, a directory removed with its content *)
Definition sys_rmtree (s : st) (p : path) : option st :=
  match sw s p with
  | Some (NLink _) => Some (log1 s (AUnlink p) (upd (sw s) p None))
  | Some (NDir _) => Some (log1 s (ARmTree p) (rm_tree (sw s) p))
  | _ => None
  end.

(* all non-empty prefixes of p, shortest first *)
Fixpoint prefixes_from (acc p : path) : list path :=
  match p with
  | [] => []
  | a :: r => (acc ++ [a]) :: prefixes_from (acc ++ [a]) r
  end.
Definition prefixes (p : path) : list path := prefixes_from [] p.

(* std::fs::create_dir_all *)
Fixpoint mkdir_chain (e : env) (s : st) (ps : list path) : option st :=
  match ps with
  | [] => Some s
  | q :: r =>
      if is_dir (sw s) q then mkdir_chain e s r
      else match sw s q with
           | None => if parent_ok (sw s) q
                     then mkdir_chain e (log1 s (AMkdir q) (upd (sw s) q (Some (NDir (dir_create_mode e))))) r
                     else None
           | Some _ => None
           end
  end.
Definition sys_mkdir_all (e : env) (s : st) (p : path) : option st := mkdir_chain e s (prefixes p).

(* ---- observation of a world on a finite list of paths (what a snapshot records) ---- *)
Definition obs (w : world) (ps : list path) : list (option node) := map w ps.

Definition of_list (l : list (path * node)) : world :=
  fun q => match find (fun '(p, _) => path_eqb p q) l with Some (_, n) => Some n | None => None end.
