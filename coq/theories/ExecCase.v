(* Case runner for C14: str::split_whitespace as modelled. *)
From Coq Require Import List String Bool NArith.
From RashV Require Import Sexp Exec Become.
Import ListNotations.
Open Scope string_scope.

(* (splitws xHEX) -> (xWORD ...) *)
Definition run_splitws (e : sexp) : option sexp :=
  match e with
  | SList [Atom "splitws"; s] => option_map (fun s => SList (map bytes_atom (split_ws s))) (atom_bytes s)
  | _ => None
  end.

(* (become (passwd (xNAME UID GID)...) (cur UID GID) (global GBECOME xGUSER) (task TBECOME xTUSER|none ISCOMMAND TRANSFER))
   -> (PATH (module UID GID | none) (main UID GID)) *)
Definition dec_user (e : sexp) : option user :=
  match e with
  | SList [n; u; g] => match atom_bytes n, atom_N u, atom_N g with
                       | Some n, Some u, Some g => Some {| u_name := n; u_uid := u; u_gid := g |}
                       | _, _, _ => None end
  | _ => None
  end.
Definition show_creds (c : creds) : list sexp := [show_N (c_uid c); show_N (c_gid c)].
Definition dec_ouser (e : sexp) : option (option string) :=
  match e with Atom "none" => Some None | x => option_map Some (atom_bytes x) end.
Definition run_become (e : sexp) : option sexp :=
  match e with
  | SList [Atom "become"; SList (Atom "passwd" :: us); SList [Atom "cur"; cu; cg]; SList [Atom "global"; gb; gu];
           SList [Atom "task"; b; u; ic; tp]] =>
      match map_opt dec_user us, atom_N cu, atom_N cg, atom_bool gb, atom_bytes gu, atom_bool b, dec_ouser u, atom_bool ic, atom_bool tp with
      | Some db, Some cu, Some cg, Some gb, Some gu, Some b, Some u, Some ic, Some tp =>
          let cur := {| c_uid := cu; c_gid := cg |} in
          let g := {| g_become := gb; g_user := gu |} in
          let p := {| b_become := effective_become g b; b_user := effective_user g u; b_is_command := ic; b_transfer_pid := tp |} in
          Some (SList [Atom (match path_of db cur p with
                             | InProcess => "in-process" | ForkedChild => "forked-child"
                             | DropThenExec => "drop-then-exec" | UserNotFound => "user-not-found" end);
                       match module_creds db cur p with
                       | Some c => SList (Atom "module" :: show_creds c) | None => Atom "none" end;
                       SList (Atom "main" :: show_creds (main_creds_after db cur p))])
      | _, _, _, _, _, _, _, _, _ => None
      end
  | _ => None
  end.
