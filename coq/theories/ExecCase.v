(* Case runner for C14: str::split_whitespace as modelled. *)
From Coq Require Import List String Bool.
From RashV Require Import Sexp Exec.
Import ListNotations.
Open Scope string_scope.

(* (splitws xHEX) -> (xWORD ...) *)
Definition run_splitws (e : sexp) : option sexp :=
  match e with
  | SList [Atom "splitws"; s] => option_map (fun s => SList (map bytes_atom (split_ws s))) (atom_bytes s)
  | _ => None
  end.
