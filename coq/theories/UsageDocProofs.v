(* Theorems about the mirror of docopt::parse_usage. *)
From Coq Require Import List String Ascii Bool NArith Lia.
From RashV Require Import HelpDoc HelpDocProofs UsageDoc.
Import ListNotations.
Open Scope string_scope. Open Scope list_scope.

(* a usage pattern as written in a documentation block: no newline inside, does not start with white space *)
Definition pattern_ok (p : string) : Prop :=
  no_nl p = true /\ match p with String c _ => is_space c = false | EmptyString => False end.

Definition indented (p : string) : string := String " " (String " " p).
Fixpoint block (pats : list string) : string :=
  match pats with [] => EmptyString | p :: r => (indented p ++ String nlc (block r))%string end.

Lemma section_body_line p rest : no_nl p = true ->
  section_body (p ++ String nlc rest) false = (p ++ String nlc (section_body rest true))%string.
Proof.
  induction p as [|c p IH]; intro H.
  - reflexivity.
  - cbn [no_nl] in H. apply andb_true_iff in H as [Hc Hp]. apply negb_true_iff in Hc.
    change ((String c p ++ String nlc rest)%string) with (String c (p ++ String nlc rest)%string).
    cbn [section_body andb]. change nl with nlc in Hc. rewrite Hc. cbn [String.append]. f_equal. now apply IH.
Qed.

Lemma section_body_block pats tail : Forall pattern_ok pats ->
  section_body (block pats ++ String nlc tail) true = (block pats ++ String nlc EmptyString)%string.
Proof.
  induction pats as [|p r IH]; intro F.
  - reflexivity.
  - inversion F as [|? ? [Hn _] Hr]; subst.
    change (block (p :: r)) with (String " " (String " " (p ++ String nlc (block r))))%string.
    change ((String " " (String " " (p ++ String nlc (block r))) ++ String nlc tail)%string)
      with (String " " (String " " ((p ++ String nlc (block r)) ++ String nlc tail)))%string.
    rewrite sapp_assoc.
    change ((String nlc (block r) ++ String nlc tail)%string) with (String nlc (block r ++ String nlc tail))%string.
    change (section_body (String " " (String " " (p ++ String nlc (block r ++ String nlc tail)))) true)
      with (String " " (String " " (section_body (p ++ String nlc (block r ++ String nlc tail)) false))).
    rewrite (section_body_line p _ Hn). rewrite (IH Hr).
    change ((String " " (String " " (p ++ String nlc (block r))) ++ String nlc "")%string)
      with (String " " (String " " ((p ++ String nlc (block r)) ++ String nlc "")))%string.
    rewrite sapp_assoc. reflexivity.
Qed.

Lemma drop_spaces_pattern p : pattern_ok p -> drop_spaces p = p.
Proof. intros [_ H]. destruct p as [|c p]; [contradiction|]. cbn. now rewrite H. Qed.

Lemma split_block pats : Forall pattern_ok pats ->
  split_nl (block pats ++ String nlc EmptyString) "" = map indented pats ++ [""; ""].
Proof.
  induction pats as [|p r IH]; intro F.
  - reflexivity.
  - inversion F as [|? ? [Hn Hs] Hr]; subst.
    change ((block (p :: r) ++ String nlc "")%string) with ((indented p ++ String nlc (block r)) ++ String nlc "")%string.
    rewrite sapp_assoc. change ((String nlc (block r) ++ String nlc "")%string) with (String nlc (block r ++ String nlc ""))%string.
    rewrite split_nl_line.
    + cbn [rev_str String.append map app]. f_equal. now apply IH.
    + unfold indented. cbn [no_nl]. exact Hn.
Qed.

(* C08 front end: a usage section written the documented way - `Usage:` alone on its line, the patterns
   indented below it, then an empty line - yields exactly those patterns, whatever follows *)
Theorem multiline_section_is_read_verbatim pats tail :
  Forall pattern_ok pats ->
  parse_usage_multiline (usage_nl ++ block pats ++ String nlc tail) = Some pats.
Proof.
  intro F. unfold parse_usage_multiline.
  assert (A : after_ci usage_nl (usage_nl ++ block pats ++ String nlc tail) = Some (block pats ++ String nlc tail)%string) by reflexivity.
  rewrite A. rewrite (section_body_block pats tail F). rewrite (split_block pats F).
  f_equal. induction pats as [|p r IH]; [reflexivity|].
  inversion F as [|? ? Hp Hr]; subst. cbn [map app take_while_some indented after_first_space_run].
  assert (S1 : is_space " " = true) by reflexivity. rewrite S1. cbn [drop_spaces]. rewrite S1.
  rewrite (drop_spaces_pattern p Hp). f_equal. now apply IH.
Qed.

(* K13-usage-continuation-lines: with the first pattern on the `Usage:` line only that one is read *)
Example continuation_lines_refuted :
  usages_of_file (join_nl ["#!/usr/bin/env rash"; "#"; "# Usage: prog run [fast]"; "#        prog jump [high]"; "#"; "- debug:"; "    msg: x"])
  = Some ["prog run [fast]"].
Proof. vm_compute. reflexivity. Qed.

Example multiline_example :
  usages_of_file (join_nl ["#!/usr/bin/env rash"; "#"; "# usage:"; "#   prog run [fast]"; "#   prog jump [high]"; "#"; "# Options:"; "#   -f  f"; "- debug:"; "    msg: x"])
  = Some ["prog run [fast]"; "prog jump [high]"].
Proof. vm_compute. reflexivity. Qed.
