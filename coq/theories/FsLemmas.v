(* Lemmas about the file-system world: path equality, symlink resolution under updates. *)
From Coq Require Import List String Ascii Bool NArith Lia.
From RashV Require Import Fs.
Import ListNotations.
Open Scope list_scope.

Lemma path_eqb_eq p q : path_eqb p q = true <-> p = q.
Proof.
  revert q; induction p as [|a p IH]; intros [|b q]; cbn; split; intro H; try discriminate; try reflexivity.
  - apply andb_true_iff in H as [H1 H2]. apply String.eqb_eq in H1. apply IH in H2. now subst.
  - inversion H; subst. apply andb_true_iff. split; [apply String.eqb_refl | now apply IH].
Qed.
Lemma path_eqb_refl p : path_eqb p p = true. Proof. now apply path_eqb_eq. Qed.
Lemma path_eqb_neq p q : path_eqb p q = false <-> p <> q.
Proof. split; intro H. - intro E. apply path_eqb_eq in E. congruence.
  - destruct (path_eqb p q) eqn:E; [apply path_eqb_eq in E; contradiction | reflexivity]. Qed.
Lemma is_prefix_refl p : is_prefix p p = true.
Proof. induction p; cbn; [reflexivity|]. now rewrite String.eqb_refl. Qed.

Definition is_link (x : option node) : bool := match x with Some (NLink _) => true | _ => false end.

Lemma upd_same w p x : upd w p x p = x.
Proof. unfold upd. now rewrite path_eqb_refl. Qed.
Lemma upd_other w p x q : p <> q -> upd w p x q = w q.
Proof. intro H. unfold upd. apply path_eqb_neq in H. now rewrite H. Qed.

(* updating a non-link node with a non-link value does not change any resolution *)
Lemma resolve_upd f w q x p :
  is_link (w q) = false -> is_link x = false -> resolve f (upd w q x) p = resolve f w p.
Proof.
  intros Hq Hx. revert p. induction f as [|f IH]; intro p; cbn; [reflexivity|].
  unfold upd at 1. destruct (path_eqb q p) eqn:E.
  - apply path_eqb_eq in E; subst p.
    destruct x as [[| |t]|]; try discriminate; destruct (w q) as [[| |t']|]; try discriminate; reflexivity.
  - destruct (w p) as [[| |t]|]; try reflexivity. apply IH.
Qed.

Lemma res_upd w q x p :
  is_link (w q) = false -> is_link x = false -> res (upd w q x) p = res w p.
Proof. apply resolve_upd. Qed.

Lemma stat_upd w q x p :
  is_link (w q) = false -> is_link x = false ->
  stat (upd w q x) p = if path_eqb q (res w p) then x else stat w p.
Proof.
  intros Hq Hx. unfold stat. rewrite res_upd by assumption. unfold upd.
  destruct (path_eqb q (res w p)); [|reflexivity].
  destruct x as [[| |t]|]; try discriminate; reflexivity.
Qed.

(* stat never returns a link *)
Lemma stat_not_link w p t : stat w p <> Some (NLink t).
Proof. unfold stat. destruct (w (res w p)) as [[| |t']|]; discriminate. Qed.

Lemma stat_some_res w p n : stat w p = Some n -> w (res w p) = Some n /\ is_link (Some n) = false.
Proof. unfold stat. destruct (w (res w p)) as [[| |t']|] eqn:E; intro H; inversion H; subst; split; auto. Qed.

Lemma stat_none_res w p : stat w p = None -> w (res w p) = None \/ exists t, w (res w p) = Some (NLink t).
Proof. unfold stat. destruct (w (res w p)) as [[| |t']|] eqn:E; intro H; try discriminate; eauto. Qed.

(* ---- masks ---- *)
Lemma mask_perm_idem m : mask_perm (mask_perm m) = mask_perm m.
Proof. unfold mask_perm. rewrite <- N.land_assoc. now rewrite N.land_diag. Qed.

Lemma mask_perm_mod m : mask_perm m = (m mod 4096)%N.
Proof. unfold mask_perm, perm_mask. change 4095%N with (N.ones 12). now rewrite N.land_ones. Qed.

Lemma mask_perm_add_type t m : (t = ifreg \/ t = ifdir) -> mask_perm (t + mask_perm m) = mask_perm m.
Proof.
  intros Ht. rewrite !mask_perm_mod.
  assert (E : forall k, (t = k * 4096)%N -> ((t + m mod 4096) mod 4096 = m mod 4096)%N).
  { intros k ->. rewrite N.add_comm, N.mod_add by lia. apply N.mod_mod. lia. }
  destruct Ht as [-> | ->]; [apply (E 8%N) | apply (E 4%N)]; reflexivity.
Qed.

Lemma mask_st_mode_file c m : mask_perm (st_mode (NFile c m)) = mask_perm m.
Proof. cbn [st_mode]. apply mask_perm_add_type. now left. Qed.
Lemma mask_st_mode_dir m : mask_perm (st_mode (NDir m)) = mask_perm m.
Proof. cbn [st_mode]. apply mask_perm_add_type. now right. Qed.

(* ---- specifications of the mutating primitives ---- *)
Lemma sys_chmod_spec s p m s' :
  sys_chmod s p m = Some s' ->
  exists n, sw s (res (sw s) p) = Some n /\ is_link (Some n) = false /\
            sw s' = upd (sw s) (res (sw s) p) (Some (chmod_node n m)) /\
            is_link (Some (chmod_node n m)) = false.
Proof.
  unfold sys_chmod. destruct (sw s (res (sw s) p)) as [[c m0|m0|t]|] eqn:E; intro H; inversion H; subst; cbn;
    eexists; repeat split; eauto.
Qed.

Lemma sys_write_spec s p c s' :
  sys_write s p c = Some s' ->
  exists c0 m, sw s (res (sw s) p) = Some (NFile c0 m) /\
               sw s' = upd (sw s) (res (sw s) p) (Some (NFile c m)).
Proof.
  unfold sys_write. destruct (sw s (res (sw s) p)) as [[c0 m0|m0|t]|] eqn:E; intro H; inversion H; subst; cbn; eauto.
Qed.

Lemma sys_create_spec e s p s' :
  sys_create e s p = Some s' ->
  sw s (res (sw s) p) = None /\
  sw s' = upd (sw s) (res (sw s) p) (Some (NFile "" (file_create_mode e))).
Proof.
  unfold sys_create. destruct (sw s (res (sw s) p)) as [n|] eqn:E; [discriminate|].
  destruct (parent_ok (sw s) (res (sw s) p)); intro H; inversion H; subst; cbn; auto.
Qed.

(* chmod_node only touches the permission bits *)
Lemma chmod_node_file c m m' : chmod_node (NFile c m) m' = NFile c (mask_perm m'). Proof. reflexivity. Qed.

Lemma stat_after_chmod s p m s' p' :
  sys_chmod s p m = Some s' ->
  stat (sw s') p' = if path_eqb (res (sw s) p) (res (sw s) p')
                    then option_map (fun n => chmod_node n m) (stat (sw s) p')
                    else stat (sw s) p'.
Proof.
  intro H. apply sys_chmod_spec in H as (n & Hn & Hl & -> & Hl').
  rewrite stat_upd by (rewrite ?Hn; assumption).
  destruct (path_eqb (res (sw s) p) (res (sw s) p')) eqn:E; [|reflexivity].
  apply path_eqb_eq in E. unfold stat. rewrite <- E, Hn.
  destruct n as [| |t]; try discriminate; reflexivity.
Qed.

Lemma stat_after_write s p c s' p' :
  sys_write s p c = Some s' ->
  stat (sw s') p' = if path_eqb (res (sw s) p) (res (sw s) p')
                    then match stat (sw s) p' with Some (NFile _ m) => Some (NFile c m) | x => x end
                    else stat (sw s) p'.
Proof.
  intro H. apply sys_write_spec in H as (c0 & m & Hn & ->).
  rewrite stat_upd by (rewrite ?Hn; reflexivity).
  destruct (path_eqb (res (sw s) p) (res (sw s) p')) eqn:E; [|reflexivity].
  apply path_eqb_eq in E. unfold stat. rewrite <- E, Hn. reflexivity.
Qed.

Lemma stat_after_create e s p s' p' :
  sys_create e s p = Some s' ->
  stat (sw s') p' = if path_eqb (res (sw s) p) (res (sw s) p')
                    then Some (NFile "" (file_create_mode e))
                    else stat (sw s) p'.
Proof.
  intro H. apply sys_create_spec in H as (Hn & ->).
  rewrite stat_upd by (rewrite ?Hn; reflexivity). reflexivity.
Qed.

Lemma res_after_chmod s p m s' p' : sys_chmod s p m = Some s' -> res (sw s') p' = res (sw s) p'.
Proof. intro H. apply sys_chmod_spec in H as (n & Hn & Hl & -> & Hl'). apply res_upd; rewrite ?Hn; assumption. Qed.
Lemma res_after_write s p c s' p' : sys_write s p c = Some s' -> res (sw s') p' = res (sw s) p'.
Proof. intro H. apply sys_write_spec in H as (c0 & m & Hn & ->). apply res_upd; rewrite ?Hn; reflexivity. Qed.
Lemma res_after_create e s p s' p' : sys_create e s p = Some s' -> res (sw s') p' = res (sw s) p'.
Proof. intro H. apply sys_create_spec in H as (Hn & ->). apply res_upd; rewrite ?Hn; reflexivity. Qed.
