(* Executable definitions for the sequence half of C05 (the theorems are in Sequences.v): running a
   task list, what a task reads, and the decidable non-interference condition on a first pass. *)
From Coq Require Import List String Ascii Bool NArith.
From RashV Require Import Fs Octal StateMods StateSpec.
Import ListNotations.
Open Scope list_scope.

Definition target (t : task) : path :=
  match t with TCopy p => cp_dest p | TTemplate p _ => tp_dest p | TFile p => fp_path p end.

Definition source (t : task) : option path :=
  match t with
  | TCopy p => match cp_input p with ISrc s => Some s | IContent _ => None end
  | TTemplate p _ => Some (tp_src p)
  | TFile _ => None
  end.

Fixpoint run_all (e : env) (ts : list task) (s : st) : list result * st :=
  match ts with
  | [] => ([], s)
  | t :: r => let '(res, s1) := run_task e t false s in
              let '(out, s2) := run_all e r s1 in (res :: out, s2)
  end.

(* what a task reads: the nodes at the prefixes of its target and of its source *)
Definition reads (t : task) (p : path) : bool :=
  orb (is_prefix p (target t)) (match source t with Some s => is_prefix p s | None => false end).

Definition read_paths (t : task) : list path :=
  [] :: prefixes (target t) ++ match source t with Some s => prefixes s | None => [] end.

(* decidable agreement of two worlds on a task's read set *)
Definition node_eqb (a b : node) : bool :=
  match a, b with
  | NFile c m, NFile c' m' => andb (String.eqb c c') (N.eqb m m')
  | NDir m, NDir m' => N.eqb m m'
  | NLink t, NLink t' => path_eqb t t'
  | _, _ => false
  end.
Definition onode_eqb (a b : option node) : bool :=
  match a, b with Some x, Some y => node_eqb x y | None, None => true | _, _ => false end.
Definition is_lnk (x : option node) : bool := match x with Some (NLink _) => true | _ => false end.
Definition agree_b (t : task) (w1 w2 : world) : bool := forallb (fun p => onode_eqb (w1 p) (w2 p)) (read_paths t).
Definition nolink_b (t : task) (w : world) : bool := forallb (fun p => negb (is_lnk (w p))) (read_paths t).
Definition wf_task_b (t : task) : bool :=
  match t with TFile p => match fp_path p with [] => false | _ => true end | _ => true end.

(* the condition on the first pass: every task succeeds, is well formed and unaliased where it runs,
   what it reads holds no symbolic link afterwards, and the rest of the pass leaves it as it was *)
Fixpoint noninterf_b (e : env) (ts : list task) (s : st) : bool :=
  match ts with
  | [] => true
  | t :: r =>
      let '(res, s1) := run_task e t false s in
      let sn := snd (run_all e r s1) in
      andb (match res with ROk _ => true | RErr => false end)
     (andb (wf_task_b t)
     (andb (no_alias t (sw s))
     (andb (nolink_b t (sw s1))
     (andb (agree_b t (sw s1) (sw sn))
           (noninterf_b e r s1)))))
  end.

