(* One entry point for every correspondence case:  run_line : string -> string.
   Extracted to OCaml (ocaml/main.ml feeds it one line at a time) and also evaluated
   inside Coq with vm_compute for the extraction cross-check. *)
From Coq Require Import List String.
From RashV Require Import Sexp StateCase UsageCase EngineCase FindCase TplCase ExecCase TailCase.
Import ListNotations.
Open Scope string_scope.

Definition dispatch (e : sexp) : option sexp :=
  match e with
  | SList (Atom "fs" :: _) => run_fs e
  | SList (Atom "declared" :: _) => run_declared e
  | SList (Atom "noninterf" :: _) => run_noninterf e
  | SList (Atom "pacman" :: _) => run_pacman e
  | SList (Atom "octal" :: _) => run_octal e
  | SList (Atom "docopt" :: _) => run_docopt e
  | SList (Atom "docoptm" :: _) => run_docoptm e
  | SList (Atom "matchtoks" :: _) => run_matchtoks e
  | SList (Atom "canon" :: _) => run_canon e
  | SList (Atom "sortstrings" :: _) => run_sortstrings e
  | SList (Atom "tail" :: _) => run_tail e
  | SList (Atom "normopts" :: _) => run_normopts e
  | SList (Atom "optfind" :: _) => run_optfind e
  | SList (Atom "engine" :: _) => run_engine e
  | SList (Atom "find" :: _) => run_find e
  | SList (Atom "plain" :: _) => run_plain e
  | SList (Atom "helpdoc" :: _) => run_helpdoc e
  | SList (Atom "usagedoc" :: _) => run_usagedoc e
  | SList (Atom "rendermap" :: _) => run_rendermap e
  | SList (Atom "validfile" :: _) => run_validfile e
  | SList (Atom "validvals" :: _) => run_validvals e
  | SList (Atom "splitws" :: _) => run_splitws e
  | SList (Atom "become" :: _) => run_become e
  | _ => None
  end.

Definition run_line (s : string) : string :=
  match read_one s with
  | None => "(error parse)"
  | Some e => match dispatch e with Some r => show r | None => "(error case)" end
  end.
