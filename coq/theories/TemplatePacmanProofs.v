(* template (reduced to copy) and pacman: declared state, idempotence, prediction. *)
From Coq Require Import List String Ascii Bool NArith Arith Lia.
From RashV Require Import Fs Octal OctalProofs StateMods StateSpec Pacman FsLemmas CopyProofs FileProofs.
Import ListNotations.
Open Scope list_scope.

(* ------------------------------------------------------------------ template *)
Lemma template_unfold e p text check s r s' :
  template e p (Some text) check s = (ROk r, s') ->
  exists cp, template_copy_params p (sw s) text = Some cp /\ copy_file e cp check s = (ROk r, s').
Proof.
  unfold template, template_copy_params.
  destruct (tp_mode p) eqn:Em.
  - destruct (read_src (sw s) (tp_src p)); [|discriminate]. eauto.
  - destruct (stat (sw s) (tp_src p)) as [n|]; [|discriminate].
    destruct (read_src (sw s) (tp_src p)); [|discriminate]. eauto.
  - destruct (read_src (sw s) (tp_src p)); [|discriminate]. eauto.
Qed.

Lemma template_none e p check s : fst (template e p None check s) = RErr.
Proof. unfold template. repeat break_match; reflexivity. Qed.

Lemma copy_frame e p s ch s' :
  copy_file e p false s = (ROk ch, s') -> only_at (res (sw s) (cp_dest p)) s s'.
Proof. intro H. apply copy_real_summary in H as [? ? ? ? ? ? ? ? ? ? F ? ?]. exact F. Qed.

Lemma perm_lt n : (mask_perm n < 4096)%N.
Proof. rewrite mask_perm_mod. apply N.mod_lt. lia. Qed.

Lemma template_declared e p text s ch s' :
  template e p (Some text) false s = (ROk ch, s') ->
  declared_b (TTemplate p (Some text)) (sw s) (sw s') = true.
Proof.
  intro H. apply template_unfold in H as (cp & Hcp & Hc).
  assert (Hna : no_alias (TCopy cp) (sw s) = true).
  { unfold template_copy_params in Hcp. repeat break_match; simp_eqs; reflexivity. }
  pose proof (copy_declared _ _ _ _ _ Hc Hna) as D. cbn [declared_b] in *.
  unfold template_copy_params in Hcp.
  destruct (tp_mode p) eqn:Em.
  - simp_eqs. cbn in *. exact D.
  - destruct (stat (sw s) (tp_src p)) as [n|] eqn:Hsrc; simp_eqs. cbn [cp_input cp_dest cp_mode] in *.
    destruct (stat (sw s') (tp_dest p)) as [[c' m'| |]|]; try discriminate D.
    cbn [keep_mode_ok] in *. rewrite andb_true_r in *.
    apply andb_true_iff in D as [D1 D2]. rewrite D1. cbn [andb want_mode]. rewrite Hsrc.
    cbn [want_mode] in D2.
    assert (Hl : is_link (Some n) = false).
    { destruct n as [| |t]; try reflexivity. exfalso; eapply stat_not_link; eauto. }
    rewrite (node_perm_st_mode n Hl) in D2.
    destruct (N.ltb (node_perm n) 64) eqn:Es.
    + apply N.ltb_lt in Es. rewrite (parse_to_octal_small _ Es) in D2. discriminate D2.
    + apply N.ltb_ge in Es. rewrite parse_to_octal in D2.
      * cbn in *. apply N.eqb_eq in D2. apply N.eqb_eq. rewrite D2. apply mask_small.
        rewrite <- (node_perm_st_mode n Hl). apply perm_lt.
      * split; [assumption|]. rewrite <- (node_perm_st_mode n Hl). apply perm_lt.
  - simp_eqs. cbn in *. exact D.
Qed.

Lemma template_idempotent e p text s ch s' :
  no_alias (TTemplate p (Some text)) (sw s) = true ->
  template e p (Some text) false s = (ROk ch, s') ->
  forall l, template e p (Some text) false {| sw := sw s'; slog := l |} = (ROk false, {| sw := sw s'; slog := l |}).
Proof.
  intros Hna H l. pose proof H as H0. apply template_unfold in H as (cp & Hcp & Hc).
  assert (Hna' : no_alias (TCopy cp) (sw s) = true).
  { unfold template_copy_params in Hcp. repeat break_match; simp_eqs; reflexivity. }
  assert (Hd : cp_dest cp = tp_dest p).
  { unfold template_copy_params in Hcp. repeat break_match; simp_eqs; reflexivity. }
  pose proof (copy_frame _ _ _ _ _ Hc) as F. rewrite Hd in F.
  cbn [no_alias] in Hna. apply negb_true_iff, path_eqb_neq in Hna.
  destruct (F (tp_src p)) as [_ Fs]. specialize (Fs Hna).
  unfold template. cbn [sw]. unfold read_src. rewrite Fs.
  unfold template, read_src in H0.
  unfold template_copy_params in Hcp.
  destruct (tp_mode p) eqn:Em.
  - destruct (stat (sw s) (tp_src p)) as [[c m| |]|]; try discriminate H0. simp_eqs.
    apply (copy_idempotent _ _ _ _ _ Hc Hna').
  - destruct (stat (sw s) (tp_src p)) as [[c m| |]|]; try discriminate H0. simp_eqs.
    apply (copy_idempotent _ _ _ _ _ Hc Hna').
  - destruct (stat (sw s) (tp_src p)) as [[c m| |]|]; try discriminate H0. simp_eqs.
    apply (copy_idempotent _ _ _ _ _ Hc Hna').
Qed.

Lemma template_ok_noop e p text s s' :
  template e p (Some text) false s = (ROk false, s') ->
  known_empty_create e (TTemplate p (Some text)) (sw s) = false -> s' = s.
Proof.
  intros H K. apply template_unfold in H as (cp & Hcp & Hc).
  eapply copy_ok_noop; [exact Hc|].
  cbn [known_empty_create] in *. now rewrite Hcp in K.
Qed.

Lemma template_changed_differs e p text s s' :
  template e p (Some text) false s = (ROk true, s') -> stat (sw s') (tp_dest p) <> stat (sw s) (tp_dest p).
Proof.
  intros H. apply template_unfold in H as (cp & Hcp & Hc).
  assert (Hd : cp_dest cp = tp_dest p).
  { unfold template_copy_params in Hcp. repeat break_match; simp_eqs; reflexivity. }
  rewrite <- Hd. eapply copy_changed_differs; eauto.
Qed.

Lemma template_predicts e p text s c1 s1 c2 s2 :
  template e p (Some text) true s = (ROk c1, s1) ->
  template e p (Some text) false s = (ROk c2, s2) ->
  known_empty_create e (TTemplate p (Some text)) (sw s) = false -> tmp_like_create e -> c1 = c2.
Proof.
  intros H1 H2 K T.
  apply template_unfold in H1 as (cp1 & Hcp1 & Hc1). apply template_unfold in H2 as (cp2 & Hcp2 & Hc2).
  assert (cp1 = cp2) by congruence. subst cp2.
  eapply copy_predicts; [exact Hc1|exact Hc2| | |exact T].
  - unfold template_copy_params in Hcp1. repeat break_match; simp_eqs; reflexivity.
  - cbn [known_empty_create] in *. now rewrite Hcp1 in K.
Qed.

(* -------------------------------------------------------------------- pacman *)
Lemma mem_In x l : mem x l = true <-> In x l.
Proof.
  unfold mem. rewrite existsb_exists. split.
  - intros (y & Hy & E). apply String.eqb_eq in E. now subst.
  - intro H. exists x. split; [assumption|apply String.eqb_refl].
Qed.
Lemma mem_false x l : mem x l = false <-> ~ In x l.
Proof. rewrite <- mem_In. destruct (mem x l); split; congruence. Qed.
Lemma In_diff x a b : In x (diff a b) <-> In x a /\ ~ In x b.
Proof. unfold diff. rewrite filter_In, negb_true_iff, mem_false. tauto. Qed.
Lemma In_inter x a b : In x (inter a b) <-> In x a /\ In x b.
Proof. unfold inter. rewrite filter_In, mem_In. tauto. Qed.
Lemma In_dedup x l : In x (dedup l) <-> In x l.
Proof.
  induction l as [|y r IH]; cbn; [tauto|].
  destruct (mem y r) eqn:E.
  - rewrite IH. split; [tauto|]. intros [->|H]; [now apply mem_In|assumption].
  - cbn. rewrite IH. tauto.
Qed.
Lemma subset_spec a b : subset a b = true <-> (forall x, In x a -> In x b).
Proof.
  unfold subset. rewrite forallb_forall. split; intros H x Hx.
  - apply mem_In. auto.
  - apply mem_In. auto.
Qed.

Definition to_install (p : pparams) (d : db) : list string :=
  match pp_state p with
  | PPresent => diff (dedup (pp_names p)) (installed d)
  | PAbsent => []
  | PSync => diff (dedup (pp_names p)) (explicit d)
  end.
Definition to_remove (p : pparams) (d : db) : list string :=
  match pp_state p with
  | PPresent => []
  | PAbsent => inter (dedup (pp_names p)) (installed d)
  | PSync => diff (explicit d) (dedup (pp_names p))
  end.
Definition nonempty (l : list string) : bool := match l with [] => false | _ => true end.

Definition pre_db (p : pparams) (d : db) : db := if pp_update_cache p then db_refresh d else d.
Definition final_db (p : pparams) (d : db) : db :=
  let up := andb (pp_upgrade p) (upgradable d) in
  let d1 := if up then db_upgrade d else d in
  let d2 := if nonempty (to_install p d) then db_sync d1 (to_install p d) else d1 in
  if nonempty (to_remove p d) then db_remove d2 (to_remove p d) else d2.

Lemma pre_installed p d : installed (pre_db p d) = installed d.
Proof. unfold pre_db. destruct (pp_update_cache p); reflexivity. Qed.
Lemma pre_explicit p d : explicit (pre_db p d) = explicit d.
Proof. unfold pre_db. destruct (pp_update_cache p); reflexivity. Qed.
Lemma pre_sysver p d : sysver (pre_db p d) = sysver d.
Proof. unfold pre_db. destruct (pp_update_cache p); reflexivity. Qed.
Lemma pre_to_install p d : to_install p (pre_db p d) = to_install p d.
Proof. unfold to_install. now rewrite pre_installed, pre_explicit. Qed.
Lemma pre_to_remove p d : to_remove p (pre_db p d) = to_remove p d.
Proof. unfold to_remove. now rewrite pre_installed, pre_explicit. Qed.
Lemma pre_known_sync p d : known_sync_dependency p (pre_db p d) = known_sync_dependency p d.
Proof. unfold known_sync_dependency. now rewrite pre_installed, pre_explicit. Qed.

(* the real run: refresh first (if asked), then everything is decided on the refreshed database *)
Lemma pacman_real_spec p s :
  let d0 := pre_db p (pdb s) in
  exists lg, pacman p false s =
    ({| pr_changed := orb (andb (pp_upgrade p) (upgradable d0))
                          (orb (nonempty (to_install p d0)) (nonempty (to_remove p d0)));
        pr_installed := to_install p d0; pr_removed := to_remove p d0;
        pr_upgraded := andb (pp_upgrade p) (upgradable d0) |},
     {| pdb := final_db p d0; plog := lg |}).
Proof.
  unfold pacman, final_db, to_install, to_remove, pre_db. cbn [negb andb]. rewrite andb_true_r.
  destruct (pp_update_cache p); cbn [plog1 pdb plog];
  match goal with |- context [upgradable ?d] => generalize d; intro d0 end;
  destruct (pp_state p), (pp_upgrade p); cbn [andb plog1 pdb plog];
    destruct (upgradable d0) eqn:Eu; cbn [negb andb plog1 pdb plog db_upgrade installed explicit nonempty];
    repeat match goal with
    | |- context [diff ?a ?b] => destruct (diff a b) eqn:?
    | |- context [inter ?a ?b] => destruct (inter a b) eqn:?
    end; cbn [nonempty orb plog1 pdb plog]; eexists; reflexivity.
Qed.

(* check mode: no refresh; everything is decided on the database as it is *)
Lemma pacman_check_spec p s :
  exists lg, pacman p true s =
    ({| pr_changed := orb (andb (pp_upgrade p) (upgradable (pdb s)))
                          (orb (nonempty (to_install p (pdb s))) (nonempty (to_remove p (pdb s))));
        pr_installed := to_install p (pdb s); pr_removed := to_remove p (pdb s);
        pr_upgraded := andb (pp_upgrade p) (upgradable (pdb s)) |},
     {| pdb := pdb s; plog := lg |}).
Proof.
  unfold pacman, to_install, to_remove. cbn [negb andb]. rewrite andb_false_r.
  destruct (pp_state p), (pp_upgrade p); cbn [andb plog1 pdb plog];
    destruct (upgradable (pdb s)) eqn:Eu; cbn [negb andb plog1 pdb plog nonempty];
    repeat match goal with
    | |- context [diff ?a ?b] => destruct (diff a b) eqn:?
    | |- context [inter ?a ?b] => destruct (inter a b) eqn:?
    end; cbn [nonempty orb plog1 pdb plog]; eexists; reflexivity.
Qed.

(* C06, pacman: check mode reports exactly what the real run reports, unless the refresh that check
   mode skips would change the answer to "upgradable?" (K24) *)
Lemma pacman_predicts p s :
  known_check_skips_refresh p (pdb s) = false -> fst (pacman p true s) = fst (pacman p false s).
Proof.
  intro K. destruct (pacman_check_spec p s) as [l1 ->]. destruct (pacman_real_spec p s) as [l2 ->].
  cbn [fst]. rewrite pre_to_install, pre_to_remove.
  assert (E : andb (pp_upgrade p) (upgradable (pre_db p (pdb s))) = andb (pp_upgrade p) (upgradable (pdb s))).
  { unfold known_check_skips_refresh, pre_db in *. destruct (pp_update_cache p); [|reflexivity].
    destruct (pp_upgrade p); [|reflexivity]. cbn [andb] in *.
    destruct (upgradable (pdb s)), (upgradable (db_refresh (pdb s))); cbn in K; congruence. }
  rewrite E. reflexivity.
Qed.

(* K24 is a real divergence of the model (and of the code, see known_findings.json) *)
Lemma K24_check_skips_refresh_refuted :
  let d := {| installed := []; explicit := []; sysver := 1; dbver := 1; upstream := 2 |} in
  let p := {| pp_names := []; pp_state := PPresent; pp_update_cache := true; pp_upgrade := true |} in
  pr_changed (fst (pacman p true {| pdb := d; plog := [] |})) = false
  /\ pr_changed (fst (pacman p false {| pdb := d; plog := [] |})) = true
  /\ known_check_skips_refresh p d = true.
Proof. cbv zeta. repeat split; vm_compute; reflexivity. Qed.

(* membership in the final database *)
Lemma final_installed p d x :
  In x (installed (final_db p d)) <-> (In x (installed d) \/ In x (to_install p d)) /\ ~ In x (to_remove p d).
Proof.
  unfold final_db.
  assert (U : forall b : bool, installed (if b then db_upgrade d else d) = installed d) by (intros []; reflexivity).
  destruct (to_install p d) as [|a ti] eqn:Ei; destruct (to_remove p d) as [|b tr] eqn:Er;
    cbn [nonempty]; cbn [db_sync db_remove installed]; rewrite ?In_diff, ?in_app_iff, ?In_diff, ?U; cbn [In];
    (destruct (mem x (installed d)) eqn:E; [apply mem_In in E | apply mem_false in E]); tauto.
Qed.

Lemma final_explicit p d x :
  In x (explicit (final_db p d)) <->
  (In x (explicit d) \/ (In x (to_install p d) /\ ~ In x (installed d))) /\ ~ In x (to_remove p d).
Proof.
  unfold final_db.
  assert (U : forall b : bool, explicit (if b then db_upgrade d else d) = explicit d) by (intros []; reflexivity).
  assert (U' : forall b : bool, installed (if b then db_upgrade d else d) = installed d) by (intros []; reflexivity).
  destruct (to_install p d) as [|a ti] eqn:Ei; destruct (to_remove p d) as [|b tr] eqn:Er;
    cbn [nonempty]; cbn [db_sync db_remove installed explicit]; rewrite ?In_diff, ?in_app_iff, ?In_diff, ?U, ?U'; cbn [In];
    (destruct (mem x (installed d)) eqn:E; [apply mem_In in E | apply mem_false in E]); tauto.
Qed.

Lemma final_versions p d :
  sysver (final_db p d) = (if andb (pp_upgrade p) (upgradable d) then dbver d else sysver d)
  /\ dbver (final_db p d) = dbver d /\ upstream (final_db p d) = upstream d.
Proof.
  unfold final_db.
  destruct (nonempty (to_remove p d)), (nonempty (to_install p d)), (andb (pp_upgrade p) (upgradable d));
    cbn [db_sync db_remove db_upgrade sysver dbver upstream]; auto.
Qed.

Lemma final_declared p d :
  known_sync_dependency p d = false -> pdeclared_b p (final_db p d) = true.
Proof.
  intro K.
  unfold pdeclared_b, known_sync_dependency in *.
  destruct (pp_state p) eqn:Est.
  - apply subset_spec. intros x Hx. apply final_installed. unfold to_install, to_remove. rewrite Est.
    rewrite In_diff, In_dedup. split; [|cbn; tauto].
    destruct (mem x (installed d)) eqn:E; [left; now apply mem_In|right; split; [assumption|now apply mem_false]].
  - apply forallb_forall. intros x Hx. apply negb_true_iff, mem_false. rewrite final_installed.
    unfold to_install, to_remove. rewrite Est. rewrite In_inter, In_dedup. cbn [In]. tauto.
  - assert (K' : forall x, In x (pp_names p) -> In x (installed d) -> In x (explicit d)).
    { intros x Hx Hi. destruct (mem x (explicit d)) eqn:E; [now apply mem_In|]. exfalso.
      assert (existsb (fun x => andb (mem x (installed d)) (negb (mem x (explicit d)))) (pp_names p) = true).
      { apply existsb_exists. exists x. split; [assumption|]. apply mem_In in Hi. now rewrite Hi, E. }
      congruence. }
    apply andb_true_iff. split; apply subset_spec; intros x Hx.
    + apply final_explicit. unfold to_install, to_remove. rewrite Est. rewrite !In_diff, In_dedup.
      split; [|tauto].
      destruct (mem x (explicit d)) eqn:E; [left; now apply mem_In|]. apply mem_false in E.
      right. split; [tauto|]. intro Hi. apply E. now apply K'.
    + apply final_explicit in Hx. unfold to_install, to_remove in Hx. rewrite Est in Hx.
      rewrite !In_diff, In_dedup in Hx.
      destruct (mem x (pp_names p)) eqn:E; [now apply mem_In|]. apply mem_false in E. tauto.
Qed.

(* C04, pacman: the declared package state holds after a real run (outside K19); with upgrade the
   installed level has caught up with everything the (refreshed) sync database offers *)
Lemma pacman_declared p s :
  known_sync_dependency p (pdb s) = false ->
  let d' := pdb (snd (pacman p false s)) in
  pdeclared_b p d' = true
  /\ (pp_upgrade p = true -> upgradable d' = false)
  /\ (pp_update_cache p = true -> dbver d' = upstream (pdb s)).
Proof.
  intro K. cbv zeta. destruct (pacman_real_spec p s) as [lg ->]. cbn [snd pdb].
  split; [apply final_declared; now rewrite pre_known_sync|].
  destruct (final_versions p (pre_db p (pdb s))) as (Hs & Hd & Hu).
  split.
  - intro Up. unfold upgradable at 1. rewrite Hs, Hd, Up. cbn [andb].
    destruct (upgradable (pre_db p (pdb s))) eqn:E.
    + apply Nat.ltb_ge. lia.
    + exact E.
  - intro Uc. rewrite Hd. unfold pre_db. rewrite Uc. reflexivity.
Qed.

Lemma final_fixpoint p d :
  known_sync_dependency p d = false ->
  to_install p (final_db p d) = [] /\ to_remove p (final_db p d) = [].
Proof.
  intro K. pose proof (final_declared p d K) as D.
  assert (NIL : forall l : list string, (forall x, ~ In x l) -> l = []).
  { intros [|a l] H; [reflexivity|]. exfalso. apply (H a). now left. }
  unfold pdeclared_b in D. unfold to_install, to_remove.
  split.
  - destruct (pp_state p) eqn:Est; [| reflexivity |].
    + apply NIL. intros x. rewrite In_diff, In_dedup. rewrite subset_spec in D. intros [H1 H2]. auto.
    + apply NIL. intros x. rewrite In_diff, In_dedup. apply andb_true_iff in D as [D1 D2].
      rewrite subset_spec in D1. intros [H1 H2]. auto.
  - destruct (pp_state p) eqn:Est; [reflexivity | |].
    + apply NIL. intros x. rewrite In_inter, In_dedup. rewrite forallb_forall in D. intros [H1 H2].
      specialize (D x H1). apply negb_true_iff, mem_false in D. auto.
    + apply NIL. intros x. rewrite In_diff, In_dedup. apply andb_true_iff in D as [D1 D2].
      rewrite subset_spec in D2. intros [H1 H2]. auto.
Qed.

(* C05, pacman: once the declared state holds nothing is installed or removed again *)
Lemma pacman_idempotent p s :
  known_sync_dependency p (pdb s) = false ->
  let d' := pdb (snd (pacman p false s)) in
  to_install p d' = [] /\ to_remove p d' = [] /\ (pp_upgrade p = true -> upgradable d' = false).
Proof.
  intro K. cbv zeta. destruct (pacman_declared p s K) as (_ & Hu & _).
  destruct (pacman_real_spec p s) as [lg E]. rewrite E in *. cbn [snd pdb] in *.
  rewrite <- pre_known_sync in K. destruct (final_fixpoint _ _ K). auto.
Qed.

Lemma pre_db_fixed p d : (pp_update_cache p = true -> dbver d = upstream d) -> pre_db p d = d.
Proof.
  unfold pre_db. destruct (pp_update_cache p); [|reflexivity]. intro H. specialize (H eq_refl).
  destruct d as [i e sv dv uv]. cbn in *. subst. reflexivity.
Qed.

Lemma final_db_noop p d :
  andb (pp_upgrade p) (upgradable d) = false -> to_install p d = [] -> to_remove p d = [] -> final_db p d = d.
Proof. intros H1 H2 H3. unfold final_db. rewrite H1, H2, H3. reflexivity. Qed.

(* C05, pacman, the whole statement: the identical task run again reports ok and leaves the database
   (package sets, installed level AND sync database) exactly as the first run left it *)
Lemma pacman_second_run p s :
  known_sync_dependency p (pdb s) = false ->
  let s1 := snd (pacman p false s) in
  pr_changed (fst (pacman p false s1)) = false /\ pdb (snd (pacman p false s1)) = pdb s1.
Proof.
  intro K. cbv zeta.
  destruct (pacman_idempotent p s K) as (Hi & Hr & Hu).
  destruct (pacman_declared p s K) as (_ & _ & Hc).
  set (s1 := snd (pacman p false s)) in *.
  assert (P : pre_db p (pdb s1) = pdb s1).
  { apply pre_db_fixed. intro Uc. rewrite (Hc Uc).
    subst s1. destruct (pacman_real_spec p s) as [lg ->]. cbn [snd pdb].
    destruct (final_versions p (pre_db p (pdb s))) as (_ & _ & ->). unfold pre_db. now destruct (pp_update_cache p). }
  assert (U : andb (pp_upgrade p) (upgradable (pdb s1)) = false).
  { destruct (pp_upgrade p); [|reflexivity]. now rewrite Hu. }
  destruct (pacman_real_spec p s1) as [lg ->]. cbn [fst snd pr_changed pdb]. rewrite P, U, Hi, Hr.
  split; [reflexivity|]. apply final_db_noop; assumption.
Qed.

(* C04, pacman: changed is reported iff the package state changes (outside K19) *)
Lemma nonempty_In l : nonempty l = true -> exists x : string, In x l.
Proof. destruct l as [|a l]; [discriminate|]. exists a. now left. Qed.

(* ok: package sets and installed level are untouched (the sync database, a cache, may have been
   refreshed: that is what update_cache asks for, and it is never reported as a change) *)
Lemma pacman_unchanged_db p s :
  pr_changed (fst (pacman p false s)) = false ->
  let d' := pdb (snd (pacman p false s)) in
  installed d' = installed (pdb s) /\ explicit d' = explicit (pdb s) /\ sysver d' = sysver (pdb s)
  /\ (pp_update_cache p = false -> d' = pdb s).
Proof.
  cbv zeta. destruct (pacman_real_spec p s) as [lg ->]. cbn [fst snd pr_changed pdb].
  intro H. apply orb_false_iff in H as [H1 H2]. apply orb_false_iff in H2 as [H2 H3].
  unfold final_db. rewrite H1, H2, H3. rewrite pre_installed, pre_explicit, pre_sysver.
  repeat split. intro Uc. unfold pre_db. now rewrite Uc.
Qed.

Definition db_differs (d d' : db) : Prop :=
  sysver d <> sysver d'
  \/ (exists x, ~ (In x (installed d) <-> In x (installed d')))
  \/ (exists x, ~ (In x (explicit d) <-> In x (explicit d'))).

Lemma final_changed_db p d :
  known_sync_dependency p d = false ->
  orb (andb (pp_upgrade p) (upgradable d)) (orb (nonempty (to_install p d)) (nonempty (to_remove p d))) = true ->
  db_differs d (final_db p d).
Proof.
  intros K H.
  assert (K' : pp_state p = PSync -> forall x, In x (pp_names p) -> In x (installed d) -> In x (explicit d)).
  { intros Est x Hx Hi. destruct (mem x (explicit d)) eqn:E; [now apply mem_In|]. exfalso.
    unfold known_sync_dependency in K. rewrite Est in K.
    assert (existsb (fun x => andb (mem x (installed d)) (negb (mem x (explicit d)))) (pp_names p) = true).
    { apply existsb_exists. exists x. split; [assumption|]. apply mem_In in Hi. now rewrite Hi, E. }
    congruence. }
  destruct (nonempty (to_remove p d)) eqn:Er.
  - right. apply nonempty_In in Er as [x Hx].
    unfold to_remove in Hx. destruct (pp_state p) eqn:Est; cbn in Hx; [tauto| |].
    + left. exists x. rewrite final_installed. unfold to_remove at 1. rewrite Est.
      pose proof Hx as Hx'. apply In_inter in Hx'. tauto.
    + right. exists x. rewrite final_explicit. unfold to_remove at 1. rewrite Est.
      pose proof Hx as Hx'. apply In_diff in Hx' as [Hx' _]. tauto.
  - destruct (nonempty (to_install p d)) eqn:Ei.
    + right. left. apply nonempty_In in Ei as [x Hx]. exists x. rewrite final_installed.
      assert (Hn : ~ In x (installed d)).
      { unfold to_install in Hx. destruct (pp_state p) eqn:Est; cbn in Hx; [| tauto |].
        - apply In_diff in Hx. tauto.
        - apply In_diff in Hx as [Hx1 Hx2]. rewrite In_dedup in Hx1. intro Hi. apply Hx2. apply (K' eq_refl); assumption. }
      assert (~ In x (to_remove p d)) by (destruct (to_remove p d); [tauto|discriminate Er]).
      tauto.
    + left. cbn [orb] in H. rewrite orb_false_r in H.
      destruct (final_versions p d) as (Hs & _). rewrite Hs, H.
      apply andb_true_iff in H as [_ H2]. unfold upgradable in H2. apply Nat.ltb_lt in H2. lia.
Qed.

Lemma pacman_changed_db p s :
  known_sync_dependency p (pdb s) = false ->
  pr_changed (fst (pacman p false s)) = true -> db_differs (pdb s) (pdb (snd (pacman p false s))).
Proof.
  intros K. destruct (pacman_real_spec p s) as [lg ->]. cbn [fst snd pr_changed pdb]. intro H.
  rewrite <- pre_known_sync in K. pose proof (final_changed_db _ _ K H) as D.
  unfold db_differs in *. now rewrite pre_sysver, pre_installed, pre_explicit in D.
Qed.
