(* Reference semantics of the documented usage language (rash_book/src/syntax.md, parser.md):
   option table, tokens, spelling canonicalisation, pattern AST, the inductive relation
   [Matches] ("this token list is in the language of the pattern, with these bindings")
   and an executable backtracking matcher [mtch]. *)
From Coq Require Import List String Ascii Bool Arith Lia.
Import ListNotations.
Open Scope string_scope. Open Scope list_scope.

(* ------------------------------------------------------------------ options *)
Record optdesc := { o_short : option string;   (* one character, without the dash *)
                    o_long : option string;    (* without the two dashes *)
                    o_takes : bool }.          (* takes a value *)

(* canonical name: the long name if there is one, else the short one *)
Definition cname (d : optdesc) : string :=
  match o_long d, o_short d with
  | Some l, _ => l
  | None, Some s => s
  | None, None => ""
  end.

Definition opt_eqb (a b : option string) : bool :=
  match a, b with Some x, Some y => String.eqb x y | _, _ => false end.

Definition find_long (t : list optdesc) (l : string) : option optdesc :=
  find (fun d => opt_eqb (o_long d) (Some l)) t.
Definition find_short (t : list optdesc) (s : string) : option optdesc :=
  find (fun d => opt_eqb (o_short d) (Some s)) t.

Inductive token := TWord (w : string) | TOpt (name : string) (v : option string).

(* ------------------------------------------------------------------ spelling *)
Definition starts_dash (w : string) : bool := match w with String "-" _ => true | _ => false end.
Definition is_long (w : string) : bool :=
  match w with String "-" (String "-" (String _ _)) => true | _ => false end.
Definition is_short (w : string) : bool :=
  match w with
  | String "-" (String "-" _) => false
  | String "-" (String _ _) => true
  | _ => false
  end.

(* split at the first '=' *)
Fixpoint split_eq (s : string) : string * option string :=
  match s with
  | EmptyString => (EmptyString, None)
  | String "=" r => (EmptyString, Some r)
  | String c r => let '(a, b) := split_eq r in (String c a, b)
  end.

Definition drop_eq (s : string) : string := match s with String "=" r => r | _ => s end.

(* a short cluster (the word without its dash): flags, optionally ended by one valued option
   whose value is the rest of the word ("" = the value is the next word) *)
Fixpoint cluster (t : list optdesc) (s : string) : option (list token * option (string * string)) :=
  match s with
  | EmptyString => Some ([], None)
  | String c r =>
      match find_short t (String c EmptyString) with
      | None => None
      | Some d =>
          if o_takes d then Some ([], Some (cname d, drop_eq r))
          else match cluster t r with
               | Some (toks, pend) => Some (TOpt (cname d) None :: toks, pend)
               | None => None
               end
      end
  end.

Definition omap {A B} (f : A -> B) (o : option A) : option B :=
  match o with Some x => Some (f x) | None => None end.

Fixpoint canon (t : list optdesc) (ws : list string) : option (list token) :=
  match ws with
  | [] => Some []
  | w :: rest =>
      if is_long w then
        let '(name, inline) := split_eq (substring 2 (String.length w - 2) w) in
        match find_long t name with
        | None => None
        | Some d =>
            if o_takes d then
              match inline with
              | Some v => omap (cons (TOpt (cname d) (Some v))) (canon t rest)
              | None => match rest with
                        | v :: rest' => omap (cons (TOpt (cname d) (Some v))) (canon t rest')
                        | [] => None
                        end
              end
            else match inline with
                 | Some _ => None
                 | None => omap (cons (TOpt (cname d) None)) (canon t rest)
                 end
        end
      else if is_short w then
        match cluster t (substring 1 (String.length w - 1) w) with
        | None => None
        | Some (toks, None) => omap (app toks) (canon t rest)
        | Some (toks, Some (n, EmptyString)) =>
            match rest with
            | v :: rest' => omap (fun l => toks ++ TOpt n (Some v) :: l) (canon t rest')
            | [] => None
            end
        | Some (toks, Some (n, v)) => omap (fun l => toks ++ TOpt n (Some v) :: l) (canon t rest)
        end
      else omap (cons (TWord w)) (canon t rest)
  end.

(* ------------------------------------------------------------------ patterns *)
Inductive upat :=
| Cmd (c : string)
| Pos (x : string)
| Opt (o : string)
| AnyOptions
| Seq (ps : list upat)
| Optional (p : upat)
| Alt (ps : list upat)
| Repeat (p : upat).

Inductive bind := BCmd (c : string) | BPos (x v : string) | BOpt (o : string) (v : option string).

Definition tok_of_bind (b : bind) : token :=
  match b with BCmd c => TWord c | BPos _ v => TWord v | BOpt o v => TOpt o v end.

Definition is_opt_tok (t : token) : bool := match t with TOpt _ _ => true | _ => false end.
Definition bind_of_opt (t : token) : bind :=
  match t with TOpt o v => BOpt o v | TWord w => BCmd w end.

(* documented language *)
Inductive Matches : upat -> list token -> list bind -> Prop :=
| MCmd c : Matches (Cmd c) [TWord c] [BCmd c]
| MPos x v : Matches (Pos x) [TWord v] [BPos x v]
| MOpt o v : Matches (Opt o) [TOpt o v] [BOpt o v]
| MAny ts : forallb is_opt_tok ts = true -> Matches AnyOptions ts (map bind_of_opt ts)
| MSeqNil : Matches (Seq []) [] []
| MSeqCons p ps w1 w2 b1 b2 :
    Matches p w1 b1 -> Matches (Seq ps) w2 b2 -> Matches (Seq (p :: ps)) (w1 ++ w2) (b1 ++ b2)
| MOptNone p : Matches (Optional p) [] []
| MOptSome p w b : Matches p w b -> Matches (Optional p) w b
| MAlt p ps w b : In p ps -> Matches p w b -> Matches (Alt ps) w b
| MRepOne p w b : Matches p w b -> Matches (Repeat p) w b
| MRepMore p w1 w2 b1 b2 :
    w1 <> [] -> Matches p w1 b1 -> Matches (Repeat p) w2 b2 -> Matches (Repeat p) (w1 ++ w2) (b1 ++ b2).

(* ------------------------------------------------------------------ matcher *)
Definition res := list (list bind * list token).

(* all ways of taking a (possibly empty) prefix of option tokens *)
Fixpoint opt_prefixes (ws : list token) : res :=
  ([], ws) ::
  match ws with
  | TOpt o v :: r => map (fun '(b, r') => (BOpt o v :: b, r')) (opt_prefixes r)
  | _ => []
  end.

Definition seq_go (mt : upat -> list token -> res) :=
  fix go (ps : list upat) (ws : list token) : res :=
    match ps with
    | [] => [([], ws)]
    | q :: qs => flat_map (fun '(b1, r1) => map (fun '(b2, r2) => (b1 ++ b2, r2)) (go qs r1)) (mt q ws)
    end.
Definition alt_go (mt : upat -> list token -> res) (ws : list token) :=
  fix go (ps : list upat) : res :=
    match ps with [] => [] | q :: qs => mt q ws ++ go qs end.
Definition rep_go (mt : list token -> res) :=
  fix rep (n : nat) (ws : list token) : res :=
    match n with
    | O => []
    | S n' =>
        flat_map (fun '(b1, r1) =>
                    (b1, r1) ::
                    (if Nat.ltb (List.length r1) (List.length ws)
                     then map (fun '(b2, r2) => (b1 ++ b2, r2)) (rep n' r1)
                     else []))
                 (mt ws)
    end.

Fixpoint mtch (p : upat) (ws : list token) {struct p} : res :=
  match p with
  | Cmd c => match ws with TWord w :: r => if String.eqb w c then [([BCmd c], r)] else [] | _ => [] end
  | Pos x => match ws with TWord w :: r => [([BPos x w], r)] | _ => [] end
  | Opt o => match ws with TOpt o' v :: r => if String.eqb o' o then [([BOpt o v], r)] else [] | _ => [] end
  | AnyOptions => opt_prefixes ws
  | Seq ps =>
      (fix go (ps : list upat) (ws : list token) : res :=
         match ps with
         | [] => [([], ws)]
         | q :: qs => flat_map (fun '(b1, r1) => map (fun '(b2, r2) => (b1 ++ b2, r2)) (go qs r1)) (mtch q ws)
         end) ps ws
  | Optional q => ([], ws) :: mtch q ws
  | Alt ps =>
      (fix go (ps : list upat) : res :=
         match ps with [] => [] | q :: qs => mtch q ws ++ go qs end) ps
  | Repeat q => rep_go (mtch q) (S (List.length ws)) ws
  end.

Lemma mtch_seq ps ws : mtch (Seq ps) ws = seq_go mtch ps ws. Proof. reflexivity. Qed.
Lemma mtch_alt ps ws : mtch (Alt ps) ws = alt_go mtch ws ps. Proof. reflexivity. Qed.
Lemma mtch_rep q ws : mtch (Repeat q) ws = rep_go (mtch q) (S (List.length ws)) ws. Proof. reflexivity. Qed.

Definition accepts (p : upat) (ws : list token) : list (list bind) :=
  map fst (filter (fun '(_, r) => match r with [] => true | _ => false end) (mtch p ws)).

(* ------------------------------------------------------------------ documented equivalences *)
Definition is_atom (p : upat) : bool :=
  match p with Cmd _ | Pos _ | Opt _ => true | _ => false end.

(* "[a b]" with only atoms inside is "[a] [b]"; several usage lines are a top-level "|" *)
Fixpoint desugar (p : upat) : upat :=
  match p with
  | Seq ps => Seq (map desugar ps)
  | Alt ps => Alt (map desugar ps)
  | Repeat q => Repeat (desugar q)
  | Optional (Seq ps) =>
      if forallb is_atom ps then Seq (map Optional ps) else Optional (Seq (map desugar ps))
  | Optional q => Optional (desugar q)
  | q => q
  end.

Definition usage_lines (lines : list upat) : upat := Alt (map desugar lines).

(* option tokens may be given anywhere on the command line: [b] is [a] with its option tokens
   moved (same multiset of tokens, same sequence of non-option words) *)
Fixpoint words_of (ts : list token) : list string :=
  match ts with [] => [] | TWord w :: r => w :: words_of r | _ :: r => words_of r end.
Definition tok_eqb (a b : token) : bool :=
  match a, b with
  | TWord x, TWord y => String.eqb x y
  | TOpt o v, TOpt o' v' =>
      andb (String.eqb o o') (match v, v' with
                              | Some x, Some y => String.eqb x y
                              | None, None => true
                              | _, _ => false end)
  | _, _ => false
  end.
Fixpoint remove_tok (x : token) (l : list token) : option (list token) :=
  match l with
  | [] => None
  | y :: r => if tok_eqb x y then Some r else omap (cons y) (remove_tok x r)
  end.
Fixpoint is_perm (a b : list token) : bool :=
  match a with
  | [] => match b with [] => true | _ => false end
  | x :: r => match remove_tok x b with Some b' => is_perm r b' | None => false end
  end.
Definition list_eqb (a b : list string) : bool :=
  (fix go a b := match a, b with
                 | [], [] => true
                 | x :: r, y :: s => andb (String.eqb x y) (go r s)
                 | _, _ => false end) a b.
Definition rearr_b (a b : list token) : bool := andb (is_perm a b) (list_eqb (words_of a) (words_of b)).
