(* C04 - a successful state task reaches its declared state and reports change honestly.
   Pinned statements only; the proofs live in CopyProofs/FileProofs/TemplatePacmanProofs/StateProofs. *)
From Coq Require Import List String Ascii Bool NArith.
From RashV Require Import Fs Octal OctalProofs StateMods Pacman StateSpec SeqSpec TemplatePacmanProofs StateProofs.
Import ListNotations.
Open Scope N_scope.

(* every 3-digit and every 4-digit octal mode string denotes exactly its value (setuid, setgid,
   sticky included) *)
Theorem C04_octal_3 : forall c2 c1 c0 d2 d1 d0,
  odigit c2 = Some d2 -> odigit c1 = Some d1 -> odigit c0 = Some d0 ->
  parse_octal (String c2 (String c1 (String c0 EmptyString))) = OOk (64 * d2 + 8 * d1 + d0).
Proof. exact parse_octal_3. Qed.
Theorem C04_octal_4 : forall c3 c2 c1 c0 d3 d2 d1 d0,
  odigit c3 = Some d3 -> odigit c2 = Some d2 -> odigit c1 = Some d1 -> odigit c0 = Some d0 ->
  parse_octal (String c3 (String c2 (String c1 (String c0 EmptyString)))) = OOk (512 * d3 + 64 * d2 + 8 * d1 + d0).
Proof. exact parse_octal_4. Qed.

(* copy / template / file: after a successful real run the declared state holds - for every
   content (any byte string), every mode, every world - outside the recorded classes K9 *)
Theorem C04_fs_declared_state : forall e t s ch s',
  run_task e t false s = (ROk ch, s') -> wf_task t -> no_alias t (sw s) = true ->
  known_type_mismatch t (sw s) = false -> known_absent_dangling t (sw s) = false ->
  declared_b t (sw s) (sw s') = true.
Proof. exact fs_declared. Qed.

(* honest change report: ok => nothing at all was done (outside K8); changed => the target differs *)
Theorem C04_fs_ok_means_unchanged : forall e t s s',
  run_task e t false s = (ROk false, s') -> known_empty_create e t (sw s) = false -> s' = s.
Proof. exact fs_ok_means_unchanged. Qed.
Theorem C04_fs_changed_means_differs : forall e t s s',
  run_task e t false s = (ROk true, s') -> wf_task t ->
  lstat (sw s') (target t) <> lstat (sw s) (target t) \/ stat (sw s') (target t) <> stat (sw s) (target t).
Proof. exact fs_changed_means_differs. Qed.

(* pacman: requested packages present / absent / exactly the explicit set (outside K19), and
   changed is reported iff the package state changes *)
Theorem C04_pacman_declared_state : forall p s,
  known_sync_dependency p (pdb s) = false ->
  let d' := pdb (snd (pacman p false s)) in
  pdeclared_b p d' = true
  /\ (pp_upgrade p = true -> upgradable d' = false)
  /\ (pp_update_cache p = true -> dbver d' = upstream (pdb s)).
Proof. exact pacman_declared. Qed.
(* ok: package sets and installed level untouched; without update_cache the whole database is *)
Theorem C04_pacman_ok_means_unchanged : forall p s,
  pr_changed (fst (pacman p false s)) = false ->
  let d' := pdb (snd (pacman p false s)) in
  installed d' = installed (pdb s) /\ explicit d' = explicit (pdb s) /\ sysver d' = sysver (pdb s)
  /\ (pp_update_cache p = false -> d' = pdb s).
Proof. exact pacman_unchanged_db. Qed.
Theorem C04_pacman_changed_means_differs : forall p s,
  known_sync_dependency p (pdb s) = false ->
  pr_changed (fst (pacman p false s)) = true -> db_differs (pdb s) (pdb (snd (pacman p false s))).
Proof. exact pacman_changed_db. Qed.

(* the full-strength statements are false on the faithful model: witnesses of K8, K9, K19 *)
Theorem C04_changed_iff_refuted_K8 :
  let t := TCopy {| cp_input := IContent ""; cp_dest := ["d"%string]; cp_mode := MNone |} in
  let r := run_task env0 t false {| sw := w_empty; slog := [] |} in
  fst r = ROk false /\ sw (snd r) ["d"%string] <> w_empty ["d"%string]
  /\ known_empty_create env0 t w_empty = true
  /\ fst (run_task env0 (TCopy {| cp_input := IContent ""; cp_dest := ["d"%string]; cp_mode := MStr "0600" |}) true
            {| sw := w_empty; slog := [] |}) = ROk true
  /\ fst (run_task env0 (TCopy {| cp_input := IContent ""; cp_dest := ["d"%string]; cp_mode := MStr "0644" |}) false
            {| sw := w_empty; slog := [] |}) = ROk false
  /\ known_empty_create env0 (TCopy {| cp_input := IContent ""; cp_dest := ["d"%string]; cp_mode := MStr "0600" |}) w_empty = false
  /\ known_empty_create env0 (TCopy {| cp_input := IContent ""; cp_dest := ["d"%string]; cp_mode := MStr "0644" |}) w_empty = true
  /\ fst (run_task env0 (TCopy {| cp_input := IContent ""; cp_dest := ["d"%string]; cp_mode := MStr "0600" |}) false
            {| sw := w_empty; slog := [] |}) = ROk true
  /\ tmp_like_create env0.
Proof. exact K8_changed_iff_refuted. Qed.
Theorem C04_sync_refuted_K19 :
  let d := {| installed := ["a"%string]; explicit := []; sysver := 0; dbver := 0; upstream := 0 |} in
  let p := {| pp_names := ["a"%string]; pp_state := PSync; pp_update_cache := false; pp_upgrade := false |} in
  let r := pacman p false {| pdb := d; plog := [] |} in
  pr_changed (fst r) = true /\ pdb (snd r) = {| installed := ["a"%string]; explicit := []; sysver := 0; dbver := 0; upstream := 0 |}
  /\ pdeclared_b p (pdb (snd r)) = false /\ known_sync_dependency p d = true.
Proof. exact K19_sync_refuted. Qed.
