(* C03 - check mode never modifies the managed system. Pinned statements only. *)
From Coq Require Import List String Bool NArith.
From RashV Require Import Fs StateMods Pacman StateProofs.
Import ListNotations.

(* any file/copy/template task, any parameters, any world, any outcome (ok, changed, error):
   in check mode the world is identical and no managed action is performed *)
Theorem C03_fs_check_mode_no_action :
  forall e t s, sw (snd (run_task e t true s)) = sw s
                /\ filter managed (slog (snd (run_task e t true s))) = filter managed (slog s).
Proof. exact run_task_check. Qed.

Theorem C03_pacman_check_mode_read_only :
  forall p s, pdb (snd (pacman p true s)) = pdb s
              /\ exists l, plog (snd (pacman p true s)) = plog s ++ l /\ forallb read_only l = true.
Proof. exact pacman_check. Qed.

Theorem C03_both_ways_enable_check :
  forall g k, effective_check g k = orb g k.
Proof. exact effective_check_spec. Qed.
