(* C15 - become changes only the credentials, not the result: what the parent reads back from
   the forked child is the child's store, for every value without an undefined inside. *)
From Coq Require Import List String Bool NArith.
From RashV Require Import JsonVal Become.
Import ListNotations.
Open Scope N_scope.

Theorem C15_store_roundtrip : forall v, stable v = true -> of_json (to_json v) = v.
Proof. exact roundtrip. Qed.

Theorem C15_parent_gets_the_childs_store : forall st, stable st = true -> parent_result (ChildOk st) = Some st.
Proof. exact become_same_store. Qed.

Theorem C15_undefined_does_not_survive_refuted : of_json (to_json MUndef) <> MUndef.
Proof. exact roundtrip_undefined_refuted. Qed.

(* the credentials: the module runs with the uid AND the primary gid of one passwd entry - the one
   named by become_user, or the one with that number (Become.v mirrors the lookup of exec_module) *)
Theorem C15_become_sets_uid_and_gid_of_the_entry : forall db cur p c,
  b_become p = true -> module_creds db cur p = Some c -> c <> cur ->
  exists u, In u db /\ c_uid c = u_uid u /\ c_gid c = u_gid u /\
            (u_name u = b_user p \/ parse_u32 (b_user p) = Some (u_uid u)).
Proof. exact become_sets_uid_and_gid_of_the_entry. Qed.

(* the main rash process keeps its own credentials afterwards (unless it hands the process over) *)
Theorem C15_main_process_keeps_its_credentials : forall db cur p,
  path_of db cur p <> DropThenExec -> main_creds_after db cur p = cur.
Proof. exact main_process_keeps_its_credentials. Qed.

Theorem C15_without_become_nothing_changes : forall db cur p,
  b_become p = false -> path_of db cur p = InProcess /\ module_creds db cur p = Some cur.
Proof. exact no_become_no_change. Qed.

Theorem C15_unknown_user_fails_the_task : forall db cur p,
  b_become p = true -> lookup_user db (b_user p) = None -> path_of db cur p = UserNotFound /\ module_creds db cur p = None.
Proof. exact unknown_user_fails. Qed.


(* command line and task keywords: `--become` applies to every task; a task's own become_user wins over `-u` *)
Theorem C15_task_become_user_wins_over_the_command_line : forall g u, effective_user g (Some u) = u.
Proof. exact task_user_wins. Qed.

(* "the main rash process keeps its own credentials afterwards" fails on the transfer_pid path: K32 *)
Theorem C15_main_credentials_lost_on_handover_refuted_K32 :
  let db := [ {| u_name := "root"%string; u_uid := 0; u_gid := 0 |}; {| u_name := "nobody"%string; u_uid := 65534; u_gid := 65534 |} ] in
  let cur := {| c_uid := 0; c_gid := 0 |} in
  let p := {| b_become := true; b_user := "nobody"%string; b_is_command := true; b_transfer_pid := true |} in
  path_of db cur p = DropThenExec /\ main_creds_after db cur p = {| c_uid := 65534; c_gid := 65534 |} /\ main_creds_after db cur p <> cur.
Proof. exact main_credentials_lost_on_handover_refuted_K32. Qed.
