(* C15 - become changes only the credentials, not the result: what the parent reads back from
   the forked child is the child's store, for every value without an undefined inside. *)
From Coq Require Import List String Bool.
From RashV Require Import JsonVal.

Theorem C15_store_roundtrip : forall v, stable v = true -> of_json (to_json v) = v.
Proof. exact roundtrip. Qed.

Theorem C15_parent_gets_the_childs_store : forall st, stable st = true -> parent_result (ChildOk st) = Some st.
Proof. exact become_same_store. Qed.

Theorem C15_undefined_does_not_survive_refuted : of_json (to_json MUndef) <> MUndef.
Proof. exact roundtrip_undefined_refuted. Qed.
