(* C14 - transfer_pid hands the process over to the command intact (the logic around execvp;
   that execve keeps the PID and setuid/setgid drop privileges is the kernel's contract). *)
From Coq Require Import List String Bool NArith.
From RashV Require Import Exec Become.
Import ListNotations.

Theorem C14_argv_exactly_as_given : forall chdir prog rest,
  exec_request {| tp_chdir := chdir; tp_req := RArgv (prog :: rest) |} =
  Some {| x_prog := prog; x_args := rest; x_cwd := chdir |}.
Proof. exact argv_exact. Qed.

Theorem C14_cmd_words_are_clean : forall s, Forall (fun w => w <> ""%string /\ no_ws w = true) (split_ws s).
Proof. exact cmd_words_clean. Qed.

Theorem C14_no_task_after_transfer : forall pre p req post,
  exec_request p = Some req -> run (map SNormal pre ++ STransfer p true :: post) = (pre, Replaced req).
Proof. exact no_task_after_transfer. Qed.

Theorem C14_exec_failure_is_an_error : forall pre p post,
  run (map SNormal pre ++ STransfer p false :: post) = (pre, Failed).
Proof. exact exec_failure_is_reported. Qed.

(* under become a transfer_pid command never forks: the process that execs is the main one (same PID),
   carrying the uid and the primary gid of the looked-up passwd entry *)
Theorem C14_transfer_under_become_keeps_the_process_and_takes_the_users_credentials : forall db cur p u,
  b_become p = true -> b_is_command p = true -> b_transfer_pid p = true ->
  lookup_user db (b_user p) = Some u -> u_uid u <> c_uid cur ->
  path_of db cur p = DropThenExec /\ module_creds db cur p = Some {| c_uid := u_uid u; c_gid := u_gid u |}.
Proof. exact transfer_under_become_does_not_fork. Qed.
