(* C06 - check mode predicts the real run's changed/ok status. Pinned statements only. *)
From Coq Require Import List String Ascii Bool NArith.
From RashV Require Import Fs Octal StateMods Pacman StateSpec SeqSpec TemplatePacmanProofs StateProofs.
Import ListNotations.

Theorem C06_fs_check_predicts_real : forall e t s c1 s1 c2 s2,
  run_task e t true s = (ROk c1, s1) -> run_task e t false s = (ROk c2, s2) ->
  no_alias t (sw s) = true -> known_empty_create e t (sw s) = false -> tmp_like_create e -> c1 = c2.
Proof. exact fs_predicts. Qed.

Theorem C06_fs_check_ok_means_real_run_does_nothing : forall e t s s1 c2 s2,
  run_task e t true s = (ROk false, s1) -> run_task e t false s = (ROk c2, s2) ->
  no_alias t (sw s) = true -> known_empty_create e t (sw s) = false -> tmp_like_create e -> c2 = false /\ s2 = s.
Proof. exact fs_check_ok_means_real_noop. Qed.

(* pacman: changed, packages to install, packages to remove and `upgraded` are identical, unless the
   refresh that check mode must skip would change the answer to "upgradable?" (K24) *)
Theorem C06_pacman_check_predicts_real : forall p s,
  known_check_skips_refresh p (pdb s) = false -> fst (pacman p true s) = fst (pacman p false s).
Proof. exact pacman_predicts. Qed.
Theorem C06_pacman_refuted_K24 :
  let d := {| installed := []; explicit := []; sysver := 1; dbver := 1; upstream := 2 |} in
  let p := {| pp_names := []; pp_state := PPresent; pp_update_cache := true; pp_upgrade := true |} in
  pr_changed (fst (pacman p true {| pdb := d; plog := [] |})) = false
  /\ pr_changed (fst (pacman p false {| pdb := d; plog := [] |})) = true
  /\ known_check_skips_refresh p d = true.
Proof. exact K24_check_skips_refresh_refuted. Qed.

(* the theorems above speak of runs that both succeed; "check mode reports a status, the real run fails"
   is a misprediction too, and the code has it: K28 *)
Theorem C06_check_misses_failure_refuted_K28 :
  let t := TFile {| fp_path := ["np"; "d"]%string; fp_state := STouch; fp_mode := None |} in
  fst (run_task env0 t true {| sw := w_empty; slog := [] |}) = ROk true
  /\ fst (run_task env0 t false {| sw := w_empty; slog := [] |}) = RErr
  /\ (let c := TCopy {| cp_input := IContent "x"; cp_dest := ["np"; "d"]%string; cp_mode := MNone |} in
      fst (run_task env0 c true {| sw := w_empty; slog := [] |}) = ROk true
      /\ fst (run_task env0 c false {| sw := w_empty; slog := [] |}) = RErr).
Proof. exact K28_check_misses_failure_refuted. Qed.
