(* C17 - include runs the file in the caller's context and restores script identity. Pinned statements only. *)
From Coq Require Import List String Bool.
From RashV Require Import Engine EngineProofs.
Import ListNotations.

Theorem C17_identity_inside_and_restored_after : forall q root fs run_inc t st ext file its evs r,
  t_mod t = MInclude file -> find_file fs file = Some (Some its) ->
  exec_mod q root fs run_inc t st ext = MOk evs r ->
  (exists res, run_inc its (("rash"%string, builtins root file) :: st) = (evs, Ok res)) /\
  lookup (("rash"%string, builtins root file) :: st) "rash" = builtins root file /\
  (forall k, k <> "rash"%string -> lookup (("rash"%string, builtins root file) :: st) k = lookup st k) /\
  lookup (m_vars r) "rash" = lookup st "rash".
Proof. exact include_identity. Qed.

Theorem C17_failure_inside_fails_the_include : forall q root fs run_inc t st ext file its evs,
  t_mod t = MInclude file -> find_file fs file = Some (Some its) ->
  run_inc its (("rash"%string, builtins root file) :: st) = (evs, Fail) ->
  exec_mod q root fs run_inc t st ext = MErr evs None.
Proof. exact include_failure_propagates. Qed.

Theorem C17_invalid_included_file_runs_none_of_its_tasks : forall q root fs run_inc t st ext file,
  t_mod t = MInclude file -> find_file fs file = Some None ->
  exec_mod q root fs run_inc t st ext = MErr [] None.
Proof. exact invalid_include_runs_nothing. Qed.

(* "in the caller's context" read as "its writes reach the caller" is false of the code: K4 *)
Theorem C17_include_writes_persist_refuted_K4 :
  let inc := [tk (MSetVars [("a"%string, [TLit "new"])])] in
  let ts := [tk (MSetVars [("a"%string, [TLit "old"])]); tk (MInclude "inc"); tk (MDebugMsg [TVar ["a"%string]])] in
  fst (run0 mirror_quirks [("inc"%string, Some inc)] ts) = [EvOut ""; EvOut ""; EvOut "old"] /\
  fst (run0 spec_quirks [("inc"%string, Some inc)] ts) = [EvOut ""; EvOut ""; EvOut "new"].
Proof. exact K4_refuted. Qed.
