(* C09 - argument parsing is deterministic. After the fix of K11 the usage that is matched is
   the first matching one of the SORTED expanded usages: the choice is independent of the
   order in which the hash set yields them, for every set of usages and every matcher. *)
From Coq Require Import List String Bool Permutation.
From RashV Require Import Order OrderProofs Tail TailProofs OptLookup.
Import ListNotations.

Theorem C09_sorted_choice_is_order_independent :
  forall matches us us', Permutation us us' -> choose matches us = choose matches us'.
Proof. exact choose_order_independent. Qed.

Theorem C09_sort_is_canonical : forall l l', Permutation l l' -> sort l = sort l'.
Proof. exact sort_perm. Qed.

(* the pre-fix behaviour (first match in iteration order) is order dependent: witness of K11 *)
Theorem C09_unsorted_choice_refuted :
  exists (m : string -> bool) us us', Permutation us us' /\ find m us <> find m us'.
Proof. exact unsorted_choice_refuted. Qed.

(* on the mirror of the whole last stage (sort, classify, seed, first match, bind, merge, help):
   acceptance AND variables are independent of the order the hash set yields the expanded usages *)
Theorem C09_tail_result_is_order_independent : forall t argv us us',
  Permutation us us' -> parse_tail t argv us = parse_tail t argv us'.
Proof. exact parse_tail_order_independent. Qed.

(* which usage wins when several fit: the first one in the (sorted) order, and only that one *)
Theorem C09_tail_first_fitting_usage_wins : forall t argv us,
  match first_match t argv us with
  | Some (Some l) => exists pre ds post, us = pre ++ ds :: post /\ fits t argv ds l /\ Forall (misfits t argv) pre
  | Some None => Forall (misfits t argv) us
  | None => exists ds, In ds us /\ List.length argv = List.length ds /\ bind_list t argv ds ds = None
  end.
Proof. exact first_match_spec. Qed.

(* K49 (fixed): which description answers for an option name.  Options::find takes the SMALLEST matching description in
   the derived order of OptionArg - shown here to be a total order - so the answer is the same for every order in which
   the hash set yields the descriptions; on a table without shared names it is the lookup the Tail mirror uses *)
Theorem C09_option_lookup_is_order_independent : forall t t' arg, Permutation t t' -> ofind_min t arg = ofind_min t' arg.
Proof. exact option_lookup_is_order_independent. Qed.
Theorem C09_option_lookup_on_distinct_names : forall t arg,
  (forall x y, In x t -> In y t -> oeq (od_long x) arg = true -> oeq (od_long y) arg = true -> x = y) ->
  (forall x y, In x t -> In y t -> oeq (od_short x) arg = true -> oeq (od_short y) arg = true -> x = y) ->
  ofind_min t arg = ofind t arg.
Proof. exact option_lookup_unique_is_find. Qed.
(* the pre-fix lookup (first match of the enumeration) on `-v --verbose` / `-v --version` *)
Theorem C09_first_match_lookup_refuted_K49 :
  let a := {| od_kind := OSimple; od_short := Some "-v"; od_long := Some "--verbose" |} in
  let b := {| od_kind := OSimple; od_short := Some "-v"; od_long := Some "--version" |} in
  ofind_min [a; b] "-v" = Some a /\ ofind_min [b; a] "-v" = Some a /\ ofind [a; b] "-v" <> ofind [b; a] "-v".
Proof. exact shared_short_name. Qed.
