(* C09 - argument parsing is deterministic. After the fix of K11 the usage that is matched is
   the first matching one of the SORTED expanded usages: the choice is independent of the
   order in which the hash set yields them, for every set of usages and every matcher. *)
From Coq Require Import List String Bool Permutation.
From RashV Require Import Order OrderProofs Tail TailProofs.
Import ListNotations.

Theorem C09_sorted_choice_is_order_independent :
  forall matches us us', Permutation us us' -> choose matches us = choose matches us'.
Proof. exact choose_order_independent. Qed.

Theorem C09_sort_is_canonical : forall l l', Permutation l l' -> sort l = sort l'.
Proof. exact sort_perm. Qed.

(* the pre-fix behaviour (first match in iteration order) is order dependent: witness of K11 *)
Theorem C09_unsorted_choice_refuted :
  exists (m : string -> bool) us us', Permutation us us' /\ find m us <> find m us'.
Proof. exact unsorted_choice_refuted. Qed.

(* on the mirror of the whole last stage (sort, classify, seed, first match, bind, merge, help):
   acceptance AND variables are independent of the order the hash set yields the expanded usages *)
Theorem C09_tail_result_is_order_independent : forall t argv us us',
  Permutation us us' -> parse_tail t argv us = parse_tail t argv us'.
Proof. exact parse_tail_order_independent. Qed.

(* which usage wins when several fit: the first one in the (sorted) order, and only that one *)
Theorem C09_tail_first_fitting_usage_wins : forall t argv us,
  match first_match t argv us with
  | Some (Some l) => exists pre ds post, us = pre ++ ds :: post /\ fits t argv ds l /\ Forall (misfits t argv) pre
  | Some None => Forall (misfits t argv) us
  | None => exists ds, In ds us /\ List.length argv = List.length ds /\ bind_list t argv ds ds = None
  end.
Proof. exact first_match_spec. Qed.
