(* C13 - rash never panics, aborts, overflows the stack or hangs. PARTIAL: a Gallina function is
   total by construction, so what is proved is (a) that the MODELLED panic sites return a value
   or an error for every input after the fixes (with the pre-fix code refuted), and (b) the growth
   law that explains K15. Everything else about C13 is the deadline-supervised exploration. *)
From Coq Require Import List String Bool NArith.
From RashV Require Import Octal Engine EngineProofs Robust.

Theorem C13_help_check_never_panics : forall v, help_check v <> OPanic.
Proof. exact help_check_never_panics. Qed.
Theorem C13_help_check_old_refuted : help_check_old (Some (JvStr "v")) = OPanic.
Proof. exact help_check_old_refuted. Qed.

Theorem C13_parse_octal_total : forall s, exists r, parse_octal s = r /\ (r = OErr \/ exists n, r = OOk n /\ (n < 4096)%N).
Proof. exact parse_octal_total. Qed.

Theorem C13_mirror_store_grows_with_items_K15 : forall root fs run_inc t its ctx evs ctx',
  writes (t_mod t) = false -> t_register t = None ->
  exec_items mirror_quirks root fs run_inc t its ctx = (evs, Ok ctx') ->
  (List.length ctx' = List.length ctx + List.length its)%nat.
Proof. exact mirror_store_grows_with_items. Qed.
