(* C08 - every argument vector in the documented usage language is accepted.
   Soundness of the reference (a reported rejection is a real member of the language),
   completeness (no member is missed) and the laws that pin the reading of syntax.md. *)
From Coq Require Import List String Bool.
From RashV Require Import Usage UsageProofs Tail TailProofs HelpDoc HelpDocProofs UsageDoc UsageDocProofs.
Import ListNotations.

Theorem C08_reference_sound :
  forall p ws b r, In (b, r) (mtch p ws) -> exists w, ws = w ++ r /\ Matches p w b.
Proof. exact sound_all. Qed.

Theorem C08_reference_complete :
  forall p w b, Matches p w b -> forall r, In (b, r) (mtch p (w ++ r)).
Proof. exact complete_all. Qed.

(* "<x>..." is one or more: x followed by optionally more *)
Theorem C08_repeat_unrolls :
  forall p w b, Matches (Repeat p) w b <-> Matches (Seq [p; Optional (Repeat p)]) w b.
Proof. exact Repeat_unroll. Qed.

(* "[<file>...]" and "[<file>]..." both mean zero or more *)
Theorem C08_zero_or_more_two_ways :
  forall p w b, Matches (Optional (Repeat p)) w b <-> Matches (Repeat (Optional p)) w b.
Proof. exact zero_or_more_two_ways. Qed.

(* several usage lines work exactly like "|" *)
Theorem C08_usage_lines_are_alternatives :
  forall ls w b, Matches (usage_lines ls) w b <-> exists l, In l ls /\ Matches (desugar l) w b.
Proof. exact usage_lines_is_alt. Qed.

(* the last stage of the code's parser (Tail.v mirrors it; the hooks feed it what the code computed):
   "no match" is reported only when NO expanded usage fits the arguments ... *)
Theorem C08_tail_rejects_only_when_no_usage_fits : forall t argv usages,
  tail t argv usages = TNoMatch -> forall ds l, In ds (tail_defs usages) -> ~ fits t argv ds l.
Proof. exact tail_rejects_only_when_no_usage_fits. Qed.

(* ... and when some expanded usage fits (usages well formed, nothing panics) the arguments are accepted *)
Theorem C08_tail_accepts_when_some_usage_fits : forall t argv usages ds l,
  kinds_valid (map words_of_usage usages) = true ->
  In ds (tail_defs usages) -> fits t argv ds l ->
  (forall d, In d (tail_defs usages) -> List.length argv = List.length d -> bind_list t argv d d <> None) ->
  tail t argv usages = THelp \/ exists v, tail t argv usages = TVars v.
Proof. exact tail_accepts_when_some_usage_fits. Qed.

(* the front end (UsageDoc.v mirrors docopt::parse_usage; the hook feeds back what the code read): a usage
   section written the documented way - `Usage:` alone on its line, the patterns indented below it, then an
   empty line - yields exactly those patterns, whatever text follows *)
Theorem C08_multiline_usage_section_is_read_verbatim : forall pats tail,
  Forall pattern_ok pats ->
  parse_usage_multiline (usage_nl ++ block pats ++ String nlc tail) = Some pats.
Proof. exact multiline_section_is_read_verbatim. Qed.

(* ... while the other documented layout (first pattern on the `Usage:` line, the rest below) loses every
   pattern but the first: K13-usage-continuation-lines *)
Theorem C08_continuation_lines_refuted :
  usages_of_file (join_nl ["#!/usr/bin/env rash"; "#"; "# Usage: prog run [fast]"; "#        prog jump [high]"; "#"; "- debug:"; "    msg: x"]%string)
  = Some ["prog run [fast]"%string].
Proof. exact continuation_lines_refuted. Qed.
