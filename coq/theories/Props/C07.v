(* C07 - accepted arguments really match a usage pattern and are bound faithfully.
   The theorems certify the REFERENCE matcher (the oracle of the sweep) against the inductive
   definition of the documented language; the code is tied to it by the bounded exhaustive sweep. *)
From Coq Require Import List String Bool Permutation.
From RashV Require Import Usage UsageProofs Tail TailProofs.
Import ListNotations.

(* the executable matcher accepts with bindings b exactly when the documented relation holds *)
Theorem C07_reference_matcher_decides_language :
  forall p ws b, In b (accepts p ws) <-> Matches p ws b.
Proof. exact accepts_iff. Qed.

(* every argument is accounted for exactly once, in command-line order, nothing invented:
   reading the bindings back gives exactly the token list *)
Theorem C07_every_argument_accounted_once :
  forall p ws bs, Matches p ws bs -> map tok_of_bind bs = ws.
Proof. exact Matches_accounts. Qed.

(* the "options may be given anywhere" check used by the sweep only relates token lists that
   are permutations of each other with the same sequence of non-option words *)
Theorem C07_rearrangement_check_sound :
  forall a b, rearr_b a b = true -> Permutation a b /\ words_of a = words_of b.
Proof. exact rearr_b_sound. Qed.

(* the mirror of the code's LAST stage (fed by the rash_verif hook with what the code computed): a
   usage that matches binds every argument exactly once and in order - commands under their own
   name, positionals verbatim, options through Options::parse *)
Theorem C07_tail_binds_every_word_once : forall t alldefs argv ds l,
  bind_list t argv ds alldefs = Some (Some l) ->
  Forall2 (fun ad v => bound t alldefs (fst ad) (snd ad) v) (combine argv ds) l /\ List.length argv = List.length ds.
Proof. exact matching_usage_binds_every_word_once. Qed.

Theorem C07_tail_positional_is_verbatim : forall arg def,
  exists key, parse_positional arg def = JObj [(key, JStr arg)] \/ parse_positional arg def = JObj [(key, JArr [arg])].
Proof. exact positional_is_verbatim. Qed.
