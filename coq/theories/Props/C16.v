(* C16 - find returns exactly the entries that satisfy all criteria. Pinned statements only. *)
From Coq Require Import List String Bool Permutation.
From RashV Require Import Find FindProofs.
Import ListNotations.

(* an entry is listed iff it lies under one of the roots (within the depth limit, not below a
   hidden name unless hidden is set) and satisfies type, size, patterns and excludes *)
Theorem C16_exactly_the_satisfying_entries : forall p roots e,
  In e (find_impl p roots) <->
  exists pre t, In (pre, t) roots /\
                Member (f_hidden p) (if f_recurse p then None else Some 1) 0 pre t e /\ criteria p e = true.
Proof. exact find_iff. Qed.

(* each path once (sibling names distinct, as in a real directory) *)
Theorem C16_each_path_once : forall p pre t, wf t -> NoDup (map e_path (find_impl p [(pre, t)])).
Proof. exact find_nodup. Qed.

(* the result does not depend on the order in which a directory lists its entries *)
Theorem C16_listing_order_irrelevant : forall p pre n kids kids',
  Permutation kids kids' -> Permutation (find_impl p [(pre, D n kids)]) (find_impl p [(pre, D n kids')]).
Proof. exact find_listing_order_irrelevant. Qed.
