(* C12 - values reach string parameters verbatim: single-pass rendering, no injection.
   The theorems are about the pipelines of jinja::_render / set_vars over an abstract evaluator
   (minijinja and serde_yaml are NOT modelled): each is a statement "for every evaluator that
   satisfies the stated laws"; the laws are what the correspondence run validates. *)
From Coq Require Import List String Bool.
From RashV Require Import Tpl Omit.

Theorem C12_text_without_delimiters_is_unchanged : forall render_tpl yaml_parse,
  Law_literal render_tpl -> forall t v, has_open t = false -> param_pipeline render_tpl yaml_parse true t v = Some (YStr t).
Proof. exact literal_param_verbatim. Qed.

Theorem C12_substituted_value_arrives_verbatim : forall render_tpl yaml_parse,
  Law_substitute render_tpl -> forall v, param_pipeline render_tpl yaml_parse true "{{ x }}" v = Some (YStr v).
Proof. exact substituted_param_verbatim. Qed.

Theorem C12_set_vars_keeps_plain_strings : forall render_tpl yaml_parse,
  Law_literal render_tpl -> Law_substitute render_tpl -> Law_yaml_plain yaml_parse ->
  forall v, known_retyped v = false -> set_vars_pipeline render_tpl yaml_parse "{{ x }}" v = Some (YStr v).
Proof. exact set_vars_keeps_plain_strings. Qed.

Theorem C12_vars_keep_plain_strings : forall render_tpl yaml_parse,
  Law_substitute render_tpl -> Law_yaml_plain yaml_parse ->
  forall v, plain_string v = true -> param_pipeline render_tpl yaml_parse false "{{ x }}" v = Some (YStr v).
Proof. exact typed_param_keeps_plain_strings. Qed.

(* the full statement (every string, every channel) is false of the code: K6, K7 *)
Theorem C12_set_vars_single_pass_refuted_K6 :
  set_vars_pipeline toy_render toy_yaml "{{ x }}" "{{ 1 + 1 }}" = Some (YNum "2") /\ known_retyped "{{ 1 + 1 }}" = true.
Proof. exact set_vars_single_pass_refuted_K6. Qed.
Theorem C12_typed_string_preserved_refuted_K7 :
  param_pipeline toy_render toy_yaml false "{{ x }}" "k: v" = Some YOther /\ known_retyped "k: v" = true.
Proof. exact typed_string_preserved_refuted_K7. Qed.

(* "a parameter whose template yields `omit` is dropped and the others are unaffected": on the mirror
   of jinja::render_map, for every way single strings render (the oracle [rnd]), an entry that yields
   the placeholder is exactly as if it had not been written - for the rendered mapping and for the
   variables seen afterwards - and nothing appears in the result that the mapping does not contain *)
Theorem C12_omitted_entry_is_as_if_absent : forall tpl (rnd : ostore -> tpl -> rres) a cur k t b,
  (forall c, ctx_after tpl rnd cur a = Some c -> rnd c t = ROmit) ->
  render_map_o tpl rnd cur (a ++ (k, t) :: b) = render_map_o tpl rnd cur (a ++ b).
Proof. exact omitted_entry_is_as_if_absent. Qed.
Theorem C12_omitted_entry_leaves_the_context : forall tpl (rnd : ostore -> tpl -> rres) a cur k t b,
  (forall c, ctx_after tpl rnd cur a = Some c -> rnd c t = ROmit) ->
  ctx_after tpl rnd cur (a ++ (k, t) :: b) = ctx_after tpl rnd cur (a ++ b).
Proof. exact omitted_entry_leaves_the_context. Qed.
Theorem C12_rendered_keys_come_from_the_mapping : forall tpl (rnd : ostore -> tpl -> rres) kvs cur res,
  render_map_o tpl rnd cur kvs = Some res -> subseq_keys tpl res kvs.
Proof. exact result_keys_come_from_the_mapping. Qed.
Theorem C12_without_omit_nothing_differs : forall tpl (rnd : ostore -> tpl -> rres) kvs cur,
  (forall c t, rnd c t <> ROmit) -> render_map_o tpl rnd cur kvs = render_map_plain tpl rnd cur kvs.
Proof. exact without_omit_nothing_differs. Qed.
