(* C02 - templates see exactly the variables established by earlier tasks. Pinned statements only. *)
From Coq Require Import List String Bool.
From RashV Require Import Engine EngineProofs EnvModel.
Import ListNotations.

Theorem C02_set_vars_latest_write_wins : forall l st k,
  lookup (fold_left (fun acc '(k, v) => (k, VStr v) :: acc) l st) k =
  match last_write l k with Some v => VStr v | None => lookup st k end.
Proof. exact set_vars_lookup. Qed.

Theorem C02_task_vars_and_params_do_not_persist : forall q root fs run_inc t st evs st',
  writes (t_mod t) = false -> t_register t = None ->
  exec_module q root fs run_inc t st = (evs, Ok st') -> st' = st.
Proof. exact task_vars_do_not_persist. Qed.

Theorem C02_register_visible_afterwards : forall q root fs run_inc t st ext evs r reg evs' st',
  extend_vars t st = Some ext ->
  (match t_when t with Some e => cond ext e | None => Some true end) = Some true ->
  exec_mod q root fs run_inc t st ext = MOk evs r -> t_register t = Some reg -> t_changed_when t = None ->
  exec_module q root fs run_inc t st = (evs', Ok st') ->
  lookup st' reg = result_val (m_changed r) (m_output r) (m_extra r) /\
  forall k, k <> reg -> lookup st' k = lookup (m_vars r) k.
Proof. exact register_visible. Qed.

Theorem C02_skipped_task_leaves_store : forall q root fs run_inc t st ext e,
  extend_vars t st = Some ext -> t_when t = Some e -> cond ext e = Some false ->
  exec_module q root fs run_inc t st = ([], Ok st).
Proof. exact skipped_has_no_effect. Qed.

Theorem C02_ignored_failure_leaves_store : forall q root fs run_inc t st ext evs msg,
  extend_vars t st = Some ext ->
  (match t_when t with Some e => cond ext e | None => Some true end) = Some true ->
  exec_mod q root fs run_inc t st ext = MErr evs msg -> t_ignore t = true ->
  exec_module q root fs run_inc t st = (evs ++ [ignored_event msg], Ok st).
Proof. exact ignored_failure_continues. Qed.

(* with the property-text switches a loop over a non-writing module restores the store: `item`
   shadows only inside the loop *)
Theorem C02_spec_loop_restores_store : forall root fs run_inc t its ctx evs ctx',
  writes (t_mod t) = false -> t_register t = None ->
  exec_items spec_quirks root fs run_inc t its ctx = (evs, Ok ctx') -> ctx' = ctx.
Proof. exact spec_loop_restores_store. Qed.

(* the code deviates: K2 (item leaks), K3 (task vars not seen by assert/changed_when/debug var),
   K4 (include drops writes) - each refuted by a witness on the mirror *)
Theorem C02_item_restored_refuted_K2 :
  let t1 := {| t_when := None; t_loop := Some [[TLit "x"]; [TLit "y"]]; t_register := None; t_vars := [];
               t_ignore := false; t_changed_when := None; t_mod := MDebugMsg [TVar ["item"%string]] |} in
  let t2 := tk (MDebugMsg [TExp (EDefined ["item"%string])]) in
  fst (run0 mirror_quirks [] [t1; t2]) = [EvOut "x"; EvOut "y"; EvOut "true"] /\
  fst (run0 spec_quirks [] [t1; t2]) = [EvOut "x"; EvOut "y"; EvOut "false"].
Proof. exact K2_refuted. Qed.

Theorem C02_task_vars_seen_by_assert_refuted_K3 :
  let t1 := {| t_when := None; t_loop := None; t_register := None; t_vars := [("a"%string, [TLit "inner"])];
               t_ignore := false; t_changed_when := None; t_mod := MAssert [EEq (EVar ["a"%string]) (EStr "inner")] |} in
  run0 mirror_quirks [] [t1] = ([], Fail) /\ run0 spec_quirks [] [t1] = ([EvOut ""], Ok []).
Proof. exact K3_refuted. Qed.

Theorem C02_include_writes_persist_refuted_K4 :
  let inc := [tk (MSetVars [("a"%string, [TLit "new"])])] in
  let ts := [tk (MSetVars [("a"%string, [TLit "old"])]); tk (MInclude "inc"); tk (MDebugMsg [TVar ["a"%string]])] in
  fst (run0 mirror_quirks [("inc"%string, Some inc)] ts) = [EvOut ""; EvOut ""; EvOut "old"] /\
  fst (run0 spec_quirks [("inc"%string, Some inc)] ts) = [EvOut ""; EvOut ""; EvOut "new"].
Proof. exact K4_refuted. Qed.

(* -e KEY=VALUE: the last override wins, other variables are untouched; child commands inherit the
   same process environment (vars/env.rs sets the variables in the process before reading them back) *)
Theorem C02_env_override : forall pairs e k,
  elookup (env_load pairs e) k = match last_pair pairs k with Some v => Some v | None => elookup e k end.
Proof. exact env_override. Qed.
