(* C05 - re-applying a state task is a no-op reported as unchanged. Pinned statements only. *)
From Coq Require Import List String Ascii Bool NArith.
From RashV Require Import Fs Octal StateMods Pacman StateSpec TemplatePacmanProofs StateProofs.
Import ListNotations.

(* whatever the first successful run did, the identical task applied to the world it left
   performs no action at all (the action log is returned untouched) and reports ok *)
Theorem C05_fs_reapply_is_noop : forall e t s ch s',
  run_task e t false s = (ROk ch, s') -> wf_task t -> no_alias t (sw s) = true ->
  forall l, run_task e t false {| sw := sw s'; slog := l |} = (ROk false, {| sw := sw s'; slog := l |}).
Proof. exact fs_idempotent. Qed.

(* pacman: after a real run nothing remains to install or remove (outside K19) *)
Theorem C05_pacman_reapply_is_noop : forall p s,
  known_sync_dependency p (pdb s) = false ->
  let d' := pdb (snd (pacman p false s)) in
  to_install p d' = [] /\ to_remove p d' = [] /\ (pp_upgrade p = true -> upgradable d' = false).
Proof. exact pacman_idempotent. Qed.
(* ... and the identical task run again reports ok and leaves package sets, installed level and
   sync database exactly as the first run left them (refresh-then-query order matters here) *)
Theorem C05_pacman_second_run_reports_ok_and_changes_nothing : forall p s,
  known_sync_dependency p (pdb s) = false ->
  let s1 := snd (pacman p false s) in
  pr_changed (fst (pacman p false s1)) = false /\ pdb (snd (pacman p false s1)) = pdb s1.
Proof. exact pacman_second_run. Qed.

(* a second pass over a sequence whose tasks are all stable in the reached world does nothing *)
Theorem C05_pass_of_stable_tasks_is_noop : forall e ts w l,
  Forall (fun t => stable e t w) ts ->
  run_all e ts {| sw := w; slog := l |} = (map (fun _ => ROk false) ts, {| sw := w; slog := l |}).
Proof. exact pass_of_stable_tasks_is_noop. Qed.
