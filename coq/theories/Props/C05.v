(* C05 - re-applying a state task is a no-op reported as unchanged. Pinned statements only. *)
From Coq Require Import List String Ascii Bool NArith.
From RashV Require Import Fs Octal StateMods Pacman StateSpec SeqSpec TemplatePacmanProofs StateProofs Frame Sequences.
Import ListNotations.

(* whatever the first successful run did, the identical task applied to the world it left
   performs no action at all (the action log is returned untouched) and reports ok *)
Theorem C05_fs_reapply_is_noop : forall e t s ch s',
  run_task e t false s = (ROk ch, s') -> wf_task t -> no_alias t (sw s) = true ->
  forall l, run_task e t false {| sw := sw s'; slog := l |} = (ROk false, {| sw := sw s'; slog := l |}).
Proof. exact fs_idempotent. Qed.

(* pacman: after a real run nothing remains to install or remove (outside K19) *)
Theorem C05_pacman_reapply_is_noop : forall p s,
  known_sync_dependency p (pdb s) = false ->
  let d' := pdb (snd (pacman p false s)) in
  to_install p d' = [] /\ to_remove p d' = [] /\ (pp_upgrade p = true -> upgradable d' = false).
Proof. exact pacman_idempotent. Qed.
(* ... and the identical task run again reports ok and leaves package sets, installed level and
   sync database exactly as the first run left them (refresh-then-query order matters here) *)
Theorem C05_pacman_second_run_reports_ok_and_changes_nothing : forall p s,
  known_sync_dependency p (pdb s) = false ->
  let s1 := snd (pacman p false s) in
  pr_changed (fst (pacman p false s1)) = false /\ pdb (snd (pacman p false s1)) = pdb s1.
Proof. exact pacman_second_run. Qed.

(* a second pass over a sequence whose tasks are all stable in the reached world does nothing *)
Theorem C05_pass_of_stable_tasks_is_noop : forall e ts w l,
  Forall (fun t => stable e t w) ts ->
  run_all e ts {| sw := w; slog := l |} = (map (fun _ => ROk false) ts, {| sw := w; slog := l |}).
Proof. exact pass_of_stable_tasks_is_noop. Qed.

(* a task's outcome depends only on the nodes at the prefixes of its target and source (none of them a
   symbolic link): stability carries over to every world that agrees with the current one there *)
Theorem C05_stability_depends_only_on_what_the_task_reads : forall e t w w',
  stable e t w -> agree_b t w w' = true -> nolink_b t w = true -> stable e t w'.
Proof. exact stable_transfers. Qed.

(* "applying a whole sequence twice converges after one pass": whenever no later task of the first pass
   disturbs what an earlier one reads (noninterf_b, decidable and evaluated by the oracle on every
   generated sequence), the second pass reports ok for every task and leaves world and log untouched *)
Theorem C05_second_pass_over_a_sequence_is_a_noop : forall e ts s0 l,
  noninterf_b e ts s0 = true ->
  let w1 := sw (snd (run_all e ts s0)) in
  run_all e ts {| sw := w1; slog := l |} = (map (fun _ => ROk false) ts, {| sw := w1; slog := l |}).
Proof. exact second_pass_is_noop. Qed.

(* non-vacuity (three tasks sharing ancestors) and the reason for the condition (A-then-B on one path flips) *)
Theorem C05_sequence_condition_is_met_and_is_needed :
  (noninterf_b seq_env seq_ok {| sw := seq_w0; slog := [] |} = true
   /\ fst (run_all seq_env seq_ok {| sw := seq_w0; slog := [] |}) = [ROk true; ROk true; ROk true])
  /\ (noninterf_b seq_env seq_bad {| sw := seq_w0; slog := [] |} = false
      /\ let s1 := snd (run_all seq_env seq_bad {| sw := seq_w0; slog := [] |}) in
         fst (run_all seq_env seq_bad {| sw := sw s1; slog := [] |}) = [ROk true; ROk true]).
Proof. exact (conj seq_ok_satisfies seq_bad_is_excluded_and_really_flips). Qed.
