(* C10 - equivalent option spellings give identical variables. Every documented spelling of a
   token sequence (short/long, --opt=V / --opt V, -oV / -o V / -o=V, stacked short flags)
   canonicalises to that sequence, so two spellings of the same tokens are parsed identically
   by anything that parses the canonical tokens. *)
From Coq Require Import List String Bool.
From RashV Require Import Usage SpellProofs Tail TailProofs NormOpts NormOptsProofs.
Import ListNotations.

Theorem C10_every_spelling_canonicalises :
  forall t toks ws, wf_table t -> SpellAll t toks ws -> canon t ws = Some toks.
Proof. exact canon_spell. Qed.

Theorem C10_equivalent_spellings_same_tokens :
  forall t toks a b, wf_table t -> SpellAll t toks a -> SpellAll t toks b -> canon t a = canon t b.
Proof. exact same_tokens_same_canon. Qed.

(* stable shape, on the mirror of the code's last stage: every declared option has its key under
   `options` in the initial variables (false / 0 / null / its default) *)
Theorem C10_initial_vars_declare_every_option : forall t d,
  In d t -> has_key (options_of (initial_vars t)) (key_repr d) = true.
Proof. exact initial_vars_declares_every_option. Qed.

(* on the MIRROR of the code's own normalisation (Options::normalize_options, tied to the code by
   exact agreement on every traced pair): every documented spelling of a token sequence is
   normalised to the same canonical argument vector, for every well-formed option table *)
Theorem C10_code_normalises_every_spelling : forall t ks ws,
  wf_t t -> SpellNAll t ks ws -> Forall (tok_ok t) ks -> normalize_options t ws = Some (map cstr ks).
Proof. exact normalize_spelling. Qed.

(* values are arbitrary text that does not start with a dash - a value that is a bracket or a bar
   included (K48, fixed: such a value was also kept as a positional): `-o ]`, `--out=|` *)
Theorem C10_bracket_values_are_values :
  let t := [ {| od_kind := OWithParam None; od_short := Some "-o"; od_long := Some "--out" |} ] in
  normalize_options t ["-o"; "]"; "x"] = Some ["--out=]"; "x"]
  /\ normalize_options t ["--out=|"] = Some ["--out=|"]
  /\ normalize_usage_words t ["["; "-o"; "]"; "x"] = Some ["["; "--out=]"; "]"; "x"].
Proof. exact norm_bracket_value. Qed.
