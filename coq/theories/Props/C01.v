(* C01 - tasks run in order, once per loop item, and stop at the first unignored failure.
   Statements hold for every program, every store, every setting of the quirk switches and
   every way included files are run. Pinned statements only. *)
From Coq Require Import List String Bool.
From RashV Require Import Engine EngineProofs.
Import ListNotations.

Theorem C01_stop_at_first_failure : forall q root fs run_inc ts1 t ts2 st e1 st1 et,
  exec_list q root fs run_inc ts1 st = (e1, Ok st1) -> exec_task q root fs run_inc t st1 = (et, Fail) ->
  exec_list q root fs run_inc (ts1 ++ t :: ts2) st = (e1 ++ et, Fail).
Proof. exact stop_at_first_failure. Qed.

Theorem C01_success_runs_every_task_once_in_order : forall q root fs run_inc ts st evs st',
  exec_list q root fs run_inc ts st = (evs, Ok st') -> Chain q root fs run_inc ts st evs st'.
Proof. exact success_is_chain. Qed.

Theorem C01_loop_stops_at_failing_item : forall q root fs run_inc t its1 it its2 ctx e1 c1 ei,
  q_item_leaks q = true ->
  exec_items q root fs run_inc t its1 ctx = (e1, Ok c1) ->
  exec_module q root fs run_inc t (("item"%string, VStr it) :: c1) = (ei, Fail) ->
  exec_items q root fs run_inc t (its1 ++ it :: its2) ctx = (e1 ++ ei, Fail).
Proof. exact loop_stops_at_failing_item. Qed.

Theorem C01_skipped_has_no_effect : forall q root fs run_inc t st ext e,
  extend_vars t st = Some ext -> t_when t = Some e -> cond ext e = Some false ->
  exec_module q root fs run_inc t st = ([], Ok st).
Proof. exact skipped_has_no_effect. Qed.

Theorem C01_ignored_failure_continues : forall q root fs run_inc t st ext evs msg,
  extend_vars t st = Some ext ->
  (match t_when t with Some e => cond ext e | None => Some true end) = Some true ->
  exec_mod q root fs run_inc t st ext = MErr evs msg -> t_ignore t = true ->
  exec_module q root fs run_inc t st = (evs ++ [ignored_event msg], Ok st).
Proof. exact ignored_failure_continues. Qed.

Theorem C01_unignored_failure_fails : forall q root fs run_inc t st ext evs msg,
  extend_vars t st = Some ext ->
  (match t_when t with Some e => cond ext e | None => Some true end) = Some true ->
  exec_mod q root fs run_inc t st ext = MErr evs msg -> t_ignore t = false ->
  exec_module q root fs run_inc t st = (evs, Fail).
Proof. exact unignored_failure_fails. Qed.

Theorem C01_exit_status : forall q root fs fuel script vars env ts,
  find_file fs script = Some (Some ts) ->
  r_exit_ok (main q root fs fuel script (DAccept vars) env) =
  match snd (run_tasks q root fs fuel ts (("rash"%string, builtins root script) :: vars ++ env)) with Ok _ => true | Fail => false end.
Proof. exact main_exit_status. Qed.

(* with the property-text switches, "only a task WITHOUT ignore_errors can end the run" holds for every
   kind of failure (rendering vars / when / parameters / loop / changed_when, the module, an include) *)
Theorem C01_spec_only_unignored_tasks_end_the_run : forall root fs run_inc t st evs,
  exec_task spec_quirks root fs run_inc t st = (evs, Fail) -> t_ignore t = false.
Proof. exact spec_only_unignored_tasks_end_the_run. Qed.

(* the full statement "only a failure without ignore_errors ends the run" is false of the code: K5 *)
Theorem C01_ignore_covers_render_failures_refuted_K5 :
  let t1 := {| t_when := None; t_loop := None; t_register := None; t_vars := []; t_ignore := true;
               t_changed_when := None; t_mod := MDebugMsg [TVar ["u"%string]] |} in
  let t2 := tk (MDebugMsg [TLit "after"]) in
  run0 mirror_quirks [] [t1; t2] = ([], Fail) /\
  run0 spec_quirks [] [t1; t2] = ([EvAny; EvOut "after"], Ok []).
Proof. exact K5_refuted. Qed.

(* where the code IS the property text: on tasks without loop, task vars, include and ignore_errors
   (the only places K2-K5 can arise) the quirk switches are irrelevant - the mirror of the code and the
   semantics of the property text are one function, for every program, store and included-file runner *)
Theorem C01_code_equals_property_text_on_quirk_free_programs : forall root fs run_inc ts st,
  forallb quirk_free ts = true ->
  exec_list mirror_quirks root fs run_inc ts st = exec_list spec_quirks root fs run_inc ts st.
Proof. exact mirror_is_spec_on_quirk_free_programs. Qed.
