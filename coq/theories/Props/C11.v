(* C11 - no task runs unless the arguments and every task definition are valid. Pinned statements only. *)
From Coq Require Import List String Bool.
From RashV Require Import Engine EngineProofs.
Import ListNotations.

Theorem C11_rejected_arguments_run_nothing : forall q root fs fuel script env,
  main q root fs fuel script DReject env = {| r_events := []; r_exit_ok := false |}.
Proof. exact main_rejected_arguments. Qed.

Theorem C11_help_prints_and_runs_nothing : forall q root fs fuel script env text,
  main q root fs fuel script (DHelp text) env = {| r_events := [EvOut text]; r_exit_ok := true |}.
Proof. exact main_help. Qed.

(* an invalid task at ANY position of the file (after any number of valid tasks): no event, exit non-zero *)
Theorem C11_invalid_task_anywhere_runs_nothing : forall q root fs fuel script vars env raw,
  In None raw -> find_file fs script = Some (parse_file raw) ->
  main q root fs fuel script (DAccept vars) env = {| r_events := []; r_exit_ok := false |}.
Proof. exact main_invalid_task_runs_nothing. Qed.

Theorem C11_parse_file_all_or_nothing : forall raw ts, parse_file raw = Some ts -> raw = map Some ts.
Proof. exact parse_file_valid. Qed.
