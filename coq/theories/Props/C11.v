(* C11 - no task runs unless the arguments and every task definition are valid. Pinned statements only. *)
From Coq Require Import List String Bool.
From RashV Require Import Engine EngineProofs HelpDoc HelpDocProofs Valid.
Import ListNotations.

Theorem C11_rejected_arguments_run_nothing : forall q root fs fuel script env,
  main q root fs fuel script DReject env = {| r_events := []; r_exit_ok := false |}.
Proof. exact main_rejected_arguments. Qed.

Theorem C11_help_prints_and_runs_nothing : forall q root fs fuel script env text,
  main q root fs fuel script (DHelp text) env = {| r_events := [EvOut text]; r_exit_ok := true |}.
Proof. exact main_help. Qed.

(* an invalid task at ANY position of the file (after any number of valid tasks): no event, exit non-zero *)
Theorem C11_invalid_task_anywhere_runs_nothing : forall q root fs fuel script vars env raw,
  In None raw -> find_file fs script = Some (parse_file raw) ->
  main q root fs fuel script (DAccept vars) env = {| r_events := []; r_exit_ok := false |}.
Proof. exact main_invalid_task_runs_nothing. Qed.

Theorem C11_parse_file_all_or_nothing : forall raw ts, parse_file raw = Some ts -> raw = map Some ts.
Proof. exact parse_file_valid. Qed.

(* "the script's help text is printed": HelpDoc.v mirrors docopt::parse_help (tied by exact comparison
   with what the binary prints).  A documentation block written the documented way - `# text` lines
   under the `#!` line - is printed verbatim, followed by the two fixed note lines ... *)
Theorem C11_documented_help_block_is_printed_verbatim : forall first ts l rest,
  Forall (fun x => no_nl x = true) (first :: map docline ts ++ l :: rest) ->
  after_hash l = None ->
  parse_help (join_nl (first :: map docline ts ++ l :: rest)) = join_nl (ts ++ [note1; note2; ""]).
Proof. exact documented_block_is_printed_verbatim. Qed.

(* ... and nothing after the first line without a hash sign - the tasks, whatever they contain - reaches
   the help text or the usage parser *)
Theorem C11_help_text_ignores_the_tasks : forall first doc l rest rest',
  Forall (fun x => no_nl x = true) (first :: doc ++ l :: rest) ->
  Forall (fun x => no_nl x = true) (first :: doc ++ l :: rest') ->
  after_hash l = None ->
  parse_help (join_nl (first :: doc ++ l :: rest)) = parse_help (join_nl (first :: doc ++ l :: rest')).
Proof. exact help_ignores_everything_after_the_first_hashless_line. Qed.

(* which entries of a file are invalid (the `None`s of parse_file above): Valid.v mirrors validate_attrs and
   get_module_name.  Accepted = a mapping with string keys made of ONE module name and known keywords *)
Theorem C11_valid_task_is_one_module_plus_keywords : forall ks,
  valid_task (RMap ks) = true <->
  exists a b m, ks = a ++ KStr m :: b /\ is_module m = true /\
                forallb (fun k => match k with KStr s => andb (is_attr s) (negb (is_module s)) | KOther => false end) (a ++ b) = true.
Proof. exact valid_task_iff. Qed.
Theorem C11_one_unknown_key_invalidates_the_task : forall a b k, key_ok k = false -> valid_task (RMap (a ++ k :: b)) = false.
Proof. exact unknown_key_invalidates. Qed.
Theorem C11_one_invalid_entry_invalidates_the_file : forall a b t, valid_task t = false -> valid_file (a ++ t :: b) = false.
Proof. exact invalid_entry_invalidates_file. Qed.

(* K53 / K54 (fixed): a `when` / `changed_when` that cannot be read, a `check_mode` that is not a boolean, refuse the task and
   the file - they are never taken for "no condition" / "false" *)
Theorem C11_unreadable_keyword_value_invalidates_the_task : forall t tv,
  cond_ok (v_when tv) = false \/ cond_ok (v_changed_when tv) = false \/ flag_ok (v_check_mode tv) = false ->
  valid_entry t tv = false.
Proof. exact unreadable_condition_invalidates. Qed.
Theorem C11_invalid_values_invalidate_the_file : forall a b t tv,
  valid_entry t tv = false -> valid_entries (a ++ (t, tv) :: b) = false.
Proof. exact invalid_values_invalidate_file. Qed.
