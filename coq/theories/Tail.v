(* Mirror of the LAST stage of docopt::parse (mod.rs): given the normalised argument vector, the
   sorted expanded usages and the option descriptors (all three read from the implementation
   through the rash_verif hook), classify the usage words, seed the variables, take the first
   usage that matches word by word, bind, merge, check for help.  Also utils::merge_json. *)
From Coq Require Import List String Ascii Bool NArith.
From RashV Require Import Order.
Import ListNotations.
Open Scope string_scope. Open Scope list_scope.
Notation "a +s+ b" := (String.append a b) (at level 60, right associativity).

(* ------------------------------------------------------------------ JSON values *)
Inductive jv :=
| JNull | JBool (b : bool) | JNum (n : N) | JStr (s : string)
| JArr (l : list string)
| JObj (m : list (string * jv)).

Fixpoint jget (m : list (string * jv)) (k : string) : option jv :=
  match m with [] => None | (k', v) :: r => if String.eqb k' k then Some v else jget r k end.
Fixpoint jset (m : list (string * jv)) (k : string) (v : jv) : list (string * jv) :=
  match m with
  | [] => [(k, v)]
  | (k', v') :: r => if String.eqb k' k then (k, v) :: r else (k', v') :: jset r k v
  end.

(* utils::merge_json, for objects nested at most [fuel] deep (2 is enough: vars / options) *)
Fixpoint merge (fuel : nat) (a b : jv) : jv :=
  match fuel with
  | O => b
  | S f =>
      match a, b with
      | JObj am, JObj bm =>
          JObj (fold_left (fun acc '(k, v) =>
                             match jget acc k, v with
                             | Some (JArr x), JArr y => jset acc k (JArr (x ++ y))
                             | Some (JNum x), JNum y => jset acc k (JNum (x + y))
                             | Some av, _ => jset acc k (merge f av v)
                             | None, _ => jset acc k v
                             end) bm am)
      | _, _ => b
      end
  end.

(* ------------------------------------------------------------------ words *)
Definition is_lower (c : ascii) : bool := let n := N_of_ascii c in andb (N.leb 97 n) (N.leb n 122).
Definition is_upper (c : ascii) : bool := let n := N_of_ascii c in andb (N.leb 65 n) (N.leb n 90).

(* [a-z]+(?:[_\-][a-z]+)*  as a whole-string match; [up] selects A-Z instead *)
Fixpoint words_go (cls : ascii -> bool) (s : string) (prev_letter : bool) : bool :=
  match s with
  | EmptyString => prev_letter
  | String c r =>
      if cls c then words_go cls r true
      else if orb (Ascii.eqb c "_") (Ascii.eqb c "-") then andb prev_letter (words_go_sep cls r)
      else false
  end
with words_go_sep (cls : ascii -> bool) (s : string) : bool :=
  match s with
  | String c r => if cls c then words_go cls r true else false
  | EmptyString => false
  end.
Definition is_words (cls : ascii -> bool) (s : string) : bool :=
  match s with String c r => if cls c then words_go cls r true else false | EmptyString => false end.

Fixpoint rev_s (s acc : string) : string := match s with EmptyString => acc | String c r => rev_s r (String c acc) end.
Definition strip_plus (s : string) : string :=
  match rev_s s "" with String "+" r => rev_s r "" | _ => s end.
Definition ends_plus (s : string) : bool := match rev_s s "" with String "+" _ => true | _ => false end.
Definition last_char (s : string) : option ascii := match rev_s s "" with String c _ => Some c | _ => None end.
Fixpoint contains_char (c : ascii) (s : string) : bool :=
  match s with EmptyString => false | String d r => orb (Ascii.eqb c d) (contains_char c r) end.
Fixpoint replace_char (a b : ascii) (s : string) : string :=
  match s with EmptyString => EmptyString | String c r => String (if Ascii.eqb c a then b else c) (replace_char a b r) end.
Fixpoint remove_chars (p : ascii -> bool) (s : string) : string :=
  match s with EmptyString => EmptyString | String c r => if p c then remove_chars p r else String c (remove_chars p r) end.
Fixpoint split_on (c : ascii) (s : string) (cur : string) : list string :=
  match s with
  | EmptyString => [rev_s cur ""]
  | String d r => if Ascii.eqb c d then rev_s cur "" :: split_on c r "" else split_on c r (String d cur)
  end.
(* "<" WORDS ">" prefix *)
Fixpoint take_until_gt (s : string) (acc : string) : option (string * string) :=
  match s with
  | EmptyString => None
  | String ">" r => Some (rev_s acc "", r)
  | String c r => take_until_gt r (String c acc)
  end.

(* the three regexes of arg_kind_set; the kind is defined only when exactly one matches *)
Definition kind0 (w : string) : bool := is_words is_lower (strip_plus w).
Definition kind1 (w : string) : bool :=
  orb (match w with
       | String "<" r => match take_until_gt r "" with Some (name, _) => is_words is_lower name | None => false end
       | _ => false
       end)
      (match last_char (strip_plus w) with Some c => is_upper c | None => false end).
Definition kind2 (w : string) : bool :=
  orb (andb (match last_char w with Some "}"%char => true | _ => false end) (contains_char "{" w))
      (match w with
       | String "-" (String "-" r) => is_words is_lower r
       | String "-" r => is_words is_lower r
       | _ => false
       end).
Definition kind_of (w : string) : option nat :=
  match kind0 w, kind1 w, kind2 w with
  | true, false, false => Some 0
  | false, true, false => Some 1
  | false, false, true => Some 2
  | _, _, _ => None
  end.

(* ------------------------------------------------------------------ options *)
Inductive okind := OSimple | ORepeatable | OWithParam (default : option string).
Record odesc := { od_kind : okind; od_short : option string; od_long : option string }.   (* with dashes *)

Definition starts_with (p s : string) : bool :=
  (fix go p s := match p, s with
                 | EmptyString, _ => true
                 | String a p', String b s' => andb (Ascii.eqb a b) (go p' s')
                 | _, _ => false end) p s.
Definition oeq (a : option string) (b : string) : bool := match a with Some x => String.eqb x b | None => false end.
Definition ofind (t : list odesc) (arg : string) : option odesc :=
  if starts_with "--" arg then find (fun d => oeq (od_long d) arg) t
  else if starts_with "-" arg then find (fun d => oeq (od_short d) arg) t
  else None.
Definition simple_repr (d : odesc) : string :=
  match od_long d, od_short d with Some l, _ => l | None, Some s => s | None, None => "" end.
Definition key_repr (d : odesc) : string :=
  let r := simple_repr d in
  let r1 := match r with String "-" (String "-" x) => x | String "-" x => x | x => x end in
  replace_char "-" "_" r1.
Definition repr (d : odesc) : string :=
  match od_kind d with OWithParam _ => simple_repr d +s+ "=<" +s+ simple_repr d +s+ ">" | _ => simple_repr d end.

Definition split_eq1 (s : string) : string * option string :=
  (fix go s acc := match s with
                   | EmptyString => (rev_s acc "", None)
                   | String "=" r => (rev_s acc "", Some r)
                   | String c r => go r (String c acc)
                   end) s "".

Inductive pres := PNone | PPanic | PSome (v : jv).

(* Options::parse(arg, def) *)
Definition opt_parse (t : list odesc) (arg def : string) : pres :=
  let '(k, v) := split_eq1 arg in
  match ofind t k with
  | None => PNone
  | Some d =>
      let defs := split_on "#" (remove_chars (fun c => orb (Ascii.eqb c "{") (Ascii.eqb c "}")) def) "" in
      if existsb (String.eqb (repr d)) defs then
        match od_kind d with
        | OWithParam _ => match v with Some x => PSome (JObj [("options", JObj [(key_repr d, JStr x)])]) | None => PPanic end
        | ORepeatable => PSome (JObj [("options", JObj [(key_repr d, JNum 1)])])
        | OSimple => PSome (JObj [("options", JObj [(key_repr d, JBool true)])])
        end
      else PNone
  end.

Definition initial_vars (t : list odesc) : jv :=
  fold_left (fun acc d =>
               merge 3 acc (JObj [("options", JObj [(key_repr d,
                                   match od_kind d with
                                   | OSimple => JBool false
                                   | ORepeatable => JNum 0
                                   | OWithParam (Some x) => JStr x
                                   | OWithParam None => JNull
                                   end)])])) t (JObj []).

(* ------------------------------------------------------------------ the matching stage *)
Definition count_eq (x : string) (l : list string) : nat := List.length (filter (String.eqb x) l).

Definition parse_required (arg def : string) (defs : list string) : pres :=
  if String.eqb arg def
  then PSome (JObj [(replace_char "-" "_" arg, if Nat.ltb 1 (count_eq def defs) then JNum 1 else JBool true)])
  else PNone.

Definition lower (s : string) : string :=
  (fix go s := match s with
               | EmptyString => EmptyString
               | String c r => String (if is_upper c then ascii_of_N (N_of_ascii c + 32) else c) (go r)
               end) s.
Definition parse_positional (arg def : string) : jv :=
  let key0 := match def with
              | String "<" r => match take_until_gt r "" with Some (name, _) => name | None => lower (strip_plus def) end
              | _ => lower (strip_plus def)
              end in
  let key := replace_char "-" "_" key0 in
  if ends_plus def then JObj [(key, JArr [arg])] else JObj [(key, JStr arg)].

Definition bind_word (t : list odesc) (arg def : string) (defs : list string) : pres :=
  match kind_of def with
  | Some 0 => parse_required arg def defs
  | Some 1 =>
      if orb (String.eqb arg "--help") (String.eqb arg "-h") then opt_parse t arg arg
      else if starts_with "--" arg then PNone
      else PSome (parse_positional arg def)
  | Some 2 => opt_parse t arg def
  | _ => PNone
  end.

(* the per-word values in argv order (the code collects them, then merges them one by one) *)
Fixpoint bind_list (t : list odesc) (args defs alldefs : list string) : option (option (list jv)) :=
  (* None = panic, Some None = no match, Some (Some l) = match *)
  match args, defs with
  | [], [] => Some (Some [])
  | a :: ar, d :: dr =>
      match bind_word t a d alldefs with
      | PNone => Some None
      | PPanic => None
      | PSome v => match bind_list t ar dr alldefs with
                   | Some (Some l) => Some (Some (v :: l))
                   | x => x
                   end
      end
  | _, _ => Some None
  end.

Definition words_of_usage (u : string) : list string :=
  (* split_whitespace().skip(1) *)
  tl (filter (fun w => negb (String.eqb w "")) (split_on " " u "")).

(* `+` propagation: a word gets a `+` if some usage has it with `+` *)
Definition expand_repeatable (all : list (list string)) (defs : list string) : list string :=
  map (fun d => if andb (negb (ends_plus d)) (existsb (fun u => existsb (String.eqb (d +s+ "+")) u) all) then d +s+ "+" else d) defs.

Inductive tail_result := TPanic | TInvalidUsage | TNoMatch | THelp | TVars (v : jv).

(* the first usage (in the given order) with as many words as argv whose words all bind *)
Fixpoint first_match (t : list odesc) (argv : list string) (us : list (list string)) : option (option (list jv)) :=
  match us with
  | [] => Some None
  | ds :: r =>
      if Nat.eqb (List.length argv) (List.length ds) then
        match bind_list t argv ds ds with
        | None => None
        | Some (Some l) => Some (Some l)
        | Some None => first_match t argv r
        end
      else first_match t argv r
  end.

Definition kinds_valid (defs0 : list (list string)) : bool :=
  forallb (fun ds => forallb (fun w => match kind_of w with Some _ => true | None => false end) ds) defs0.

Definition seeds_of (defs : list (list string)) : list jv :=
  flat_map (fun ds => flat_map (fun w =>
               match kind_of w with
               | Some 0 => [JObj [(replace_char "-" "_" w,
                                   if existsb (fun u => Nat.ltb 1 (count_eq w u)) defs then JNum 0 else JBool false)]]
               | _ => []
               end) ds) defs.

Definition help_or_vars (res : jv) : tail_result :=
  match res with
  | JObj m =>
      match jget m "help" with
      | Some (JBool true) => THelp
      | _ => match jget m "options" with
             | Some (JObj om) => match jget om "help" with Some (JBool true) => THelp | _ => TVars res end
             | _ => TVars res
             end
      end
  | _ => TVars res
  end.

Definition tail (t : list odesc) (argv : list string) (usages : list string) : tail_result :=
  let defs0 := map words_of_usage usages in
  if negb (kinds_valid defs0)
  then TInvalidUsage
  else
    let defs := map (expand_repeatable defs0) defs0 in
    let vars := fold_left (merge 3) (seeds_of defs) (initial_vars t) in
    match first_match t argv defs with
    | None => TPanic
    | Some None => TNoMatch
    | Some (Some l) => help_or_vars (fold_left (merge 3) l vars)
    end.
