(* Mirror of pacman.rs::pacman over an abstract package database.
   The database transitions are those of pacman's documented CLI (the harness's
   fakepacman implements the same transitions):
     --sync --needed P   : every not-installed p in P becomes installed AND explicit;
                           an already installed p is skipped (install reason unchanged)
     --remove P          : every p in P is removed (P is always a subset of installed here)
     --sync --refresh    : the local sync database catches up with the mirrors (dbver := upstream)
     --sync --sysupgrade : the installed packages catch up with the local sync database (sysver := dbver)
     --query [--explicit] [--upgrades] : read-only; --upgrades answers from the LOCAL sync database
   Versions are abstracted to one level per place: what is installed (sysver), what the local sync
   database knows (dbver), what the mirrors offer (upstream).  The package state of the machine is
   (installed, explicit, sysver); dbver is a cache. *)
From Coq Require Import List String Bool Arith.
Import ListNotations.
Open Scope string_scope. Open Scope list_scope.

Definition mem (x : string) (l : list string) : bool := existsb (String.eqb x) l.
Fixpoint dedup (l : list string) : list string :=
  match l with [] => [] | x :: r => if mem x r then dedup r else x :: dedup r end.
Definition diff (a b : list string) := filter (fun x => negb (mem x b)) a.
Definition inter (a b : list string) := filter (fun x => mem x b) a.

Record db := { installed : list string; explicit : list string; sysver : nat; dbver : nat; upstream : nat }.
Definition upgradable (d : db) : bool := Nat.ltb (sysver d) (dbver d).

Inductive invocation :=
| IQuery | IQueryExplicit | IQueryUpgrades
| IRefresh | ISysupgrade | ISync (p : list string) | IRemove (p : list string).

Definition read_only (i : invocation) : bool :=
  match i with IQuery | IQueryExplicit | IQueryUpgrades => true | _ => false end.

Inductive pstate := PPresent | PAbsent | PSync.
Record pparams := { pp_names : list string; pp_state : pstate; pp_update_cache : bool; pp_upgrade : bool }.

Record pst := { pdb : db; plog : list invocation }.
Definition plog1 (s : pst) (i : invocation) (d : db) : pst := {| pdb := d; plog := plog s ++ [i] |}.

Definition db_sync (d : db) (p : list string) : db :=
  let new := diff p (installed d) in
  {| installed := installed d ++ new; explicit := explicit d ++ new;
     sysver := sysver d; dbver := dbver d; upstream := upstream d |}.
Definition db_remove (d : db) (p : list string) : db :=
  {| installed := diff (installed d) p; explicit := diff (explicit d) p;
     sysver := sysver d; dbver := dbver d; upstream := upstream d |}.
Definition db_upgrade (d : db) : db :=
  {| installed := installed d; explicit := explicit d; sysver := dbver d; dbver := dbver d; upstream := upstream d |}.
Definition db_refresh (d : db) : db :=
  {| installed := installed d; explicit := explicit d; sysver := sysver d; dbver := upstream d; upstream := upstream d |}.

Record presult := { pr_changed : bool; pr_installed : list string; pr_removed : list string; pr_upgraded : bool }.

Definition pacman (p : pparams) (check : bool) (s0 : pst) : presult * pst :=
  let names := dedup (pp_names p) in
  let s1 := if andb (pp_update_cache p) (negb check) then plog1 s0 IRefresh (db_refresh (pdb s0)) else s0 in
  let '(to_install, to_remove, s2) :=
    match pp_state p with
    | PPresent => (diff names (installed (pdb s1)), [], plog1 s1 IQuery (pdb s1))
    | PAbsent => ([], inter names (installed (pdb s1)), plog1 s1 IQuery (pdb s1))
    | PSync => (diff names (explicit (pdb s1)), diff (explicit (pdb s1)) names, plog1 s1 IQueryExplicit (pdb s1))
    end in
  let '(upgraded, s3) :=
    if pp_upgrade p then
      let sq := plog1 s2 IQueryUpgrades (pdb s2) in
      if negb (upgradable (pdb sq)) then (false, sq)
      else if check then (true, sq)
      else (true, plog1 sq ISysupgrade (db_upgrade (pdb sq)))
    else (false, s2) in
  let '(inst_changed, s4) :=
    match to_install with
    | [] => (false, s3)
    | _ => (true, if check then s3 else plog1 s3 (ISync to_install) (db_sync (pdb s3) to_install))
    end in
  let '(rem_changed, s5) :=
    match to_remove with
    | [] => (false, s4)
    | _ => (true, if check then s4 else plog1 s4 (IRemove to_remove) (db_remove (pdb s4) to_remove))
    end in
  ({| pr_changed := orb upgraded (orb inst_changed rem_changed);
      pr_installed := to_install; pr_removed := to_remove; pr_upgraded := upgraded |}, s5).
