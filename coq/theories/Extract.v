(* Extraction of the executable models. Directives in use: exactly those of
   ExtrOcamlBasic (bool, option, unit, list, prod, sumbool, sumor -> OCaml natives; andb, orb,
   negb, fst, snd inlined) and ExtrOcamlString (ascii -> char, string -> char list, with
   the ascii (in)equality/constructor shortcuts of that file). N/positive/nat stay inductive. *)
Require Extraction.
Require Import ExtrOcamlBasic ExtrOcamlString.
From RashV Require Import Oracle.
Cd "extracted".
Extraction "oracle.ml" run_line.
Cd "..".
