(* vars/env.rs::load: every -e KEY=VALUE is written into the process environment (set_var, in
   command-line order), then the whole environment is read back as `env`. Children inherit the
   process environment, i.e. the same map. *)
From Coq Require Import List String Bool.
Import ListNotations.
Open Scope string_scope. Open Scope list_scope.

Definition envmap := list (string * string).       (* first hit wins *)
Fixpoint elookup (e : envmap) (k : string) : option string :=
  match e with [] => None | (k', v) :: r => if String.eqb k' k then Some v else elookup r k end.

(* set_var k v *)
Definition set_var (e : envmap) (k v : string) : envmap := (k, v) :: e.
Definition env_load (pairs : list (string * string)) (e : envmap) : envmap :=
  fold_left (fun acc '(k, v) => set_var acc k v) pairs e.

Fixpoint last_pair (pairs : list (string * string)) (k : string) : option string :=
  match pairs with
  | [] => None
  | (k', v) :: r => match last_pair r k with Some x => Some x | None => if String.eqb k' k then Some v else None end
  end.

(* the value seen as env.K (and by child commands) is the LAST -e for K, else the inherited one *)
Theorem env_override pairs : forall e k,
  elookup (env_load pairs e) k = match last_pair pairs k with Some v => Some v | None => elookup e k end.
Proof.
  unfold env_load. induction pairs as [|[k' v] r IH]; intros e k; cbn [fold_left last_pair]; [reflexivity|].
  rewrite IH. destruct (last_pair r k); [reflexivity|]. unfold set_var. cbn. destruct (String.eqb k' k); reflexivity.
Qed.

Corollary env_new_variable_visible e k v : elookup (env_load [(k, v)] e) k = Some v.
Proof. rewrite env_override. cbn. now rewrite String.eqb_refl. Qed.

Corollary env_other_variables_untouched pairs e k :
  last_pair pairs k = None -> elookup (env_load pairs e) k = elookup e k.
Proof. intro H. now rewrite env_override, H. Qed.
