(* Mirror of docopt::parse_usage (parse_usage_multiline, else parse_usage_one_line): which lines of
   the help text are the usage patterns.  Input: the text produced by parse_help (HelpDoc.v), which
   always ends with the two note lines and a newline.  ASCII case folding only (the regex crate folds
   a few non-ASCII letters too). *)
From Coq Require Import List String Ascii Bool NArith.
From RashV Require Import HelpDoc.
Import ListNotations.
Open Scope string_scope. Open Scope list_scope.

Definition nlc : ascii := "010"%char.
Definition lower_ascii (c : ascii) : ascii :=
  let n := N_of_ascii c in if andb (N.leb 65 n) (N.leb n 90) then ascii_of_N (n + 32) else c.
Definition is_letter (c : ascii) : bool :=
  let n := N_of_ascii (lower_ascii c) in andb (N.leb 97 n) (N.leb n 122).
(* regex \s on ASCII: blank, \t \n \v \f \r *)
Definition is_space (c : ascii) : bool :=
  let n := N_of_ascii c in orb (N.eqb n 32) (andb (N.leb 9 n) (N.leb n 13)).

(* does [s] start with [p], comparing letters without case? returns the rest *)
Fixpoint strip_ci (p s : string) : option string :=
  match p, s with
  | EmptyString, _ => Some s
  | String a p', String b s' => if Ascii.eqb (lower_ascii a) (lower_ascii b) then strip_ci p' s' else None
  | _, _ => None
  end.

(* leftmost occurrence of [p] (case-insensitive): the text after it *)
Fixpoint after_ci (p s : string) : option string :=
  match strip_ci p s with
  | Some r => Some r
  | None => match s with EmptyString => None | String _ s' => after_ci p s' end
  end.

(* the lazy body with its terminator: up to and including the first line that starts with a letter or
   is empty; [bol] = we are at the beginning of a line *)
Fixpoint section_body (s : string) (bol : bool) : string :=
  match s with
  | EmptyString => EmptyString
  | String c r =>
      if andb bol (orb (is_letter c) (Ascii.eqb c nlc)) then String c EmptyString
      else String c (section_body r (Ascii.eqb c nlc))
  end.

(* the indentation-removing regex, searched in a line: the text after the FIRST run of white space *)
Fixpoint drop_spaces (s : string) : string :=
  match s with String c r => if is_space c then drop_spaces r else s | EmptyString => EmptyString end.
Fixpoint after_first_space_run (l : string) : option string :=
  match l with
  | EmptyString => None
  | String c r => if is_space c then Some (drop_spaces r) else after_first_space_run r
  end.

Fixpoint take_while_some {A B} (f : A -> option B) (l : list A) : list B :=
  match l with
  | [] => []
  | x :: r => match f x with Some y => y :: take_while_some f r | None => [] end
  end.

Definition usage_nl : string := String "U" (String "s" (String "a" (String "g" (String "e" (String ":" (String nlc EmptyString)))))).

Definition parse_usage_multiline (doc : string) : option (list string) :=
  match after_ci usage_nl doc with
  | None => None
  | Some rest => Some (take_while_some after_first_space_run (split_nl (section_body rest true) ""))
  end.

Fixpoint up_to_nl (s acc : string) : option string :=
  match s with
  | EmptyString => None
  | String c r => if Ascii.eqb c nlc then Some (rev_str acc "") else up_to_nl r (String c acc)
  end.

(* the one-line form: `usage:`, white space, the rest of that line; on texts where a newline follows
   (always the case for parse_help's output) *)
Fixpoint parse_usage_one_line_from (s : string) (fuel : nat) : option (list string) :=
  match fuel with
  | O => None
  | S f =>
      match after_ci "Usage:" s with
      | None => None
      | Some rest =>
          match rest with
          | String c _ =>
              if is_space c then
                match up_to_nl (drop_spaces rest) "" with
                | Some l => Some [l]
                | None => None
                end
              else parse_usage_one_line_from rest f       (* `usage:` not followed by white space: look further *)
          | EmptyString => None
          end
      end
  end.
Definition parse_usage_one_line (doc : string) : option (list string) := parse_usage_one_line_from doc (String.length doc + 1).

Definition parse_usage (doc : string) : option (list string) :=
  match parse_usage_multiline doc with
  | Some l => Some l
  | None => parse_usage_one_line doc
  end.

(* file -> usages *)
Definition usages_of_file (file : string) : option (list string) := parse_usage (parse_help file).
