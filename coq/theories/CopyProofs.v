(* Characterisation of a successful copy_file run, used by C04, C05 and C06. *)
From Coq Require Import List String Ascii Bool NArith Lia.
From RashV Require Import Fs Octal StateMods FsLemmas.
Import ListNotations.
Open Scope list_scope.

Ltac break_match :=
  match goal with
  | |- context [match ?x with _ => _ end] => destruct x eqn:?
  | H : context [match ?x with _ => _ end] |- _ => destruct x eqn:?
  end.
Ltac simp_eqs :=
  repeat match goal with
  | H : Some _ = Some _ |- _ => inversion H; subst; clear H
  | H : (_, _) = (_, _) |- _ => inversion H; subst; clear H
  | H : Some _ = None |- _ => discriminate H
  | H : None = Some _ |- _ => discriminate H
  | H : ROk _ = RErr |- _ => discriminate H
  | H : RErr = ROk _ |- _ => discriminate H
  | H : ROk _ = ROk _ |- _ => inversion H; subst; clear H
  end.

(* s' differs from s only at the node q (and resolution of every path is unchanged) *)
Definition only_at (q : path) (s s' : st) : Prop :=
  forall p', res (sw s') p' = res (sw s) p' /\ (res (sw s) p' <> q -> stat (sw s') p' = stat (sw s) p').

Lemma only_at_refl q s : only_at q s s.
Proof. intro p'. split; auto. Qed.
Lemma only_at_trans q a b c : only_at q a b -> only_at q b c -> only_at q a c.
Proof.
  intros H1 H2 p'. destruct (H1 p') as [R1 S1], (H2 p') as [R2 S2]. split; [congruence|].
  intro Hn. rewrite S2, S1; auto. now rewrite R1.
Qed.

Lemma only_at_chmod s p m s' : sys_chmod s p m = Some s' -> only_at (res (sw s) p) s s'.
Proof.
  intros H p'. split; [eapply res_after_chmod; eauto|]. intro Hn.
  rewrite (stat_after_chmod _ _ _ _ p' H).
  destruct (path_eqb (res (sw s) p) (res (sw s) p')) eqn:E; [|reflexivity].
  apply path_eqb_eq in E. congruence.
Qed.
Lemma only_at_write s p c s' : sys_write s p c = Some s' -> only_at (res (sw s) p) s s'.
Proof.
  intros H p'. split; [eapply res_after_write; eauto|]. intro Hn.
  rewrite (stat_after_write _ _ _ _ p' H).
  destruct (path_eqb (res (sw s) p) (res (sw s) p')) eqn:E; [|reflexivity].
  apply path_eqb_eq in E. congruence.
Qed.
Lemma only_at_create e s p s' : sys_create e s p = Some s' -> only_at (res (sw s) p) s s'.
Proof.
  intros H p'. split; [eapply res_after_create; eauto|]. intro Hn.
  rewrite (stat_after_create _ _ _ _ p' H).
  destruct (path_eqb (res (sw s) p) (res (sw s) p')) eqn:E; [|reflexivity].
  apply path_eqb_eq in E. congruence.
Qed.

(* ------------------------------------------------------------ open_dest, real run *)
Lemma open_dest_real e dest s s1 c0 dm :
  open_dest e dest false s = Some (s1, Some (c0, dm)) ->
  exists m0, stat (sw s1) dest = Some (NFile c0 m0) /\ dm = st_mode (NFile c0 m0) /\
             only_at (res (sw s) dest) s s1 /\
             ((s1 = s) \/ (stat (sw s) dest = None /\ c0 = ""%string /\ m0 = file_create_mode e /\ slog s1 <> slog s)).
Proof.
  unfold open_dest. destruct (stat (sw s) dest) as [[c m|m|t]|] eqn:Hst.
  - intro H; simp_eqs. exists m. repeat split; auto using only_at_refl.
  - intro H; simp_eqs.
  - exfalso. eapply stat_not_link; eauto.
  - destruct (sys_create e s dest) as [s1'|] eqn:Hc; intro H; simp_eqs.
    exists (file_create_mode e). split.
    { rewrite (stat_after_create _ _ _ _ dest Hc). now rewrite path_eqb_refl. }
    split. { reflexivity. }
    split. { eapply only_at_create; eauto. }
    right. repeat split; auto.
    unfold sys_create in Hc. repeat break_match; simp_eqs. cbn.
    intro E. apply (f_equal (@List.length _)) in E. rewrite app_length in E. cbn in E. lia.
Qed.

(* ------------------------------------------------------------ content phase, real run *)
Lemma content_phase_real dest c0 want m0 s1 s2 ch1 :
  stat (sw s1) dest = Some (NFile c0 m0) ->
  content_phase dest c0 want (st_mode (NFile c0 m0)) false s1 = Some (s2, ch1) ->
  ch1 = negb (String.eqb c0 want) /\
  (exists m2, stat (sw s2) dest = Some (NFile want m2) /\ mask_perm m2 = mask_perm m0) /\
  only_at (res (sw s1) dest) s1 s2 /\
  (ch1 = false -> s2 = s1).
Proof.
  intros Hst. unfold content_phase.
  destruct (String.eqb c0 want) eqn:Heq.
  - intro H; simp_eqs. apply String.eqb_eq in Heq; subst.
    repeat split; eauto using only_at_refl.
  - cbn [negb]. set (dm := st_mode (NFile c0 m0)).
    destruct (N.eqb (N.land dm any_write) 0) eqn:Hro.
    + destruct (sys_chmod s1 dest (N.lor dm write_bit)) as [sa|] eqn:Ha; [|discriminate].
      destruct (sys_write sa dest want) as [sb|] eqn:Hb; [|discriminate].
      destruct (sys_chmod sb dest dm) as [sc|] eqn:Hc; [|discriminate].
      intro H; simp_eqs.
      pose proof (stat_after_chmod _ _ _ _ dest Ha) as Sa. rewrite path_eqb_refl, Hst in Sa. cbn in Sa.
      pose proof (stat_after_write _ _ _ _ dest Hb) as Sb. rewrite path_eqb_refl, Sa in Sb.
      pose proof (stat_after_chmod _ _ _ _ dest Hc) as Sc. rewrite path_eqb_refl, Sb in Sc. cbn in Sc.
      split; [reflexivity|]. split.
      { eexists; split; [exact Sc|]. rewrite mask_perm_idem. subst dm. apply (mask_st_mode_file c0). }
      split; [|discriminate].
      pose proof (only_at_chmod _ _ _ _ Ha) as Oa.
      pose proof (only_at_write _ _ _ _ Hb) as Ob.
      pose proof (only_at_chmod _ _ _ _ Hc) as Oc.
      rewrite (res_after_chmod _ _ _ _ dest Ha) in Ob.
      rewrite (res_after_write _ _ _ _ dest Hb), (res_after_chmod _ _ _ _ dest Ha) in Oc.
      eapply only_at_trans; [exact Oa|]. eapply only_at_trans; [exact Ob|exact Oc].
    + destruct (sys_write s1 dest want) as [sb|] eqn:Hb; [|discriminate].
      intro H; simp_eqs.
      pose proof (stat_after_write _ _ _ _ dest Hb) as Sb. rewrite path_eqb_refl, Hst in Sb.
      split; [reflexivity|]. split; [eauto|]. split; [eapply only_at_write; eauto|discriminate].
Qed.

(* ------------------------------------------------------------ change_permissions, real run *)
Lemma change_permissions_real s dest want m2 dm m s3 ch2 :
  stat (sw s) dest = Some (NFile want m2) ->
  mask_perm dm = mask_perm m2 ->
  change_permissions s dest dm m false = Some (s3, ch2) ->
  ch2 = negb (N.eqb (mask_perm m2) (mask_perm m)) /\
  (exists m3, stat (sw s3) dest = Some (NFile want m3) /\ mask_perm m3 = mask_perm m) /\
  only_at (res (sw s) dest) s s3 /\
  (ch2 = false -> s3 = s).
Proof.
  intros Hst Hdm. unfold change_permissions. rewrite Hdm.
  destruct (N.eqb (mask_perm m2) (mask_perm m)) eqn:E.
  - intro H; simp_eqs. apply N.eqb_eq in E. repeat split; eauto using only_at_refl.
  - destruct (sys_chmod s dest m) as [s'|] eqn:Hc; intro H; simp_eqs.
    pose proof (stat_after_chmod _ _ _ _ dest Hc) as Sc. rewrite path_eqb_refl, Hst in Sc. cbn in Sc.
    split; [reflexivity|]. split.
    { eexists; split; [exact Sc|]. apply mask_perm_idem. }
    split; [eapply only_at_chmod; eauto|discriminate].
Qed.

(* ------------------------------------------------------------ the whole real run *)
From RashV Require Import StateSpec.

Lemma node_perm_st_mode n : is_link (Some n) = false -> mask_perm (st_mode n) = node_perm n.
Proof. destruct n as [c m|m|t]; cbn [is_link]; intro H; try discriminate;
  [apply mask_st_mode_file | apply mask_st_mode_dir]. Qed.

Inductive copy_summary (e : env) (p : copy_params) (s s' : st) (ch : bool) : Prop :=
| mk_cs : forall (cs_want : string) (cs_c0 : string) (cs_m0 : N) (cs_mf : N) (cs_s1 : st),
    forall (cs_want_ok : desired_content (cp_input p) (sw cs_s1) = Some cs_want),
    forall (cs_open : stat (sw cs_s1) (cp_dest p) = Some (NFile cs_c0 cs_m0)),
    forall (cs_first : (cs_s1 = s) \/ (stat (sw s) (cp_dest p) = None /\ cs_c0 = ""%string /\ cs_m0 = file_create_mode e /\ slog cs_s1 <> slog s)),
    forall (cs_final : stat (sw s') (cp_dest p) = Some (NFile cs_want cs_mf)),
    forall (cs_frame1 : only_at (res (sw s) (cp_dest p)) s cs_s1),
    forall (cs_frame : only_at (res (sw s) (cp_dest p)) s s'),
    forall (cs_mode : match cp_mode p with
            | MNone => mask_perm cs_mf = mask_perm cs_m0 /\ ch = negb (String.eqb cs_c0 cs_want)
            | MStr ms => exists m, parse_octal ms = OOk m /\ mask_perm cs_mf = mask_perm m /\
                         ch = orb (negb (String.eqb cs_c0 cs_want)) (negb (N.eqb (mask_perm cs_m0) (mask_perm m)))
            | MPreserve => exists src n, cp_input p = ISrc src /\ stat (sw s') src = Some n /\
                         (res (sw s) src <> res (sw s) (cp_dest p) -> stat (sw s) src = Some n /\ mask_perm cs_mf = node_perm n) /\
                         exists n2, mask_perm cs_mf = mask_perm (st_mode n2) /\
                         ch = orb (negb (String.eqb cs_c0 cs_want)) (negb (N.eqb (mask_perm cs_m0) (mask_perm (st_mode n2))))
            end),
    forall (cs_noop : ch = false -> cs_s1 = s -> s' = s),
    copy_summary e p s s' ch.

Lemma copy_real_summary e p s ch s' :
  copy_file e p false s = (ROk ch, s') -> copy_summary e p s s' ch.
Proof.
  unfold copy_file.
  destruct (open_dest e (cp_dest p) false s) as [[s1 [[c0 dm]|]]|] eqn:Hopen; try (intro H; discriminate H).
  apply open_dest_real in Hopen as (m0 & Hst1 & -> & O1 & Hfirst).
  destruct (desired_content (cp_input p) (sw s1)) as [want|] eqn:Hwant; [|intro H; discriminate H].
  destruct (content_phase (cp_dest p) c0 want (st_mode (NFile c0 m0)) false s1) as [[s2 ch1]|] eqn:Hcp;
    [|intro H; discriminate H].
  apply (content_phase_real _ _ _ _ _ _ _ Hst1) in Hcp as (Hch1 & (m2 & Hst2 & Hm2) & O2 & Hnoop2).
  assert (R1 : res (sw s1) (cp_dest p) = res (sw s) (cp_dest p)) by apply O1.
  rewrite R1 in O2.
  assert (O12 : only_at (res (sw s) (cp_dest p)) s s2) by (eapply only_at_trans; eauto).
  unfold mode_phase.
  destruct (cp_mode p) as [| |ms] eqn:Hmode.
  - intro H; simp_eqs.
    apply (mk_cs e p s s' _ want c0 m0 m2 s1); auto.
    + rewrite Hmode. auto.
    + intros Hf Hs. subst. now apply Hnoop2.
  - destruct (cp_input p) as [c|src] eqn:Hin; [intro H; discriminate H|].
    destruct (stat (sw s2) src) as [n|] eqn:Hsrc; [|intro H; discriminate H].
    destruct (change_permissions s2 (cp_dest p) (st_mode (NFile c0 m0)) (st_mode n) false) as [[s3 ch2]|] eqn:Hchp;
      [|intro H; discriminate H].
    intro H; simp_eqs.
    assert (Hdm : mask_perm (st_mode (NFile c0 m0)) = mask_perm m2)
      by (rewrite mask_st_mode_file; congruence).
    apply (change_permissions_real _ _ _ _ _ _ _ _ Hst2 Hdm) in Hchp as (Hch2 & (m3 & Hst3 & Hm3) & O3 & Hnoop3).
    assert (R2 : res (sw s2) (cp_dest p) = res (sw s) (cp_dest p)) by apply O12.
    rewrite R2 in O3.
    assert (O13 : only_at (res (sw s) (cp_dest p)) s s') by (eapply only_at_trans; eauto).
    apply (mk_cs e p s s' _ want c0 m0 m3 s1); auto.
    + now rewrite Hin.
    + rewrite Hmode. exists src.
      destruct (stat (sw s') src) as [n'|] eqn:Hsrc'.
      * exists n'. split; [assumption|]. split; [reflexivity|]. split.
        -- intro Hna. destruct (O13 src) as [_ F]. rewrite F in Hsrc' by assumption.
           destruct (O12 src) as [_ F2]. rewrite F2 in Hsrc by assumption.
           split; [assumption|]. rewrite Hm3. assert (n = n') by congruence. subst n'.
           apply node_perm_st_mode. destruct n as [| |t]; try reflexivity. exfalso; eapply stat_not_link; eauto.
        -- exists n. split; [assumption|]. rewrite Hch2, Hm2. reflexivity.
      * (* src vanished: impossible, chmod/write never remove a node *)
        exfalso. destruct (O3 src) as [R3 F3].
        destruct (path_eqb (res (sw s) (cp_dest p)) (res (sw s2) src)) eqn:E.
        -- apply path_eqb_eq in E.
           assert (stat (sw s') src = stat (sw s') (cp_dest p)).
           { unfold stat. rewrite R3. destruct (O3 (cp_dest p)) as [R3' _]. rewrite R3', R2, <- E. reflexivity. }
           congruence.
        -- apply path_eqb_neq in E. rewrite F3 in Hsrc' by congruence. congruence.
    + intros Hf Hs. apply orb_false_iff in Hf as [Hf1 Hf2]. subst.
      rewrite Hnoop3 by assumption. now apply Hnoop2.
  - destruct (parse_octal ms) as [m|] eqn:Hoct; [|intro H; discriminate H].
    destruct (change_permissions s2 (cp_dest p) (st_mode (NFile c0 m0)) m false) as [[s3 ch2]|] eqn:Hchp;
      [|intro H; discriminate H].
    intro H; simp_eqs.
    assert (Hdm : mask_perm (st_mode (NFile c0 m0)) = mask_perm m2)
      by (rewrite mask_st_mode_file; congruence).
    apply (change_permissions_real _ _ _ _ _ _ _ _ Hst2 Hdm) in Hchp as (Hch2 & (m3 & Hst3 & Hm3) & O3 & Hnoop3).
    assert (R2 : res (sw s2) (cp_dest p) = res (sw s) (cp_dest p)) by apply O12.
    rewrite R2 in O3.
    apply (mk_cs e p s s' _ want c0 m0 m3 s1); auto.
    + eapply only_at_trans; eauto.
    + rewrite Hmode. exists m. repeat split; auto. rewrite Hch2, Hm2. reflexivity.
    + intros Hf Hs. apply orb_false_iff in Hf as [Hf1 Hf2]. subst.
      rewrite Hnoop3 by assumption. now apply Hnoop2.
Qed.

(* ------------------------------------------------------------ consequences for copy *)
Lemma read_src_frame q s s1 src :
  only_at q s s1 -> res (sw s) src <> q -> read_src (sw s1) src = read_src (sw s) src.
Proof. intros O Hn. unfold read_src. destruct (O src) as [_ F]. now rewrite F. Qed.

Lemma no_alias_copy_src p w src :
  cp_input p = ISrc src -> no_alias (TCopy p) w = true -> res w src <> res w (cp_dest p).
Proof. intros Hin. cbn. rewrite Hin. intro H. apply negb_true_iff in H. now apply path_eqb_neq. Qed.

(* C04, copy: the declared state holds after a successful real run *)
Lemma copy_declared e p s ch s' :
  copy_file e p false s = (ROk ch, s') -> no_alias (TCopy p) (sw s) = true ->
  declared_b (TCopy p) (sw s) (sw s') = true.
Proof.
  intros H Hna. apply copy_real_summary in H as [want c0 m0 mf s1 Hwant Hopen Hfirst Hfinal F1 F Hmode Hnoop].
  cbn [declared_b]. rewrite Hfinal.
  assert (Hw : match cp_input p with IContent c => Some c | ISrc sp => read_src (sw s) sp end = Some want).
  { destruct (cp_input p) as [c|src] eqn:Hin; cbn in Hwant; [assumption|].
    rewrite <- Hwant. symmetry. eapply read_src_frame; eauto. eapply no_alias_copy_src; eauto. }
  rewrite Hw, String.eqb_refl. cbn [andb].
  destruct (cp_mode p) as [| |ms] eqn:Hm; cbn [want_mode mode_ok keep_mode_ok].
  - (* no mode requested: an existing destination keeps its bits *)
    cbn [andb]. destruct Hmode as [Hmf _].
    destruct Hfirst as [->|(Hnone & _)].
    + rewrite Hopen. now apply N.eqb_eq.
    + now rewrite Hnone.
  - destruct Hmode as (src & n & Hin & Hsn & Hpre & _). rewrite Hin.
    destruct (Hpre (no_alias_copy_src _ _ _ Hin Hna)) as [Hs Hmf]. rewrite Hs. cbn. rewrite andb_true_r. now apply N.eqb_eq.
  - destruct Hmode as (m & Ho & Hmf & _). rewrite Ho. cbn. rewrite andb_true_r. apply N.eqb_eq. exact Hmf.
Qed.

(* C04, copy: reported `ok` means nothing was done at all, outside K8 *)
Lemma copy_ok_noop e p s s' :
  copy_file e p false s = (ROk false, s') -> known_empty_create e (TCopy p) (sw s) = false -> s' = s.
Proof.
  intros H Hk. apply copy_real_summary in H as [want c0 m0 mf s1 Hwant Hopen Hfirst Hfinal F1 F Hmode Hnoop].
  apply Hnoop; [reflexivity|]. destruct Hfirst as [|(Hnone & -> & -> & _)]; [assumption|]. exfalso.
  assert (Hch1 : String.eqb "" want = true /\ mode_pending e p = false).
  { unfold mode_pending. destruct (cp_mode p) as [| |ms].
    - destruct Hmode as [_ E]. symmetry in E. split; [now apply negb_false_iff in E|reflexivity].
    - destruct Hmode as (? & ? & _ & _ & _ & n2 & _ & E). symmetry in E. apply orb_false_iff in E as [E _].
      split; [now apply negb_false_iff in E|reflexivity].
    - destruct Hmode as (m & Ho & _ & E). symmetry in E. apply orb_false_iff in E as [E E2].
      split; [now apply negb_false_iff in E|]. rewrite Ho. exact E2. }
  destruct Hch1 as [Hch1 Hmp].
  apply String.eqb_eq in Hch1. subst want.
  cbn [known_empty_create] in Hk. unfold kec_copy in Hk. rewrite Hnone, Hmp in Hk. cbn [negb] in Hk. rewrite andb_true_r in Hk.
  destruct (cp_input p) as [c|src] eqn:Hin; cbn in Hwant.
  - inversion Hwant; subst. discriminate Hk.
  - destruct (read_src (sw s) src) as [c|] eqn:Hr; [|discriminate Hk].
    destruct (path_eqb (res (sw s) src) (res (sw s) (cp_dest p))) eqn:E.
    + apply path_eqb_eq in E. unfold read_src, stat in Hr. unfold stat in Hnone. rewrite E, Hnone in Hr. discriminate Hr.
    + apply path_eqb_neq in E. rewrite (read_src_frame _ _ _ _ F1 E) in Hwant. rewrite Hr in Hwant.
      inversion Hwant; subst. discriminate Hk.
Qed.

(* C04, copy: reported `changed` means the destination observably differs *)
Lemma copy_changed_differs e p s s' :
  copy_file e p false s = (ROk true, s') -> stat (sw s') (cp_dest p) <> stat (sw s) (cp_dest p).
Proof.
  intros H. apply copy_real_summary in H as [want c0 m0 mf s1 Hwant Hopen Hfirst Hfinal F1 F Hmode Hnoop].
  rewrite Hfinal. destruct Hfirst as [->|(Hnone & _)]; [|rewrite Hnone; discriminate].
  rewrite Hopen. intro E. inversion E; subst.
  destruct (cp_mode p) as [| |ms].
  - destruct Hmode as [_ Hc]. rewrite String.eqb_refl in Hc. discriminate.
  - destruct Hmode as (? & ? & _ & _ & _ & n2 & Hm & Hc). rewrite String.eqb_refl, <- Hm, N.eqb_refl in Hc. discriminate.
  - destruct Hmode as (m & _ & Hm & Hc). rewrite String.eqb_refl, <- Hm, N.eqb_refl in Hc. discriminate.
Qed.

(* C05, copy: running the identical task again does nothing and reports ok *)
Lemma copy_idempotent e p s ch s' :
  copy_file e p false s = (ROk ch, s') -> no_alias (TCopy p) (sw s) = true ->
  forall l, copy_file e p false {| sw := sw s'; slog := l |} = (ROk false, {| sw := sw s'; slog := l |}).
Proof.
  intros H Hna l. apply copy_real_summary in H as [want c0 m0 mf s1 Hwant Hopen Hfirst Hfinal F1 F Hmode Hnoop].
  unfold copy_file, open_dest. cbn [sw]. rewrite Hfinal.
  assert (Hw : desired_content (cp_input p) (sw s') = Some want).
  { destruct (cp_input p) as [c|src] eqn:Hin; cbn in *; [assumption|].
    pose proof (no_alias_copy_src _ _ _ Hin Hna) as Hn.
    rewrite (read_src_frame _ _ _ _ F Hn). rewrite <- Hwant. symmetry. eapply read_src_frame; eauto. }
  cbn [sw]. rewrite Hw. unfold content_phase. rewrite String.eqb_refl. unfold mode_phase.
  destruct (cp_mode p) as [| |ms]; cbn [sw].
  - reflexivity.
  - destruct Hmode as (src & n & Hin & Hsn & Hpre & _). rewrite Hin, Hsn.
    destruct (Hpre (no_alias_copy_src _ _ _ Hin Hna)) as [Hs Hmf].
    unfold change_permissions. rewrite mask_st_mode_file, Hmf, node_perm_st_mode, N.eqb_refl; [reflexivity|].
    destruct n as [| |t]; try reflexivity. exfalso; eapply stat_not_link; eauto.
  - destruct Hmode as (m & Ho & Hmf & _). rewrite Ho.
    unfold change_permissions. rewrite mask_st_mode_file, Hmf, N.eqb_refl. reflexivity.
Qed.

(* ------------------------------------------------------------ check-mode run, C06 *)
Lemma change_permissions_check_ch s dest dm m s3 ch2 :
  change_permissions s dest dm m true = Some (s3, ch2) ->
  ch2 = negb (N.eqb (mask_perm dm) (mask_perm m)) /\ s3 = s.
Proof. unfold change_permissions. destruct (N.eqb (mask_perm dm) (mask_perm m)); intro H; simp_eqs; auto. Qed.

Lemma copy_predicts e p s c1 s1 c2 s2 :
  copy_file e p true s = (ROk c1, s1) ->
  copy_file e p false s = (ROk c2, s2) ->
  no_alias (TCopy p) (sw s) = true ->
  known_empty_create e (TCopy p) (sw s) = false -> tmp_like_create e ->
  c1 = c2.
Proof.
  intros Hc Hr Hna Hk Htmp.
  apply copy_real_summary in Hr as [want c0 m0 mf r1 Hwant Hopen Hfirst Hfinal F1 F Hmode Hnoop].
  assert (Hw : desired_content (cp_input p) (sw s) = Some want).
  { destruct (cp_input p) as [c|src] eqn:Hin; cbn in *; [assumption|].
    rewrite <- Hwant. symmetry. eapply read_src_frame; eauto. eapply no_alias_copy_src; eauto. }
  revert Hc. unfold copy_file, open_dest.
  destruct Hfirst as [->|(Hnone & -> & -> & _)].
  - (* destination existed: both runs take the same decisions *)
    rewrite Hopen, Hw. unfold content_phase.
    assert (Hcp : (if String.eqb c0 want then Some (s, false) else if true then Some (s, true) else None)
                  = Some (s, negb (String.eqb c0 want))) by (destruct (String.eqb c0 want); reflexivity).
    cbv beta iota. destruct (String.eqb c0 want) eqn:Heq; cbn [negb] in *.
    + unfold mode_phase. destruct (cp_mode p) as [| |ms].
      * intro H; simp_eqs. now destruct Hmode.
      * destruct Hmode as (src & n & Hin & Hsn & Hpre & n2 & Hn2 & ->). rewrite Hin.
        destruct (Hpre (no_alias_copy_src _ _ _ Hin Hna)) as [Hs Hmf]. rewrite Hs.
        destruct (change_permissions s (cp_dest p) (st_mode (NFile c0 m0)) (st_mode n) true) as [[s3 ch2]|] eqn:Hcp2;
          intro H; simp_eqs.
        apply change_permissions_check_ch in Hcp2 as [-> ->].
        rewrite mask_st_mode_file. cbn [orb]. rewrite <- Hn2, Hmf, node_perm_st_mode; [reflexivity|].
        destruct n as [| |t]; try reflexivity. exfalso; eapply stat_not_link; eauto.
      * destruct Hmode as (m & Ho & Hmf & ->). rewrite Ho.
        destruct (change_permissions s (cp_dest p) (st_mode (NFile c0 m0)) m true) as [[s3 ch2]|] eqn:Hcp2;
          intro H; simp_eqs.
        apply change_permissions_check_ch in Hcp2 as [-> ->]. now rewrite mask_st_mode_file.
    + unfold mode_phase. destruct (cp_mode p) as [| |ms].
      * intro H; simp_eqs. now destruct Hmode.
      * destruct Hmode as (src & n & Hin & Hsn & Hpre & n2 & Hn2 & ->). rewrite Hin.
        destruct (stat (sw s) src); [|intro H; discriminate H].
        destruct (change_permissions _ _ _ _ true) as [[s3 ch2]|]; intro H; simp_eqs. reflexivity.
      * destruct Hmode as (m & Ho & Hmf & ->). rewrite Ho.
        destruct (change_permissions _ _ _ _ true) as [[s3 ch2]|]; intro H; simp_eqs. reflexivity.
  - (* destination absent: outside K8 either the content differs or a chmod is pending: both report changed *)
    rewrite Hnone. cbn [sw log1]. rewrite Hw.
    destruct (String.eqb "" want) eqn:Hne.
    + (* empty content: a numeric mode that differs from the creation mode *)
      assert (Hmp : mode_pending e p = true).
      { cbn [known_empty_create] in Hk. unfold kec_copy in Hk. rewrite Hnone in Hk.
        destruct (mode_pending e p); [reflexivity|]. cbn [negb] in Hk. rewrite andb_true_r in Hk.
        apply String.eqb_eq in Hne. subst want.
        destruct (cp_input p) as [c|src] eqn:Hin; cbn in Hw.
        - inversion Hw; subst. discriminate Hk.
        - rewrite Hw in Hk. discriminate Hk. }
      unfold mode_pending in Hmp. unfold content_phase. rewrite Hne. unfold mode_phase.
      destruct (cp_mode p) as [| |ms]; try discriminate Hmp.
      destruct Hmode as (m & Ho & _ & ->). rewrite Ho in Hmp |- *. cbn [negb orb]. rewrite Hmp.
      destruct (change_permissions _ _ _ _ true) as [[s3 ch2]|] eqn:Hcp2; intro H; simp_eqs.
      apply change_permissions_check_ch in Hcp2 as [-> ->]. cbn [orb].
      rewrite (mask_perm_add_type ifreg (tmpmode e)) by (now left). rewrite Htmp. exact Hmp.
    + unfold content_phase. rewrite Hne.
      assert (Hc2 : c2 = true).
      { destruct (cp_mode p) as [| |ms].
        - destruct Hmode as [_ ->]. reflexivity.
        - destruct Hmode as (? & ? & _ & _ & _ & ? & _ & ->). reflexivity.
        - destruct Hmode as (? & _ & _ & ->). reflexivity. }
      subst c2. unfold mode_phase.
      destruct (cp_mode p) as [| |ms].
      * intro H; simp_eqs. reflexivity.
      * intro H. repeat (break_match; simp_eqs); reflexivity.
      * intro H. repeat (break_match; simp_eqs); reflexivity.
Qed.
