(* C09 (after the fixes of K49): Options::find answers with the SMALLEST description whose name matches,
   in the derived order of OptionArg (variant, then short, long, default), and initial_vars folds the
   descriptions in that order - so neither depends on the order in which the HashSet yields them.
   Part 1 is generic: the minimum of the matching elements under any total order is invariant under
   permutation, while "the first match" is not.  Part 2 is the derived order itself, shown to be a
   total order. *)
From Coq Require Import List String Ascii Bool Arith NArith Permutation.
From RashV Require Import Tail.
Import ListNotations.
Open Scope list_scope.

Section minimum.
  Variable A : Type.
  Variable le : A -> A -> bool.
  Hypothesis le_total : forall a b, le a b = true \/ le b a = true.
  Hypothesis le_antisym : forall a b, le a b = true -> le b a = true -> a = b.
  Hypothesis le_trans : forall a b c, le a b = true -> le b c = true -> le a c = true.

  Definition min2 (a b : A) : A := if le a b then a else b.
  Fixpoint minimum (l : list A) : option A :=
    match l with
    | [] => None
    | x :: r => match minimum r with None => Some x | Some m => Some (min2 x m) end
    end.
  (* Options::find after the fix: iter().filter(name matches).min() *)
  Definition find_min (p : A -> bool) (l : list A) : option A := minimum (filter p l).

  Lemma le_false a b : le a b = false -> le b a = true.
  Proof. intro H. destruct (le_total a b); congruence. Qed.

  Lemma min2_comm a b : min2 a b = min2 b a.
  Proof.
    unfold min2. destruct (le a b) eqn:E1, (le b a) eqn:E2; try reflexivity.
    - now apply le_antisym.
    - apply le_false in E1. congruence.
  Qed.

  Lemma min2_assoc a b c : min2 a (min2 b c) = min2 (min2 a b) c.
  Proof.
    unfold min2.
    destruct (le b c) eqn:Ebc, (le a b) eqn:Eab; rewrite ?Ebc, ?Eab; try reflexivity.
    - now rewrite (le_trans _ _ _ Eab Ebc).
    - destruct (le a c) eqn:Eac; [|reflexivity].
      apply le_false in Ebc. rewrite (le_trans _ _ _ Eac Ebc) in Eab. discriminate.
  Qed.

  Theorem minimum_perm l l' : Permutation l l' -> minimum l = minimum l'.
  Proof.
    induction 1 as [|x l l' _ IH|x y l|l l' l'' _ IH1 _ IH2]; cbn [minimum].
    - reflexivity.
    - now rewrite IH.
    - destruct (minimum l) as [m|].
      + now rewrite min2_assoc, (min2_comm y x), <- min2_assoc.
      + now rewrite min2_comm.
    - congruence.
  Qed.

  Lemma filter_perm (p : A -> bool) l l' : Permutation l l' -> Permutation (filter p l) (filter p l').
  Proof.
    induction 1 as [|x l l' _ IH|x y l|l l' l'' _ IH1 _ IH2]; cbn [filter].
    - constructor.
    - destruct (p x); [now constructor|assumption].
    - destruct (p x), (p y); try apply Permutation_refl. apply perm_swap.
    - eapply perm_trans; eassumption.
  Qed.

  (* the lookup does not depend on the order in which the set yields its elements *)
  Theorem find_min_order_independent p l l' : Permutation l l' -> find_min p l = find_min p l'.
  Proof. intro P. unfold find_min. apply minimum_perm. now apply filter_perm. Qed.

  (* when no two elements carry the name (every table of a well-formed document), it is simply THE match *)
  Theorem find_min_unique p l :
    (forall x y, In x l -> In y l -> p x = true -> p y = true -> x = y) -> find_min p l = find p l.
  Proof.
    unfold find_min. induction l as [|x r IH]; intro U; [reflexivity|]. cbn [filter find].
    assert (Ur : forall a b, In a r -> In b r -> p a = true -> p b = true -> a = b).
    { intros a b Ha Hb. apply U; now right. }
    destruct (p x) eqn:Px; [|now apply IH].
    cbn [minimum]. destruct (minimum (filter p r)) as [m|] eqn:Em; [|reflexivity].
    assert (Hm : In m (filter p r)).
    { clear - Em. revert m Em. induction (filter p r) as [|z s IHs]; intros m Em; [discriminate|].
      cbn [minimum] in Em. destruct (minimum s) as [m'|] eqn:E'.
      - inversion Em; subst. unfold min2. destruct (le z m'); [now left|right; now apply IHs].
      - inversion Em; subst. now left. }
    apply filter_In in Hm as [Hin Pm]. rewrite <- (U x m (or_introl eq_refl) (or_intror Hin) Px Pm).
    unfold min2. now destruct (le x x).
  Qed.
End minimum.

(* what the code did before: the first match of an arbitrary enumeration (K49) *)
Theorem first_match_depends_on_the_order :
  exists (p : nat -> bool) l l', Permutation l l' /\ find p l <> find p l'.
Proof. exists (fun _ => true), [1; 2], [2; 1]. split; [apply perm_swap|discriminate]. Qed.

(* ------------------------------------------------------------------ the derived order of OptionArg *)
Definition lex (c : comparison) (k : comparison) : comparison := match c with Eq => k | _ => c end.

Definition ostr_cmp (a b : option string) : comparison :=
  match a, b with
  | None, None => Eq
  | None, Some _ => Lt
  | Some _, None => Gt
  | Some x, Some y => String.compare x y
  end.

Definition kind_rank (k : okind) : nat := match k with OSimple => 0 | ORepeatable => 1 | OWithParam _ => 2 end.
Definition kind_default (k : okind) : option string := match k with OWithParam d => d | _ => None end.

(* #[derive(Ord)]: the variant first, then the fields in declaration order (short, long, default_value) *)
Definition pair_cmp {B C} (c1 : B -> B -> comparison) (c2 : C -> C -> comparison) (p q : B * C) : comparison :=
  lex (c1 (fst p) (fst q)) (c2 (snd p) (snd q)).
Definition fields (d : odesc) : nat * (option string * (option string * option string)) :=
  (kind_rank (od_kind d), (od_short d, (od_long d, kind_default (od_kind d)))).
Definition fields_cmp := pair_cmp Nat.compare (pair_cmp ostr_cmp (pair_cmp ostr_cmp ostr_cmp)).
Definition odesc_cmp (a b : odesc) : comparison := fields_cmp (fields a) (fields b).
Definition odesc_le (a b : odesc) : bool := match odesc_cmp a b with Gt => false | _ => true end.

(* a comparison that decides equality, is antisymmetric and transitive *)
Record good {A} (c : A -> A -> comparison) : Prop := {
  g_eq : forall a b, c a b = Eq -> a = b;
  g_refl : forall a, c a a = Eq;
  g_opp : forall a b, c a b = CompOpp (c b a);
  g_lt : forall a b d, c a b = Lt -> c b d = Lt -> c a d = Lt
}.

Lemma string_lt_trans : forall a b c, String.compare a b = Lt -> String.compare b c = Lt -> String.compare a c = Lt.
Proof.
  induction a as [|x a IH]; intros [|y b] [|z c] H1 H2; cbn in *; try congruence.
  destruct (Ascii.compare x y) eqn:Exy; try discriminate.
  - apply Ascii.compare_eq_iff in Exy. subst y.
    destruct (Ascii.compare x z) eqn:Exz; try congruence. now apply (IH b c).
  - destruct (Ascii.compare y z) eqn:Eyz; try discriminate.
    + apply Ascii.compare_eq_iff in Eyz. subst z. now rewrite Exy.
    + assert (L : Ascii.compare x z = Lt).
      { revert Exy Eyz. unfold Ascii.compare. rewrite !N.compare_lt_iff. apply N.lt_trans. }
      now rewrite L.
Qed.

Lemma string_refl s : String.compare s s = Eq.
Proof.
  induction s as [|c s IH]; [reflexivity|]. cbn. unfold Ascii.compare. now rewrite N.compare_refl.
Qed.

Lemma good_string : good String.compare.
Proof.
  split.
  - intros a b. apply String.compare_eq_iff.
  - apply string_refl.
  - apply String.compare_antisym.
  - apply string_lt_trans.
Qed.

Lemma good_ostr : good ostr_cmp.
Proof.
  destruct good_string as [E R O L]. split.
  - intros [a|] [b|] H; cbn in H; try discriminate; [f_equal; now apply E|reflexivity].
  - intros [a|]; cbn; [apply R|reflexivity].
  - intros [a|] [b|]; cbn; try reflexivity. apply O.
  - intros [a|] [b|] [d|] H1 H2; cbn in *; try discriminate; try reflexivity. eapply L; eassumption.
Qed.

Lemma good_nat : good Nat.compare.
Proof.
  split.
  - intros a b. apply Nat.compare_eq.
  - apply Nat.compare_refl.
  - intros a b. apply Nat.compare_antisym.
  - intros a b d. rewrite !Nat.compare_lt_iff. apply Nat.lt_trans.
Qed.

(* lexicographic composition *)
Lemma good_pair {B C} (c1 : B -> B -> comparison) (c2 : C -> C -> comparison) :
  good c1 -> good c2 -> good (pair_cmp c1 c2).
Proof.
  intros [E1 R1 O1 L1] [E2 R2 O2 L2]. unfold pair_cmp. split.
  - intros [a1 a2] [b1 b2] H. cbn in H. unfold lex in H. destruct (c1 a1 b1) eqn:X; try discriminate.
    apply E1 in X. apply E2 in H. now subst.
  - intros [a1 a2]. cbn. unfold lex. now rewrite R1, R2.
  - intros [a1 a2] [b1 b2]. cbn. unfold lex. rewrite (O1 a1 b1). destruct (c1 b1 a1); cbn; [apply O2|reflexivity|reflexivity].
  - intros [a1 a2] [b1 b2] [d1 d2] H1 H2. cbn in *. unfold lex in *.
    destruct (c1 a1 b1) eqn:X, (c1 b1 d1) eqn:Y; try discriminate.
    + apply E1 in X. apply E1 in Y. subst. rewrite R1. eapply L2; eassumption.
    + apply E1 in X. subst. now rewrite Y.
    + apply E1 in Y. subst. now rewrite X.
    + now rewrite (L1 _ _ _ X Y).
Qed.

Lemma good_inj {A B} (f : A -> B) (c : B -> B -> comparison) :
  good c -> (forall a b, f a = f b -> a = b) -> good (fun a b => c (f a) (f b)).
Proof.
  intros [E R O L] Inj. split.
  - intros a b H. apply Inj. now apply E.
  - intro a. apply R.
  - intros a b. apply O.
  - intros a b d. apply L.
Qed.

Lemma good_le {A} (c : A -> A -> comparison) : good c ->
  let le := fun a b => match c a b with Gt => false | _ => true end in
  (forall a b, le a b = true \/ le b a = true) /\
  (forall a b, le a b = true -> le b a = true -> a = b) /\
  (forall a b d, le a b = true -> le b d = true -> le a d = true).
Proof.
  intros [E R O L] le. unfold le. repeat split.
  - intros a b. rewrite (O a b). destruct (c b a); cbn; auto.
  - intros a b H1 H2. rewrite (O b a) in H2. destruct (c a b) eqn:X; cbn in *; try discriminate. now apply E.
  - intros a b d H1 H2. destruct (c a b) eqn:X; try discriminate; destruct (c b d) eqn:Y; try discriminate.
    + apply E in X. apply E in Y. subst. now rewrite R.
    + apply E in X. subst. now rewrite Y.
    + apply E in Y. subst. now rewrite X.
    + now rewrite (L _ _ _ X Y).
Qed.

(* the fields compared determine the description *)
Lemma fields_inj (a b : odesc) : fields a = fields b -> a = b.
Proof.
  destruct a as [ka sa la], b as [kb sb lb]. unfold fields. cbn. intro H. inversion H as [[K S L D]]. subst.
  destruct ka, kb; cbn in *; try discriminate; try reflexivity. now subst.
Qed.

Theorem odesc_cmp_good : good odesc_cmp.
Proof.
  unfold odesc_cmp. apply good_inj; [|exact fields_inj].
  unfold fields_cmp. repeat apply good_pair; try apply good_ostr. apply good_nat.
Qed.

(* Options::find, as repaired: the smallest description whose long (or short) name is the argument *)
Definition ofind_min (t : list odesc) (arg : string) : option odesc :=
  if starts_with "--" arg then find_min odesc odesc_le (fun d => oeq (od_long d) arg) t
  else if starts_with "-" arg then find_min odesc odesc_le (fun d => oeq (od_short d) arg) t
  else None.

(* C09: the answer does not depend on the order in which the HashSet yields the descriptions ... *)
Theorem option_lookup_is_order_independent t t' arg : Permutation t t' -> ofind_min t arg = ofind_min t' arg.
Proof.
  intro P. unfold ofind_min. destruct (good_le odesc_cmp odesc_cmp_good) as (T & A & R).
  destruct (starts_with "--" arg); [|destruct (starts_with "-" arg); [|reflexivity]];
    apply (find_min_order_independent odesc odesc_le T A R); exact P.
Qed.

(* ... and on a table in which no two descriptions share a name it is the lookup of the Tail mirror *)
Theorem option_lookup_unique_is_find t arg :
  (forall x y, In x t -> In y t -> oeq (od_long x) arg = true -> oeq (od_long y) arg = true -> x = y) ->
  (forall x y, In x t -> In y t -> oeq (od_short x) arg = true -> oeq (od_short y) arg = true -> x = y) ->
  ofind_min t arg = ofind t arg.
Proof.
  intros UL US. unfold ofind_min, ofind.
  destruct (starts_with "--" arg); [|destruct (starts_with "-" arg); [|reflexivity]];
    apply (find_min_unique odesc odesc_le); assumption.
Qed.

(* K49's witness: `-v --verbose` and `-v --version`: the repaired lookup gives the same answer for both orders,
   the first match does not *)
Example shared_short_name :
  let a := {| od_kind := OSimple; od_short := Some "-v"; od_long := Some "--verbose" |} in
  let b := {| od_kind := OSimple; od_short := Some "-v"; od_long := Some "--version" |} in
  ofind_min [a; b] "-v" = Some a /\ ofind_min [b; a] "-v" = Some a /\ ofind [a; b] "-v" <> ofind [b; a] "-v".
Proof. cbv zeta. split; [vm_compute; reflexivity|]. split; [vm_compute; reflexivity|]. vm_compute. discriminate. Qed.
