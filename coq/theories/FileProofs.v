(* define_file: declared state, honest change report, idempotence, check-mode prediction. *)
From Coq Require Import List String Ascii Bool NArith Lia.
From RashV Require Import Fs Octal OctalProofs StateMods StateSpec FsLemmas CopyProofs.
Import ListNotations.
Open Scope list_scope.

Lemma mask_small n : (n < 4096)%N -> mask_perm n = n.
Proof. intro H. rewrite mask_perm_mod. now apply N.mod_small. Qed.

(* ---- apply_permissions_if_necessary ---- *)
Lemma apin_real n octal pa s r s' :
  stat (sw s) pa = Some n -> (octal < 4096)%N ->
  apply_permissions_if_necessary n octal pa false s = (r, s') ->
  (r = ROk false /\ s' = s /\ node_perm n = octal) \/
  (r = ROk true /\ node_perm n <> octal /\
   stat (sw s') pa = Some (chmod_node n octal) /\ only_at (res (sw s) pa) s s') \/
  (r = RErr /\ s' = s).
Proof.
  intros Hst Ho. unfold apply_permissions_if_necessary.
  assert (Hl : is_link (Some n) = false).
  { destruct n as [| |t]; try reflexivity. exfalso; eapply stat_not_link; eauto. }
  rewrite (node_perm_st_mode n Hl).
  destruct (N.eqb (node_perm n) octal) eqn:E.
  - intro H; simp_eqs. apply N.eqb_eq in E. auto.
  - apply N.eqb_neq in E. destruct (sys_chmod s pa octal) as [s1|] eqn:Hc; intro H; simp_eqs; [|auto].
    right; left. split; [reflexivity|]. split; [assumption|]. split.
    + rewrite (stat_after_chmod _ _ _ _ pa Hc), path_eqb_refl, Hst. reflexivity.
    + eapply only_at_chmod; eauto.
Qed.

Lemma node_perm_chmod n m : is_link (Some n) = false -> node_perm (chmod_node n m) = mask_perm m.
Proof. destruct n as [| |t]; cbn; intro H; try discriminate; apply mask_perm_idem. Qed.

(* ---- create_dir_all ---- *)
Lemma is_dir_upd_none w q m p :
  w q = None -> is_dir w p = true -> is_dir (upd w q (Some (NDir m))) p = true.
Proof.
  intros Hq Hd. unfold is_dir in *. rewrite stat_upd by (rewrite ?Hq; reflexivity).
  destruct (path_eqb q (res w p)); [reflexivity|assumption].
Qed.

Lemma mkdir_chain_mono e ps : forall s s', mkdir_chain e s ps = Some s' ->
  (forall p, is_dir (sw s) p = true -> is_dir (sw s') p = true).
Proof.
  induction ps as [|q r IH]; intros s s' H p Hp; cbn in H; [now inversion H; subst|].
  destruct (is_dir (sw s) q) eqn:Eq; [eapply IH; eauto|].
  destruct (sw s q) eqn:Ew; [discriminate|].
  destruct (parent_ok (sw s) q); [|discriminate].
  eapply IH; [exact H|]. cbn [sw log1]. now apply is_dir_upd_none.
Qed.

Lemma mkdir_chain_all e ps : forall s s', mkdir_chain e s ps = Some s' ->
  Forall (fun q => is_dir (sw s') q = true) ps.
Proof.
  induction ps as [|q r IH]; intros s s' H; [constructor|]. cbn in H.
  destruct (is_dir (sw s) q) eqn:Eq.
  - constructor; [eapply mkdir_chain_mono; eauto|eapply IH; eauto].
  - destruct (sw s q) eqn:Ew; [discriminate|].
    destruct (parent_ok (sw s) q); [|discriminate].
    constructor; [|eapply IH; eauto].
    eapply mkdir_chain_mono; [exact H|]. cbn [sw log1]. unfold is_dir.
    rewrite stat_upd by (rewrite ?Ew; reflexivity).
    assert (R : res (sw s) q = q). { unfold res. cbn. now rewrite Ew. }
    now rewrite R, path_eqb_refl.
Qed.

Lemma prefixes_from_last acc a r : exists l, prefixes_from acc (a :: r) = l ++ [acc ++ a :: r].
Proof.
  revert acc a. induction r as [|b r IH]; intros acc a; cbn.
  - exists []. reflexivity.
  - destruct (IH (acc ++ [a]) b) as [l Hl]. cbn in Hl. rewrite Hl.
    exists ((acc ++ [a]) :: l). rewrite <- app_assoc. reflexivity.
Qed.
Lemma prefixes_last p : p <> [] -> exists l, prefixes p = l ++ [p].
Proof. destruct p as [|a r]; [congruence|]. intros _. apply (prefixes_from_last [] a r). Qed.

Lemma mkdir_all_is_dir e s pa s' : pa <> [] -> sys_mkdir_all e s pa = Some s' -> is_dir (sw s') pa = true.
Proof.
  intros Hne H. unfold sys_mkdir_all in H. apply mkdir_chain_all in H.
  destruct (prefixes_last pa Hne) as [l Hl]. rewrite Hl in H.
  apply Forall_app in H as [_ H]. now inversion H.
Qed.

(* chmod_all with one mode: once the target directory carries that mode, it keeps it *)
Lemma chmod_all_keeps pa m ps : forall s s',
  chmod_all s ps m = Some s' -> stat (sw s) pa = Some (NDir (mask_perm m)) ->
  stat (sw s') pa = Some (NDir (mask_perm m)).
Proof.
  induction ps as [|q r IH]; intros s s' H Hst; cbn in H; [now inversion H; subst|].
  destruct (sys_chmod s q m) as [s1|] eqn:Hc; [|discriminate].
  eapply IH; [exact H|]. rewrite (stat_after_chmod _ _ _ _ pa Hc), Hst.
  destruct (path_eqb _ _); reflexivity.
Qed.

Lemma chmod_all_first pa m r s s' x :
  chmod_all s (pa :: r) m = Some s' -> stat (sw s) pa = Some (NDir x) ->
  stat (sw s') pa = Some (NDir (mask_perm m)).
Proof.
  cbn. destruct (sys_chmod s pa m) as [s1|] eqn:Hc; [|discriminate]. intros H Hst.
  eapply chmod_all_keeps; [exact H|].
  rewrite (stat_after_chmod _ _ _ _ pa Hc), path_eqb_refl, Hst. reflexivity.
Qed.

Lemma sys_unlink_lstat s p s' : sys_unlink s p = Some s' -> lstat (sw s') p = None.
Proof.
  unfold sys_unlink, lstat. destruct (sw s p) as [[| |t]|]; intro H; inversion H; subst; cbn; apply upd_same.
Qed.
Lemma sys_rmtree_lstat s p s' : sys_rmtree s p = Some s' -> lstat (sw s') p = None.
Proof.
  unfold sys_rmtree, lstat. destruct (sw s p) as [[| |t]|]; intro H; inversion H; subst; cbn;
    [unfold rm_tree; now rewrite is_prefix_refl | apply upd_same].
Qed.

(* ---- C04: declared state ---- *)
Lemma file_mode_ok_of m ms n : parse_octal ms = OOk m -> n = m -> file_mode_ok (Some ms) n = true.
Proof. intros H ->. cbn. rewrite H. apply N.eqb_refl. Qed.

Lemma file_declared e p s ch s' :
  fp_path p <> [] ->
  define_file e p false s = (ROk ch, s') ->
  known_type_mismatch (TFile p) (sw s) = false ->
  known_absent_dangling (TFile p) (sw s) = false ->
  declared_b (TFile p) (sw s) (sw s') = true.
Proof.
  intros Hne H K1 K2. unfold define_file in H. cbn [declared_b known_type_mismatch known_absent_dangling] in *.
  destruct (fp_state p) eqn:Est.
  - (* absent *)
    destruct (stat (sw s) (fp_path p)) as [[c m|m|t]|] eqn:Hst.
    + destruct (sys_unlink s (fp_path p)) as [s1|] eqn:Hu; simp_eqs.
      now rewrite (sys_unlink_lstat _ _ _ Hu).
    + destruct (sys_rmtree s (fp_path p)) as [s1|] eqn:Hu; simp_eqs.
      now rewrite (sys_rmtree_lstat _ _ _ Hu).
    + exfalso; eapply stat_not_link; eauto.
    + simp_eqs. unfold lstat in *. destruct (sw s' (fp_path p)) as [[| |t]|] eqn:El; try reflexivity.
      * exfalso. unfold stat, res in Hst. cbn in Hst. rewrite El in Hst. now rewrite El in Hst.
      * exfalso. unfold stat, res in Hst. cbn in Hst. rewrite El in Hst. now rewrite El in Hst.
      * discriminate K2.
  - (* directory *)
    destruct (fp_mode p) as [ms|] eqn:Em.
    + destruct (parse_octal ms) as [m|] eqn:Ho; [|discriminate].
      pose proof (parse_octal_bound _ _ Ho) as Hb.
      destruct (stat (sw s) (fp_path p)) as [n|] eqn:Hst.
      * destruct (apin_real _ _ _ _ _ _ Hst Hb H) as [(R & -> & Hp)|[(R & Hn & Hs' & _)|(R & _)]]; try discriminate R.
        -- rewrite Hst. destruct n as [c m0|m0|t]; [discriminate K1| |exfalso; eapply stat_not_link; eauto].
           eapply file_mode_ok_of; eauto.
        -- rewrite Hs'. destruct n as [c m0|m0|t]; [discriminate K1| |exfalso; eapply stat_not_link; eauto].
           cbn. rewrite Ho. apply N.eqb_eq. rewrite mask_perm_idem. now apply mask_small.
      * destruct (sys_mkdir_all e s (fp_path p)) as [s1|] eqn:Hmk; [|discriminate].
        destruct (chmod_all s1 _ m) as [s2|] eqn:Hca; simp_eqs.
        pose proof (mkdir_all_is_dir _ _ _ _ Hne Hmk) as Hd. unfold is_dir in Hd.
        destruct (stat (sw s1) (fp_path p)) as [[|x|]|] eqn:Hs1; try discriminate.
        destruct (prefixes_last _ Hne) as [l Hl].
        assert (Hrev : exists r, rev (filter (fun q => negb (is_dir (sw s) q)) (prefixes (fp_path p))) = fp_path p :: r).
        { rewrite Hl, filter_app. cbn [filter]. unfold is_dir at 2. rewrite Hst. cbn [negb].
          rewrite rev_app_distr. cbn. eauto. }
        destruct Hrev as [r Hr]. rewrite Hr in Hca.
        rewrite (chmod_all_first _ _ _ _ _ _ Hca Hs1).
        cbn. rewrite Ho. apply N.eqb_eq. rewrite mask_perm_idem. now apply mask_small.
    + destruct (stat (sw s) (fp_path p)) as [n|] eqn:Hst.
      * simp_eqs. rewrite Hst. destruct n as [c m0|m0|t]; [discriminate K1|reflexivity|exfalso; eapply stat_not_link; eauto].
      * destruct (sys_mkdir_all e s (fp_path p)) as [s1|] eqn:Hmk; simp_eqs.
        pose proof (mkdir_all_is_dir _ _ _ _ Hne Hmk) as Hd. unfold is_dir in Hd.
        destruct (stat (sw s') (fp_path p)) as [[|x|]|]; try discriminate. reflexivity.
  - (* file *)
    destruct (fp_mode p) as [ms|] eqn:Em.
    + destruct (parse_octal ms) as [m|] eqn:Ho; [|discriminate].
      pose proof (parse_octal_bound _ _ Ho) as Hb.
      destruct (stat (sw s) (fp_path p)) as [n|] eqn:Hst.
      * assert (Hl : is_link (Some n) = false).
        { destruct n as [| |t]; try reflexivity. exfalso; eapply stat_not_link; eauto. }
        destruct (apin_real _ _ _ _ _ _ Hst Hb H) as [(R & -> & Hp)|[(R & Hn & Hs' & _)|(R & _)]]; try discriminate R.
        -- rewrite Hst. eapply file_mode_ok_of; eauto.
        -- rewrite Hs'. eapply file_mode_ok_of; eauto. rewrite node_perm_chmod by assumption. now apply mask_small.
      * unfold fail_if_not_exist in H. rewrite Hst in H. discriminate.
    + unfold fail_if_not_exist in H. destruct (stat (sw s) (fp_path p)) eqn:Hst; simp_eqs. now rewrite Hst.
  - (* touch *)
    destruct (fp_mode p) as [ms|] eqn:Em.
    + destruct (parse_octal ms) as [m|] eqn:Ho; [|discriminate].
      pose proof (parse_octal_bound _ _ Ho) as Hb.
      destruct (stat (sw s) (fp_path p)) as [n|] eqn:Hst.
      * destruct (apin_real _ _ _ _ _ _ Hst Hb H) as [(R & -> & Hp)|[(R & Hn & Hs' & _)|(R & _)]]; try discriminate R.
        -- rewrite Hst. destruct n as [c m0|m0|t]; [|discriminate K1|exfalso; eapply stat_not_link; eauto].
           eapply file_mode_ok_of; eauto.
        -- rewrite Hs'. destruct n as [c m0|m0|t]; [|discriminate K1|exfalso; eapply stat_not_link; eauto].
           cbn. rewrite Ho. apply N.eqb_eq. rewrite mask_perm_idem. now apply mask_small.
      * destruct (sys_create e s (fp_path p)) as [s1|] eqn:Hc; [|discriminate].
        destruct (sys_chmod s1 (fp_path p) m) as [s2|] eqn:Hch; simp_eqs.
        rewrite (stat_after_chmod _ _ _ _ (fp_path p) Hch), path_eqb_refl.
        rewrite (stat_after_create _ _ _ _ (fp_path p) Hc), path_eqb_refl. cbn.
        rewrite Ho. apply N.eqb_eq. rewrite mask_perm_idem. now apply mask_small.
    + destruct (stat (sw s) (fp_path p)) as [n|] eqn:Hst.
      * simp_eqs. rewrite Hst. destruct n as [c m0|m0|t]; [reflexivity|discriminate K1|exfalso; eapply stat_not_link; eauto].
      * destruct (sys_create e s (fp_path p)) as [s1|] eqn:Hc; simp_eqs.
        rewrite (stat_after_create _ _ _ _ (fp_path p) Hc), path_eqb_refl. reflexivity.
Qed.

(* ---- post-state facts that hold for every successful real run (also inside K9) ---- *)
Lemma stat_of_none w p : w p = None -> stat w p = None.
Proof. intro H. unfold stat, res. cbn. now rewrite !H. Qed.

Definition file_post (p : file_params) (w' : world) : Prop :=
  match fp_state p with
  | SAbsent => stat w' (fp_path p) = None
  | _ => exists n, stat w' (fp_path p) = Some n /\
                   forall ms m, fp_mode p = Some ms -> parse_octal ms = OOk m -> node_perm n = m
  end.

Lemma define_file_post e p s ch s' :
  fp_path p <> [] -> define_file e p false s = (ROk ch, s') -> file_post p (sw s').
Proof.
  intros Hne H. unfold define_file in H. unfold file_post.
  assert (APIN : forall n ms m, stat (sw s) (fp_path p) = Some n -> fp_mode p = Some ms -> parse_octal ms = OOk m ->
            apply_permissions_if_necessary n m (fp_path p) false s = (ROk ch, s') ->
            exists n', stat (sw s') (fp_path p) = Some n' /\
                       forall ms' m', fp_mode p = Some ms' -> parse_octal ms' = OOk m' -> node_perm n' = m').
  { intros n ms m Hst Em Ho Ha. pose proof (parse_octal_bound _ _ Ho) as Hb.
    assert (Hl : is_link (Some n) = false).
    { destruct n as [| |t]; try reflexivity. exfalso; eapply stat_not_link; eauto. }
    destruct (apin_real _ _ _ _ _ _ Hst Hb Ha) as [(R & -> & Hp)|[(R & Hn & Hs' & _)|(R & _)]]; try discriminate R.
    - exists n. split; [assumption|]. intros ms' m' E1 E2. congruence.
    - exists (chmod_node n m). split; [assumption|]. intros ms' m' E1 E2.
      rewrite node_perm_chmod by assumption. assert (m' = m) by congruence. subst. now apply mask_small. }
  destruct (fp_state p) eqn:Est.
  - destruct (stat (sw s) (fp_path p)) as [[c m|m|t]|] eqn:Hst.
    + destruct (sys_unlink s (fp_path p)) as [s1|] eqn:Hu; simp_eqs.
      apply stat_of_none. exact (sys_unlink_lstat _ _ _ Hu).
    + destruct (sys_rmtree s (fp_path p)) as [s1|] eqn:Hu; simp_eqs.
      apply stat_of_none. exact (sys_rmtree_lstat _ _ _ Hu).
    + exfalso; eapply stat_not_link; eauto.
    + simp_eqs. assumption.
  - destruct (fp_mode p) as [ms|] eqn:Em.
    + destruct (parse_octal ms) as [m|] eqn:Ho; [|discriminate].
      destruct (stat (sw s) (fp_path p)) as [n|] eqn:Hst; [eapply APIN; eauto|].
      destruct (sys_mkdir_all e s (fp_path p)) as [s1|] eqn:Hmk; [|discriminate].
      destruct (chmod_all s1 _ m) as [s2|] eqn:Hca; simp_eqs.
      pose proof (mkdir_all_is_dir _ _ _ _ Hne Hmk) as Hd. unfold is_dir in Hd.
      destruct (stat (sw s1) (fp_path p)) as [[|x|]|] eqn:Hs1; try discriminate.
      destruct (prefixes_last _ Hne) as [l Hl].
      assert (Hrev : exists r, rev (filter (fun q => negb (is_dir (sw s) q)) (prefixes (fp_path p))) = fp_path p :: r).
      { rewrite Hl, filter_app. cbn [filter]. unfold is_dir at 2. rewrite Hst. cbn [negb].
        rewrite rev_app_distr. cbn. eauto. }
      destruct Hrev as [r Hr]. rewrite Hr in Hca.
      eexists. split; [exact (chmod_all_first _ _ _ _ _ _ Hca Hs1)|].
      intros ms' m' E1 E2. inversion E1; subst. assert (m' = m) by congruence. subst.
      cbn. rewrite mask_perm_idem. apply mask_small. eapply parse_octal_bound; eauto.
    + destruct (stat (sw s) (fp_path p)) as [n|] eqn:Hst.
      * simp_eqs. exists n. split; [assumption|]. intros; discriminate.
      * destruct (sys_mkdir_all e s (fp_path p)) as [s1|] eqn:Hmk; simp_eqs.
        pose proof (mkdir_all_is_dir _ _ _ _ Hne Hmk) as Hd. unfold is_dir in Hd.
        destruct (stat (sw s') (fp_path p)) as [n|]; [|discriminate].
        exists n. split; [reflexivity|]. intros; discriminate.
  - destruct (fp_mode p) as [ms|] eqn:Em.
    + destruct (parse_octal ms) as [m|] eqn:Ho; [|discriminate].
      destruct (stat (sw s) (fp_path p)) as [n|] eqn:Hst; [eapply APIN; eauto|].
      unfold fail_if_not_exist in H. rewrite Hst in H. discriminate.
    + unfold fail_if_not_exist in H. destruct (stat (sw s) (fp_path p)) as [n|] eqn:Hst; simp_eqs.
      exists n. split; [assumption|]. intros; discriminate.
  - destruct (fp_mode p) as [ms|] eqn:Em.
    + destruct (parse_octal ms) as [m|] eqn:Ho; [|discriminate].
      destruct (stat (sw s) (fp_path p)) as [n|] eqn:Hst; [eapply APIN; eauto|].
      destruct (sys_create e s (fp_path p)) as [s1|] eqn:Hc; [|discriminate].
      destruct (sys_chmod s1 (fp_path p) m) as [s2|] eqn:Hch; simp_eqs.
      eexists. split.
      { rewrite (stat_after_chmod _ _ _ _ (fp_path p) Hch), path_eqb_refl.
        rewrite (stat_after_create _ _ _ _ (fp_path p) Hc), path_eqb_refl. reflexivity. }
      intros ms' m' E1 E2. inversion E1; subst. assert (m' = m) by congruence. subst.
      cbn. rewrite mask_perm_idem. apply mask_small. eapply parse_octal_bound; eauto.
    + destruct (stat (sw s) (fp_path p)) as [n|] eqn:Hst.
      * simp_eqs. exists n. split; [assumption|]. intros; discriminate.
      * destruct (sys_create e s (fp_path p)) as [s1|] eqn:Hc; simp_eqs.
        eexists. split; [rewrite (stat_after_create _ _ _ _ (fp_path p) Hc), path_eqb_refl; reflexivity|].
        intros; discriminate.
Qed.

(* C05, file: the identical task applied again does nothing and reports ok *)
Lemma file_idempotent e p s ch s' :
  fp_path p <> [] -> define_file e p false s = (ROk ch, s') ->
  forall l, define_file e p false {| sw := sw s'; slog := l |} = (ROk false, {| sw := sw s'; slog := l |}).
Proof.
  intros Hne H l. pose proof (define_file_post _ _ _ _ _ Hne H) as P. unfold file_post in P.
  unfold define_file, fail_if_not_exist. cbn [sw].
  destruct (fp_state p) eqn:Est.
  - now rewrite P.
  - destruct P as (n & Hn & Hm). rewrite Hn.
    destruct (fp_mode p) as [ms|] eqn:Em; [|reflexivity].
    destruct (parse_octal ms) as [m|] eqn:Ho.
    + unfold apply_permissions_if_necessary.
      assert (Hl : is_link (Some n) = false).
      { destruct n as [| |t]; try reflexivity. exfalso; eapply stat_not_link; eauto. }
      rewrite node_perm_st_mode by assumption. rewrite (Hm ms m eq_refl Ho), N.eqb_refl. reflexivity.
    + exfalso. unfold define_file in H. rewrite Est, Em, Ho in H. discriminate H.
  - destruct P as (n & Hn & Hm). rewrite Hn.
    destruct (fp_mode p) as [ms|] eqn:Em; [|reflexivity].
    destruct (parse_octal ms) as [m|] eqn:Ho.
    + unfold apply_permissions_if_necessary.
      assert (Hl : is_link (Some n) = false).
      { destruct n as [| |t]; try reflexivity. exfalso; eapply stat_not_link; eauto. }
      rewrite node_perm_st_mode by assumption. rewrite (Hm ms m eq_refl Ho), N.eqb_refl. reflexivity.
    + exfalso. unfold define_file in H. rewrite Est, Em, Ho in H. discriminate H.
  - destruct P as (n & Hn & Hm). rewrite Hn.
    destruct (fp_mode p) as [ms|] eqn:Em; [|reflexivity].
    destruct (parse_octal ms) as [m|] eqn:Ho.
    + unfold apply_permissions_if_necessary.
      assert (Hl : is_link (Some n) = false).
      { destruct n as [| |t]; try reflexivity. exfalso; eapply stat_not_link; eauto. }
      rewrite node_perm_st_mode by assumption. rewrite (Hm ms m eq_refl Ho), N.eqb_refl. reflexivity.
    + exfalso. unfold define_file in H. rewrite Est, Em, Ho in H. discriminate H.
Qed.

(* C04, file: `ok` means nothing at all was done *)
Lemma file_ok_noop e p s s' : define_file e p false s = (ROk false, s') -> s' = s.
Proof.
  unfold define_file, fail_if_not_exist, apply_permissions_if_necessary. intro H.
  repeat (first [progress simp_eqs | break_match]); reflexivity.
Qed.

(* C06, file: check mode reports what the real run reports *)
Lemma file_predicts e p s c1 s1 c2 s2 :
  define_file e p true s = (ROk c1, s1) -> define_file e p false s = (ROk c2, s2) -> c1 = c2.
Proof.
  unfold define_file, fail_if_not_exist, apply_permissions_if_necessary.
  destruct (fp_state p); destruct (fp_mode p) as [ms|]; try destruct (parse_octal ms);
    destruct (stat (sw s) (fp_path p)) as [[c m|m|t]|];
    intros H1 H2; repeat (first [progress simp_eqs | break_match]); reflexivity.
Qed.

(* C04, file: `changed` means the path observably differs *)
Lemma lstat_of_stat w p n : stat w p = Some n -> lstat w p <> None.
Proof.
  unfold lstat. intros H E. rewrite (stat_of_none _ _ E) in H. discriminate.
Qed.

Lemma file_changed_differs e p s s' :
  fp_path p <> [] -> define_file e p false s = (ROk true, s') ->
  lstat (sw s') (fp_path p) <> lstat (sw s) (fp_path p) \/ stat (sw s') (fp_path p) <> stat (sw s) (fp_path p).
Proof.
  intros Hne H. pose proof (define_file_post _ _ _ _ _ Hne H) as P. unfold file_post in P.
  unfold define_file in H.
  assert (APIN : forall n m, stat (sw s) (fp_path p) = Some n -> (m < 4096)%N ->
            apply_permissions_if_necessary n m (fp_path p) false s = (ROk true, s') ->
            stat (sw s') (fp_path p) <> stat (sw s) (fp_path p)).
  { intros n m Hst Hb Ha.
    assert (Hl : is_link (Some n) = false).
    { destruct n as [| |t]; try reflexivity. exfalso; eapply stat_not_link; eauto. }
    destruct (apin_real _ _ _ _ _ _ Hst Hb Ha) as [(R & _)|[(R & Hn & Hs' & _)|(R & _)]]; try discriminate R.
    rewrite Hs', Hst. intro E. inversion E as [E']. apply Hn. rewrite <- E' at 1.
    rewrite node_perm_chmod by assumption. now apply mask_small. }
  destruct (fp_state p) eqn:Est.
  - left. destruct (stat (sw s) (fp_path p)) as [[c m|m|t]|] eqn:Hst.
    + destruct (sys_unlink s (fp_path p)) as [s1|] eqn:Hu; simp_eqs.
      rewrite (sys_unlink_lstat _ _ _ Hu). intro E. symmetry in E. revert E. eapply lstat_of_stat; eauto.
    + destruct (sys_rmtree s (fp_path p)) as [s1|] eqn:Hu; simp_eqs.
      rewrite (sys_rmtree_lstat _ _ _ Hu). intro E. symmetry in E. revert E. eapply lstat_of_stat; eauto.
    + exfalso; eapply stat_not_link; eauto.
    + simp_eqs.
  - right. destruct P as (n' & Hn' & _).
    destruct (stat (sw s) (fp_path p)) as [n|] eqn:Hst; [|rewrite Hn'; discriminate].
    destruct (fp_mode p) as [ms|]; [|simp_eqs].
    destruct (parse_octal ms) as [m|] eqn:Ho; [|discriminate].
    eapply APIN; eauto. eapply parse_octal_bound; eauto.
  - right. destruct P as (n' & Hn' & _).
    destruct (stat (sw s) (fp_path p)) as [n|] eqn:Hst; [|rewrite Hn'; discriminate].
    destruct (fp_mode p) as [ms|]; [|unfold fail_if_not_exist in H; rewrite Hst in H; simp_eqs].
    destruct (parse_octal ms) as [m|] eqn:Ho; [|discriminate].
    eapply APIN; eauto. eapply parse_octal_bound; eauto.
  - right. destruct P as (n' & Hn' & _).
    destruct (stat (sw s) (fp_path p)) as [n|] eqn:Hst; [|rewrite Hn'; discriminate].
    destruct (fp_mode p) as [ms|]; [|simp_eqs].
    destruct (parse_octal ms) as [m|] eqn:Ho; [|discriminate].
    eapply APIN; eauto. eapply parse_octal_bound; eauto.
Qed.
