(* C13 (partial): the modelled panic sites are total after the fixes, and the growth law behind K15. *)
From Coq Require Import List String Bool NArith Lia.
From RashV Require Import Octal OctalProofs Engine EngineProofs.
Import ListNotations.
Open Scope list_scope.

(* --- docopt's final help test: `new_vars.get("help")` may hold any JSON value --- *)
Inductive jv := JvNull | JvBool (b : bool) | JvNum (n : N) | JvStr (s : string) | JvOther.
Inductive outcome3 := ONo | OHelp | OPanic.
(* before the fix: Some(y) if y.as_bool().unwrap() *)
Definition help_check_old (v : option jv) : outcome3 :=
  match v with
  | None => ONo
  | Some (JvBool true) => OHelp
  | Some (JvBool false) => ONo
  | Some _ => OPanic
  end.
(* after: y.as_bool().unwrap_or(false) *)
Definition help_check (v : option jv) : outcome3 :=
  match v with Some (JvBool true) => OHelp | _ => ONo end.

Theorem help_check_never_panics v : help_check v <> OPanic.
Proof. destruct v as [[|[]| | |]|]; discriminate. Qed.
Theorem help_check_old_refuted : help_check_old (Some (JvStr "v")) = OPanic.
Proof. reflexivity. Qed.
Theorem help_check_agrees_on_booleans b : help_check (Some (JvBool b)) = help_check_old (Some (JvBool b)).
Proof. destruct b; reflexivity. Qed.

(* --- parse_octal: every byte string gives a value or an error; the old slice panicked --- *)
Theorem parse_octal_total s : exists r, parse_octal s = r /\ (r = OErr \/ exists n, r = OOk n /\ (n < 4096)%N).
Proof.
  destruct (parse_octal s) as [n|] eqn:E; eexists; split; try reflexivity.
  - right. exists n. split; [reflexivity|]. eapply parse_octal_bound; eauto.
  - now left.
Qed.

(* --- K15: in the mirror every loop item leaves one more layer in the store; the stack of
   lazily merged layers is what overflows at 10^5 items. With the property-text switches the
   store does not grow (spec_loop_restores_store) --- *)
Theorem mirror_store_grows_with_items root fs run_inc t its : forall ctx evs ctx',
  writes (t_mod t) = false -> t_register t = None ->
  exec_items mirror_quirks root fs run_inc t its ctx = (evs, Ok ctx') ->
  (List.length ctx' = List.length ctx + List.length its)%nat.
Proof.
  induction its as [|it r IH]; intros ctx evs ctx' Hw Hr H; cbn in H.
  - inversion H; subst. cbn. lia.
  - destruct (Engine.exec_module mirror_quirks root fs run_inc t (("item"%string, VStr it) :: ctx)) as [e [c1|]] eqn:Em; [|discriminate].
    apply task_vars_do_not_persist in Em; [|assumption|assumption]. subst c1.
    destruct (Engine.exec_items mirror_quirks root fs run_inc t r (("item"%string, VStr it) :: ctx)) as [e2 [c2|]] eqn:Er; inversion H; subst.
    apply IH in Er; [|assumption|assumption]. cbn [List.length] in *. lia.
Qed.
