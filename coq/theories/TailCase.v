(* Case runner for the docopt tail mirror. *)
From Coq Require Import List String Ascii Bool NArith.
From RashV Require Import Sexp Tail NormOpts OptLookup.
Import ListNotations.
Open Scope string_scope. Open Scope list_scope.

Definition dec_os (e : sexp) : option (option string) :=
  match e with Atom "none" => Some None | a => option_map Some (atom_bytes a) end.

Definition dec_odesc (e : sexp) : option odesc :=
  match e with
  | SList [k; s; l; d] =>
      match dec_os s, dec_os l, dec_os d with
      | Some s, Some l, Some d =>
          match k with
          | Atom "simple" => Some {| od_kind := OSimple; od_short := s; od_long := l |}
          | Atom "repeatable" => Some {| od_kind := ORepeatable; od_short := s; od_long := l |}
          | Atom "withparam" => Some {| od_kind := OWithParam d; od_short := s; od_long := l |}
          | _ => None
          end
      | _, _, _ => None
      end
  | _ => None
  end.

Fixpoint enc_jv (v : jv) : sexp :=
  match v with
  | JNull => Atom "null"
  | JBool b => show_bool b
  | JNum n => SList [Atom "num"; show_N n]
  | JStr s => SList [Atom "str"; bytes_atom s]
  | JArr l => SList (Atom "arr" :: map bytes_atom l)
  | JObj m => SList (Atom "obj" :: map (fun kv => SList [bytes_atom (fst kv); enc_jv (snd kv)]) m)
  end.

(* (tail (opts ODESC...) (argv xHEX...) (usages xHEX...)) *)
Definition run_tail (e : sexp) : option sexp :=
  match e with
  | SList [Atom "tail"; SList (Atom "opts" :: os); SList (Atom "argv" :: av); SList (Atom "usages" :: us)] =>
      match map_opt dec_odesc os, map_opt atom_bytes av, map_opt atom_bytes us with
      | Some os, Some av, Some us =>
          Some (match tail os av us with
                | TPanic => Atom "panic"
                | TInvalidUsage => Atom "invalid-usage"
                | TNoMatch => Atom "no-match"
                | THelp => Atom "help"
                | TVars v => SList [Atom "vars"; enc_jv v]
                end)
      | _, _, _ => None
      end
  | _ => None
  end.

(* (normopts (opts ODESC...) (argv xHEX...)) : the mirror of Options::normalize_options *)
Definition run_normopts (e : sexp) : option sexp :=
  match e with
  | SList [Atom "normopts"; SList (Atom "opts" :: os); SList (Atom "argv" :: av)] =>
      match map_opt dec_odesc os, map_opt atom_bytes av with
      | Some os, Some av =>
          Some (match normalize_options os av with
                | Some l => SList (Atom "some" :: map bytes_atom l)
                | None => Atom "unknown-option"
                end)
      | _, _ => None
      end
  | _ => None
  end.

(* (optfind (opts ODESC...) xARG) -> none | xSIMPLE_REPR : Options::find as repaired (the smallest matching description) *)
Definition run_optfind (e : sexp) : option sexp :=
  match e with
  | SList [Atom "optfind"; SList (Atom "opts" :: os); a] =>
      match map_opt dec_odesc os, atom_bytes a with
      | Some os, Some a => Some (match ofind_min os a with Some d => bytes_atom (simple_repr d) | None => Atom "none" end)
      | _, _ => None
      end
  | _ => None
  end.
