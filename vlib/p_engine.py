"""C01 C02 C11 C17 property checks (task engine), real `rash --output raw` vs Engine.v."""
import json, os, re
from . import common as C
from . import engine as E
from .engine import task, lit
from .common import hx, sx, parse_sx, unhx

TB = [
    "Coq 8.16.1 kernel; no axioms (Print Assumptions: closed under the global context)",
    "extraction: ExtrOcamlBasic + ExtrOcamlString only; ocaml/main.ml line driver",
    "Engine.v: hand-written mirror of Context::exec / Task::exec / exec_module / render_map / set_vars / include / main, with the recorded deviations K2-K5 as switches (all on = the code, all off = the property text); fidelity rests on this correspondence run",
    "the expression/template fragment (==, !=, not, and, or, is defined, {{ var }}) stands for minijinja 2.9: validated only on the generated fragment",
    "serde_yaml parsing of the generated scripts, /bin/sh for command tasks",
    "python generator + canonicalisation (stdout records compared exactly, text of ignored errors as wildcard lines)",
]
QUIRKS = ["K5-render-failure-not-ignorable", "K2-loop-item-leaks", "K4-include-discards-variables", "K3-task-vars-not-seen-by-module-or-changed-when"]


def S(i, suffix=""):
    return "<<t%d%s>>" % (i, suffix)


# ---------------------------------------------------------------- generic judge
def judge(run, cases, label):
    """cases: list of dict(files, script, desc). Runs mirror, spec and implementation."""
    mir = E.run_models(cases, E.MIRROR)
    spe = E.run_models(cases, E.SPEC)
    imp = E.run_impls(cases)
    # which quirk is responsible when mirror != spec
    need = [i for i in range(len(cases)) if mir[i] != spe[i]]
    resp = {}
    for qi in range(4):
        flags = tuple("f" if j == qi else "t" for j in range(4))
        outs = E.run_models([cases[i] for i in need], flags)
        for i, o in zip(need, outs):
            if o != mir[i]:
                resp.setdefault(i, []).append(QUIRKS[qi])
    nontrivial = set()
    mism = 0
    stats = dict(ok=0, failed=0, known=0)
    for i, c in enumerate(cases):
        d_m = E.differs(mir[i], imp[i])
        d_s = E.differs(spe[i], imp[i])
        rep = dict(c.get("desc", {}), files={n: E.file_text(f, "ROOT") for n, f in c["files"].items()},
                   script=c.get("script", "main.rh"), implementation=imp[i],
                   model_events=[list(e) for e in mir[i][0]], model_exit_ok=mir[i][1])
        if len(mir[i][0]) > 1:
            nontrivial.add(json.dumps(rep["files"], sort_keys=True))
        stats["ok" if imp[i]["rc"] == 0 else "failed"] += 1
        if d_s is None:
            if d_m is not None:
                mism += 1
                run.violation("correspondence: %s: the implementation meets the property text but no longer behaves like the mirror model: %s" % (label, d_m),
                              dict(rep, broken="correspondence Engine.v mirror"), no_input=True)
            continue
        # the property (spec switches) fails on this input
        if d_m is None and i in resp:
            stats["known"] += 1
            for k in resp[i][:1]:
                run.known(k, "")
        else:
            run.violation("%s: %s" % (label, d_s), rep)
    return dict(cases=len(cases), nontrivial=len(nontrivial), stats=stats, mirror_disagreements=mism, sample=cases[:1], impl_sample=imp[:1])


def finish_cov(run, j, rule, extra=None):
    run.coverage.update(evaluations=j["cases"], distinct_nontrivial=j["nontrivial"], rule=rule,
                        samples=[dict(files={n: E.file_text(f, "ROOT") for n, f in c["files"].items()}) for c in j["sample"]] + j["impl_sample"],
                        traces_validated_against_impl=j["cases"], trusted_base=TB, run_statistics=j["stats"],
                        mirror_disagreements=j["mirror_disagreements"], exhaustive=False)
    if extra:
        run.coverage.update(extra)
    run.assumptions = ["raw output mode", "values confined to YAML-stable alphabetic strings", "commands print to stdout only, stderr empty"]


# ---------------------------------------------------------------- building blocks
INIT = task(('setvars', [('a', lit('va')), ('b', lit('vb'))]))
INC1 = dict(tasks=[task(('debug', lit('<<inc1>> ') + [('v', ['rash', 'path'])])),
                   task(('command', 'kinc1', '', 0))])
INC_FAIL = dict(tasks=[task(('debug', lit('<<incf.1>>'))), task(('assert', [('eq', ('var', ['a']), ('str', 'nope'))])),
                       task(('debug', lit('<<incf.3>>')))])
INC_INVALID = dict(tasks=[task(('debug', lit('<<incbad.1>>'))), task(('command', 'kincbad', '', 0))], invalid=(1, "unknown_key"))


def normal_slot(kind, i):
    if kind == 0:
        return task(('debug', lit(S(i) + " ") + [('v', ['a'])]))
    if kind == 1:
        return task(('debug', lit("<<t%d." % i) + [('v', ['item'])] + lit(">>")), loop=[lit('x'), lit('y'), [('v', ['a'])]])
    if kind == 2:
        return task(('debug', lit("<<t%d." % i) + [('v', ['item'])] + lit(">>")), loop=[lit('x'), lit('y'), lit('z')],
                    when=('ne', ('var', ['item']), ('str', 'y')))
    if kind == 3:
        return task(('setvars', [('a', lit('w%d' % i))]))
    if kind == 4:
        return task(('command', 'k%d' % i, 'o%d' % i, 0), register='r%d' % i)
    if kind == 5:
        return task(('copy', 'c%d' % i))
    if kind == 6:
        return task(('assert', [('def', ['a']), ('ne', ('var', ['a']), ('str', 'nope'))]))
    if kind == 7:
        return task(('include', 'inc1.rh'))
    if kind == 8:
        return task(('debug', lit(S(i) + " skipped")), when=('eq', ('var', ['a']), ('str', 'never')))
    if kind == 9:
        return task(('debug', lit(S(i) + " ") + [('v', ['lv'])]), vars=[('lv', lit('L') + [('v', ['b'])])])
    if kind == 10:
        return task(('command', 'k%d' % i, '', 0), changed_when=('bool', False), loop=[lit('p'), lit('q')])
    if kind == 12:
        return task(('debug', lit("<<t%d." % i) + [('v', ['item'])] + lit(">>")), loop=[lit('x'), lit('y'), lit('z')],
                    vars=[('n', lit('N') + [('v', ['item'])])], when=('eq', ('var', ['n']), ('str', 'Ny')))
    if kind == 13:
        return task(('command', 'k%d' % i, '', 0), loop=[lit('p'), lit('q')], vars=[('n', lit('N') + [('v', ['item'])])],
                    when=('ne', ('var', ['n']), ('str', 'Np')), register='r%d' % i)
    if kind == 15:
        # outputs that END in a line feed (raw mode prints the output, then its own line feed: two of them)
        return task(('debug', lit(S(i) + " nl\n")))
    if kind == 16:
        return task(('debug', lit("\n" + S(i) + "\n\n")), loop=[lit('x'), lit('y')])
    return task(('debugvar', ['b']))


NKINDS = 17


def failing_slot(fk, i, ignore):
    if fk == 0:
        t = task(('assert', [('eq', ('var', ['a']), ('str', 'nope'))]))
    elif fk == 1:
        t = task(('command', 'k%dfail' % i, '', 3))
    elif fk == 2:
        t = task(('debug', lit(S(i) + " ") + [('v', ['undefined_u'])]))
    elif fk == 3:
        t = task(('debug', lit(S(i))), when=('var', ['undefined_u']))
    elif fk == 4:
        t = task(('debug', lit(S(i) + " ") + [('v', ['item'])]), loop=[lit('x'), [('v', ['undefined_u'])]])
    elif fk == 5:
        t = task(('badparam',))
    elif fk == 6:
        t = task(('assert', [('ne', ('var', ['item']), ('str', 'y'))]), loop=[lit('x'), lit('y'), lit('z')])
    elif fk == 7:
        t = task(('include', 'incf.rh'))
    elif fk == 8:
        t = task(('include', 'incbad.rh'))
    elif fk == 9:
        t = task(('command', 'k%dloopfail' % i, '', 2), loop=[lit('x'), lit('y')], when=('eq', ('var', ['item']), ('str', 'y')))
    elif fk == 11:
        t = task(('command', 'k%dsig' % i, '', 1009))        # killed by SIGKILL: no exit status
    elif fk == 12:
        t = task(('command', 'k%dterm' % i, '', 1015), loop=[lit('x'), lit('y')], when=('eq', ('var', ['item']), ('str', 'x')))
    elif fk == 14:
        t = task(('debugvar', ['undefined_u']))         # a template error raised INSIDE the module: an ordinary, ignorable failure
    elif fk == 15:
        t = task(('command', 'k%dcw' % i, 'o%d' % i, 0), changed_when=('var', ['undefined_u']))      # the module runs, then changed_when cannot be evaluated
    elif fk == 16:
        t = task(('command', 'k%dcwl' % i, '', 0), changed_when=('var', ['undefined_u']), loop=[lit('x'), lit('y')])
    else:
        t = task(('include', 'missing.rh'))
    t["ignore"] = ignore
    return t


NFAIL = 17
TRUTH_LITS = [('list', 0), ('list', 2), ('map', 0), ('map', 1), ('num', 0), ('num', 3), ('bool', False), ('bool', True), ('str', 'x')]


def c01(run, replay=None):
    rng = run.rng
    nsk = 30 if run.tier == "quick" else 300
    cases = []
    for s in range(nsk):
        n = rng.randint(2, 5)
        kinds = [rng.randrange(NKINDS) for _ in range(n)]
        base = [INIT] + [normal_slot(k, i + 1) for i, k in enumerate(kinds)]
        files = {"inc1.rh": INC1, "incf.rh": INC_FAIL, "incbad.rh": INC_INVALID}
        cases.append(dict(files=dict(files, **{"main.rh": dict(tasks=base)}), desc=dict(skeleton=kinds, failure=None)))
        for pos in range(1, n + 1):
            for fk in range(NFAIL):
                for ign in (None, True, False):
                    if run.tier == "quick" and rng.random() < 0.55:
                        continue
                    ts = list(base)
                    ts[pos] = failing_slot(fk, pos, ign)
                    cases.append(dict(files=dict(files, **{"main.rh": dict(tasks=ts)}),
                                      desc=dict(skeleton=kinds, failure=dict(position=pos, kind=fk, ignore_errors=ign))))
    # the same programs given inline on the command line (-s / --script)
    for c in list(cases[:40:4]):
        if all(n == "main.rh" or True for n in c["files"]):
            cases.append(dict(c, inline=("-s" if len(cases) % 2 else "--script"), desc=dict(c["desc"], inline=True)))
    # which values make `when` / `assert` true: every kind of value a variable can hold (empty and non-empty list and
    # mapping, none, 0 and non-zero, booleans, empty and non-empty string), each as a bare `when: v`, negated, and asserted
    for li, L in enumerate(TRUTH_LITS):
        pre = [INIT, task(('setlit', 'v', L))]
        cases.append(dict(files={"main.rh": dict(tasks=pre + [task(('command', 'kw%d' % li, '', 0), when=('var', ['v'])), task(('debug', lit(S(9))))])},
                          desc=dict(truthiness="when", literal=L)))
        cases.append(dict(files={"main.rh": dict(tasks=pre + [task(('command', 'kn%d' % li, '', 0), when=('not', ('var', ['v']))), task(('debug', lit(S(9))))])},
                          desc=dict(truthiness="when not", literal=L)))
        cases.append(dict(files={"main.rh": dict(tasks=pre + [task(('assert', [('var', ['v'])])), task(('command', 'ka%d' % li, '', 0))])},
                          desc=dict(truthiness="assert", literal=L)))
        cases.append(dict(files={"main.rh": dict(tasks=pre + [task(('debug', lit("<<it>>")), loop=[lit('x'), lit('y')], when=('var', ['v']))])},
                          desc=dict(truthiness="when in loop", literal=L)))
    # loops given as ONE template: a variable holding a list, a literal list expression, a range, a filter chain
    for li2, (pre_lit, raw, items) in enumerate([
            (('list', 2), '"{{ lst }}"', ['e0', 'e1']), (('list', 0), '"{{ lst }}"', []), (None, '"{{ [\'p\', \'q\', \'r\'] }}"', ['p', 'q', 'r']),
            (None, '"{{ range(3) | list }}"', ['0', '1', '2']), (None, '"{{ [a, b] }}"', ['va', 'vb']), (('list', 2), '"{{ lst | reverse | list }}"', ['e1', 'e0'])]):
        pre = [INIT] + ([task(('setlit', 'lst', pre_lit))] if pre_lit else [])
        lt = task(('debug', lit("<<it.") + [('v', ['item'])] + lit(">>")), loop=[lit(x) for x in items])
        lt["loop_raw"] = raw
        ft = task(('command', 'klp%d' % li2, '', 0), loop=[lit(x) for x in items], when=('ne', ('var', ['item']), ('str', items[0] if items else 'zz')))
        ft["loop_raw"] = raw
        mid = [lt] if "range" in raw else [lt, ft]      # (range yields integers: a comparison with a string would differ in type)
        cases.append(dict(files={"main.rh": dict(tasks=pre + mid + [task(('debug', lit(S(9))))])}, desc=dict(loop_as_template=raw)))
    # conditions written as YAML numbers / lists of mixed literals (K37: `when: 0` used to be dropped)
    for wi, (raw, val) in enumerate([("0", False), ("1", True), ("0.0", False), ("2.5", True), ("[1, \"false\"]", False), ("[1, true, \"true\"]", True), ("[0]", False), ("-1", True)]):
        t = task(('command', 'kr%d' % wi, '', 0), when=('bool', val))
        t["when_raw"] = raw
        cases.append(dict(files={"main.rh": dict(tasks=[INIT, t, task(('debug', lit(S(9))))])}, desc=dict(truthiness="literal when", literal=raw)))
    # list-form conditions: every item is one condition, the items are AND-ed - whatever an item looks like inside
    # (an `or` written with a tab, on two lines, without blanks around it; a conditional expression)
    for wi, (raw, val) in enumerate([
            ("[\"a == 'va' or\\ta == 'zz'\", \"a == 'nope'\"]", False),
            ("[\"a == 'nope'\", \"a == 'va' or\\ta == 'zz'\"]", False),
            ("\n    - |\n      a == 'va'\n      or a == 'zz'\n    - \"a == 'nope'\"", False),
            ("[\"(a == 'va')or(a == 'zz')\", \"a == 'nope'\"]", False),
            ("[\"a == 'va' or a == 'zz'\", \"a == 'nope'\"]", False),
            ("[\"a == 'va' or a == 'zz'\", \"a == 'va'\"]", True),
            ("[\"'yes' if a == 'va' else ''\", \"a == 'va'\"]", True),
            ("[\"'' if a == 'va' else 'yes'\", \"a == 'va'\"]", False)]):
        t = task(('command', 'kl%d' % wi, '', 0), when=('bool', val))
        t["when_raw"] = raw
        cases.append(dict(files={"main.rh": dict(tasks=[INIT, t, task(('debug', lit(S(9))))])}, desc=dict(truthiness="list-form when", literal=raw)))
    j = judge(run, cases, "order/once/stop")
    finish_cov(run, j,
               "random skeletons of 2-5 tasks over debug / looped debug / when / set_vars / command+register / copy / assert / include / vars / changed_when, "
               "each with every failure kind (false assert, non-zero command, undefined variable in params / when / loop, bad parameter, failure at the 2nd loop iteration, "
               "failure inside an include, invalid include file, missing include) at every position x ignore_errors in {absent,true,false} (sub-sampled in quick); "
               "non-trivial = distinct programs whose model trace has more than one event")


# ---------------------------------------------------------------- C02
def reads(i):
    """a probe task printing the current values of a, b and which of z / item / rg are defined"""
    return task(('debug', lit(S(i) + " a=") + [('v', ['a'])] + lit(" b=") + [('v', ['b'])] + lit(" z=") + [('e', ('def', ['z']))] +
                 lit(" item=") + [('e', ('def', ['item']))] + lit(" rg=") + [('e', ('def', ['rg']))]))


def c02_step(rng, i):
    """one randomly decorated task: module x vars x when x loop x register x ignore_errors"""
    looped = rng.random() < 0.35
    m = rng.randrange(8)
    tag = "<<s%d>> " % i
    if m == 0:
        mod = ('debug', lit(tag + "a=") + [('v', ['a'])] + (lit(" it=") + [('v', ['item'])] if looped else []))
    elif m == 1:
        mod = ('setvars', [(rng.choice("ab"), lit('s%d' % i) + ([('v', ['item'])] if looped and rng.random() < 0.5 else []))])
    elif m == 2:
        mod = ('setvars', [('a', lit('m%d' % i)), ('b', [('v', ['a'])] + lit('x'))])
    elif m == 3:
        mod = ('command', 'k%d' % i, 'o%d' % i, 0)
    elif m == 4:
        mod = ('command', 'k%df' % i, '', 1)
    elif m == 5:
        mod = ('assert', [('eq', ('var', ['a']), ('str', rng.choice(['va', 'nope', 'T%d' % i])))])
    elif m == 7:
        # a looped set_vars whose task var `z` reads what the PREVIOUS iteration wrote: task vars are rendered
        # afresh for every item, against the store as it is then
        looped = True
        mod = ('setvars', [('a', lit('s%d' % i) + [('v', ['item'])]), ('b', [('v', ['z'])])])
    else:
        mod = ('debugvar', ['a'])
    t = task(mod)
    if m in (4, 5):
        t["ignore"] = True
    if m == 3 and rng.random() < 0.7:
        t["register"] = 'rg'
    r = rng.random()
    if r < 0.3:
        t["vars"] = [('a', lit('T%d' % i))]
    elif r < 0.45:
        t["vars"] = [('z', lit('Z%d' % i) + ([('v', ['item'])] if looped else []))]
    elif r < 0.55:
        t["vars"] = [('a', lit('T%d' % i)), ('z', [('v', ['a'])] + lit('q'))]
    if m == 7:
        t["vars"] = [('z', [('v', ['a'])] + lit('q'))]
    if m == 0 and t["vars"] and t["vars"][-1][0] == 'z':
        # the task's own var is printed: per item when looped
        t["mod"] = ('debug', mod[1] + lit(" z=") + [('v', ['z'])])
    if looped:
        t["loop"] = rng.choice([[lit('p'), lit('q')], [lit('x'), [('v', ['a'])], lit('y')], [lit('only')]])
    r = rng.random()
    if r < 0.2:
        t["when"] = ('bool', False)
    elif r < 0.3:
        t["when"] = ('eq', ('var', ['a']), ('str', 'never'))
    elif r < 0.4:
        t["when"] = ('ne', ('var', ['a']), ('str', 'never'))
    elif r < 0.55 and looped:
        t["when"] = ('ne', ('var', ['item']), ('str', rng.choice(['q', 'p', 'x', 'y'])))
    elif r < 0.62 and t["vars"]:
        t["when"] = ('eq', ('var', [t["vars"][0][0]]), ('str', 'never'))
    return t


def c02_history(rng, n):
    ts = [INIT, reads(0)]
    for i in range(1, n + 1):
        ts.append(c02_step(rng, i))
        ts.append(reads(i))
    return ts


def c02(run, replay=None):
    rng = run.rng
    nh = 400 if run.tier == "quick" else 10000
    cases = []
    for h in range(nh):
        ts = c02_history(rng, rng.randint(2, 8))
        cases.append(dict(files={"main.rh": dict(tasks=ts)}, desc=dict(history=h)))
    # writes inside an included file (K4), item after a loop (K2), task vars in assert (K3)
    incw = dict(tasks=[task(('setvars', [('a', lit('fromInclude'))])), reads(90)])
    cases.append(dict(files={"main.rh": dict(tasks=[INIT, task(('include', 'incw.rh')), reads(1)]), "incw.rh": incw}, desc=dict(history="include-writes")))
    # an include task that carries task vars (plain, looped, skipped, ignored-failing): neither the included file's
    # tasks nor the tasks after the include may see them as persistent variables
    incr = dict(tasks=[reads(91)])
    incfail = dict(tasks=[reads(92), task(('assert', [('eq', ('var', ['a']), ('str', 'nope'))]))])
    for hi, deco in enumerate([dict(), dict(loop=[lit('p'), lit('q')]), dict(when=('bool', False)), dict(ignore=True, file='incfail.rh'),
                               dict(loop=[lit('p')], register='rg'), dict(when=('eq', ('var', ['z']), ('str', 'Zi')))]):
        inc = task(('include', deco.get('file', 'incr.rh')), vars=[('a', lit('Ti')), ('z', lit('Zi'))])
        for k2 in ('loop', 'when', 'ignore', 'register'):
            if k2 in deco:
                inc[k2] = deco[k2]
        cases.append(dict(files={"main.rh": dict(tasks=[INIT, reads(0), inc, reads(1), task(('setvars', [('b', [('v', ['a'])])])), reads(2)]),
                                 "incr.rh": incr, "incfail.rh": incfail}, desc=dict(history="include-with-vars-%d" % hi)))
    j = judge(run, cases, "variable visibility")
    # -e overrides and environment inheritance are judged directly on the implementation
    envcases = []
    for k, v, pre in [("VP_NEW", "n1", None), ("VP_OLD", "o2", "o1"), ("VP_EQ", "a=b", None), ("VP_EMPTY", "", "x")]:
        ts = [task(('debug', lit("<<env>> ") + [('v', ['env', k])])),
              task(('command', 'kenv', '', 0))]
        c = dict(files={"main.rh": dict(tasks=ts)}, rash_args=["-e", "%s=%s" % (k, v)], env=({k: pre} if pre is not None else {}), desc=dict(env=k))
        c["files"]["main.rh"]["tasks"][1]["mod"] = ('command', 'kenv', '', 0)
        envcases.append((k, v, c))
    # the same key twice: the last -e wins (EnvModel.env_override)
    ts2 = [task(('debug', lit("<<env>> ") + [('v', ['env', 'VP_TWICE'])]))]
    envcases.append(("VP_TWICE", "second", dict(files={"main.rh": dict(tasks=ts2)}, rash_args=["-e", "VP_TWICE=first", "-e", "VP_TWICE=second"],
                                                env={"VP_TWICE": "inherited"}, desc=dict(env="VP_TWICE twice"))))
    outs = E.run_impls([c for _, _, c in envcases])
    for (k, v, c), o in zip(envcases, outs):
        if o["rc"] != 0 or ("<<env>> %s\n" % v) not in o["stdout"]:
            run.violation("env-override: -e %s=%s is not visible as env.%s: %r" % (k, v, k, o), dict(desc=c["desc"], implementation=o))
    # child inherits: a command prints the variable
    envp = []
    for k, v in [("VP_CHILD", "c1"), ("PATHX", "p q")]:
        script = "#!/usr/bin/env rash\n- command:\n    argv: [printenv, %s]\n" % k
        envp.append((k, v, dict(files={"main.rh": dict(raw=script)}, rash_args=["-e", "%s=%s" % (k, v)], desc=dict(child_env=k))))
    outs = E.run_impls([c for _, _, c in envp])
    for (k, v, c), o in zip(envp, outs):
        if o["rc"] != 0 or not o["stdout"].startswith(v + "\n"):
            run.violation("env-inherit: child command does not see -e %s=%s: %r" % (k, v, o), dict(desc=c["desc"], implementation=o))
    # K55: a task var that reads an ATTRIBUTE of the loop item (`p: "{{ item.path }}"` over a list of mappings): the loop list is
    # rendered with the task vars extended over item == "", where `"".path` is undefined - the task fails before its first item
    k55 = ("#!/usr/bin/env rash\n- debug:\n    msg: \"p={{ p }}\"\n  vars:\n    p: \"{{ item.path }}\"\n  loop:\n    - {path: /a}\n    - {path: /b}\n- debug:\n    msg: after\n")
    ko = E.run_impls([dict(files={"main.rh": dict(raw=k55)})])[0]
    if ko["rc"] == 0 and [l for l in ko["stdout"].split("\n") if l] == ["p=/a", "p=/b", "after"]:
        pass
    elif ko["rc"] != 0 and "p=" not in ko["stdout"]:
        run.known("K55-task-vars-reading-item-attributes", "")
    else:
        run.violation("a task var reading an attribute of the loop item: unexpected behaviour rc=%r stdout=%r" % (ko["rc"], ko["stdout"]), dict(script=k55, observed=ko))
    # `name` is a template like the others: it sees what earlier tasks of the same file wrote (default output: TASK [path:name]);
    # (a name that uses the task's own vars or `item` silently falls back to the module name: not judged)
    import subprocess
    nroot = os.path.join(C.SANDBOX, "names")
    os.makedirs(nroot, exist_ok=True)
    nscript = ("#!/usr/bin/env rash\n- name: \"step {{ v | default('unset') }}\"\n  set_vars:\n    v: one\n- name: \"step {{ v }}\"\n  command: echo two\n  register: r\n"
               "- name: \"after {{ r.output | trim }} {{ v }}\"\n  set_vars:\n    v: three\n- name: \"looped {{ v }}\"\n  debug:\n    msg: x\n  loop: [p, q]\n"
               "- include: %s/ninc.rh\n" % nroot)
    open(os.path.join(nroot, "main.rh"), "w").write(nscript)
    open(os.path.join(nroot, "ninc.rh"), "w").write("#!/usr/bin/env rash\n- name: \"inc {{ v }}\"\n  set_vars:\n    v: four\n- name: \"inc {{ v }}\"\n  debug:\n    msg: z\n")
    pn = subprocess.run([C.RASH, os.path.join(nroot, "main.rh")], capture_output=True, timeout=30, cwd=nroot, env=dict(os.environ, NO_COLOR="1"))
    heads = re.findall(r"TASK \[[^\]:]*:([^\]]*)\]", re.sub(r"\x1b\[[0-9;]*m", "", pn.stdout.decode("utf-8", "replace")))
    want_heads = ["step unset", "step one", "after two one", "looped three", "include", "inc three", "inc four"]
    if pn.returncode != 0 or heads != want_heads:
        run.violation("task names are not rendered against the store of the moment: headers %r, expected %r (rc %r)" % (heads, want_heads, pn.returncode),
                      dict(script=nscript, observed=dict(rc=pn.returncode, headers=heads, stderr=pn.stderr.decode("utf-8", "replace")[-300:])))
    finish_cov(run, j,
               "random histories of 2-8 steps over set_vars / register / task vars / loops (item) / when / skipped and ignored-failed tasks, a probe task printing a, b and `item is defined` after every step; "
               "plus -e overrides of new and existing environment variables seen through env.* and by child commands; non-trivial = distinct histories with more than one event",
               dict(env_cases=len(envcases) + len(envp)))



# ---------------------------------------------------------------- C11: which entries are valid (Valid.v)
V_MODULES = {"assert": "\n    that: [\"true\"]", "command": " \"true\"", "copy": "\n    content: x\n    dest: ROOT/out/vf", "debug": "\n    msg: vdbg",
             "file": "\n    path: ROOT/out/vd\n    state: directory", "find": "\n    paths: ROOT/out", "include": " ROOT/vinc.rh", "pacman": "\n    name: x",
             "set_vars": "\n    vk: vv", "template": "\n    src: ROOT/vinc.rh\n    dest: ROOT/out/vt"}
V_KEYWORDS = {"become": "false", "become_user: ": None, "changed_when": "false", "check_mode": "false", "ignore_errors": "false", "name": "vn", "loop": "[1]",
              "register": "vr", "vars": "{vx: 1}", "when": "false"}
V_KEYWORDS = {k.rstrip(": "): (v if v is not None else "root") for k, v in V_KEYWORDS.items()}
# values of when / changed_when / check_mode: (yaml text, model shape); every `when` here is false or unreadable, so a task that IS built never runs
V_WHEN = [("false", "bool"), ("[false]", ["seq", "bool"]), ("[false, \"a == 1\"]", ["seq", "bool", "str"]), ("0", "num"), ("\"false\"", "str"), ("[0, false, \"x\"]", ["seq", "num", "bool", "str"]),
          ("[false, ~]", ["seq", "bool", "null"]), ("{a: b}", "map"), ("[[false]]", ["seq", ["seq", "bool"]]), ("[false, {a: b}]", ["seq", "bool", "map"]), ("[~]", ["seq", "null"])]
V_CHANGED = [("false", "bool"), ("[true, 1]", ["seq", "bool", "num"]), ("\"true\"", "str"), ("~", "null"),
             ("[true, ~]", ["seq", "bool", "null"]), ("{a: b}", "map"), ("[[true]]", ["seq", ["seq", "bool"]])]
V_CHECK = [("true", "bool"), ("false", "bool"), ("~", "null"), ("yes", "str"), ("\"true\"", "str"), ("1", "num"), ("[true]", ["seq", "bool"]), ("{a: b}", "map"), ("no", "str")]
V_OTHER = ["ignore-errors", "changed-when", "check-mode", "become-user", "When", "WHEN", "Debug", "COMMAND", "loops", "var", "registers", "ignoreerrors", "with_items", "tags", "notify",
           "module", "params", "global_params", "set-vars", "setvars", "shell", "when ", " when", "rash", "item", "", "debug ", "command.", "include_tasks", "block", "become_method"]
V_NONSTR = ["7", "true", "~", "1.5", "[a, b]"]


def valid_entry(rng, clean=False):
    """(yaml text of one entry, s-expression of its key set); clean: one module plus keywords only"""
    r = rng.random()
    if r < 0.08 and not clean:
        return rng.choice(["- just a string\n", "- 7\n", "- ~\n", "- [debug, x]\n", "- true\n"]), "notmap", ["null", "null", "null"]
    keys = []
    nm = 1 if clean else rng.choice([0, 1, 1, 1, 1, 1, 2])
    keys += [("m", k) for k in rng.sample(sorted(V_MODULES), nm)]
    keys += [("k", k) for k in rng.sample(sorted(V_KEYWORDS), rng.randint(0, 4))]
    if rng.random() < 0.35 and not clean:
        keys += [("o", k) for k in rng.sample(V_OTHER, rng.choice([1, 1, 2]))]
    if rng.random() < 0.08 and not clean:
        keys.append(("n", rng.choice(V_NONSTR)))
    rng.shuffle(keys)
    if not keys:
        return "- {}\n", ["keys"], ["null", "null", "null"]
    # never let a generated task do anything: a task that is built is skipped (`when: false`) - the question is only
    # whether the FILE is accepted
    if not any(k == "when" for _, k in keys):
        keys.append(("k", "when"))
    L = []
    vals = dict(when="null", changed_when="null", check_mode="null")
    for kind, k in keys:
        if kind == "m":
            L.append("%s:%s" % (k, V_MODULES[k]))
        elif kind == "k" and k in vals:
            tab = dict(when=V_WHEN, changed_when=V_CHANGED, check_mode=V_CHECK)[k]
            # mostly the readable forms; with clean=True only those
            good = [x for x in tab if x[1] in ("bool", "num", "null") or (k != "check_mode" and (x[1] == "str" or (isinstance(x[1], list) and all(y in ("bool", "num", "str") for y in x[1][1:]))))]
            txt, shape = rng.choice(good if clean or rng.random() < 0.6 else tab)
            vals[k] = shape
            L.append("%s: %s" % (k, txt))
        elif kind == "k":
            L.append("%s: %s" % (k, V_KEYWORDS[k]))
        elif kind == "o":
            L.append("%s: x" % json.dumps(k))
        else:
            L.append("? %s\n: x" % k if k.startswith("[") else "%s: x" % k)
    text = "- " + "\n".join(L).replace("\n", "\n  ") + "\n"
    return text, ["keys"] + [(["s", hx(k)] if kind != "n" else "other") for kind, k in keys], [vals["when"], vals["changed_when"], vals["check_mode"]]


def c11_validity(run):
    """files of 1-3 generated entries after a marker task: the mirror of validate_attrs / get_module_name (Valid.v) says
    whether the file is accepted; rash must run the marker (and exit 0) exactly then, and run NOTHING otherwise"""
    rng = run.rng
    n = 150 if run.tier == "quick" else 3000
    files, sxs, vsx = [], [], []
    for i in range(n):
        # half of the files are valid by construction apart from at most one freely generated entry
        k = rng.randint(1, 3)
        if rng.random() < 0.5:
            odd = rng.randrange(k + 1)
            ents = [valid_entry(rng, clean=(x != odd)) for x in range(k)]
        else:
            ents = [valid_entry(rng) for _ in range(k)]
        text = "#!/usr/bin/env rash\n- command: \"echo vmark >> ROOT/log\"\n" + "".join(t for t, _, _ in ents)
        files.append(text)
        sxs.append(sx(["validfile", ["keys", ["s", hx("command")]]] + [e for _, e, _ in ents]))
        vsx.append(sx(["validvals"] + [v for _, _, v in ents]))
    mouts = C.run_oracle(sxs)
    vouts = C.run_oracle(vsx)
    cases = [dict(files={"main.rh": dict(raw=t), "vinc.rh": dict(raw="#!/usr/bin/env rash\n- debug:\n    msg: vinc\n")}, desc=dict(validity=i)) for i, t in enumerate(files)]
    outs = E.run_impls(cases)
    dist = dict(valid=0, invalid=0)
    for t, mo, vo, o in zip(files, mouts, vouts, outs):
        r = parse_sx(mo)
        fv = r[-1] == "t" and all(x == "t" for x in parse_sx(vo))      # keys (validate_attrs, get_module_name) AND values (get_task)
        mo = mo + " " + vo
        dist["valid" if fv else "invalid"] += 1
        ran = bool(o["log"])
        if fv and (o["rc"] != 0 or not ran):
            run.violation("validity: Valid.v accepts every entry of this file but rash exits %r / marker ran=%s: %s" % (o["rc"], ran, o["stderr"][-200:]),
                          dict(script=t, model=mo, implementation=o))
        if not fv and (o["rc"] == 0 or ran or o["out"]):
            run.violation("validity: Valid.v rejects an entry of this file (%s) but rash exits %r / marker ran=%s" % (mo, o["rc"], ran), dict(script=t, model=mo, implementation=o))
    return n, dist

# ---------------------------------------------------------------- C11
USAGE_DOC = "#\n# Usage: prog go <x>\n#        prog help\n#        prog [--help]\n#\n# Options:\n#   --help  show help\n#\n"


def c11(run, replay=None):
    rng = run.rng
    cases = []
    nv = 4 if run.tier == "quick" else 8
    valid = [task(('command', 'k%d' % i, '', 0)) if i % 2 else task(('debug', lit(S(i)))) for i in range(1, nv + 1)]
    for n in range(0, nv + 1):
        for pos in range(0, n + 1):
            for kind in E.INVALID_TEXT:
                cases.append(dict(files={"main.rh": dict(tasks=valid[:n], invalid=(pos, kind))}, desc=dict(valid_tasks=n, invalid_position=pos, kind=kind)))
    cases.append(dict(files={"main.rh": dict(raw="#!/usr/bin/env rash\nkey: value\n")}, desc=dict(kind="non-sequence file")))
    # a file whose top level is ONE task written without its leading dash (a mapping that would be a valid task), a
    # string, a number: not a task list
    cases.append(dict(files={"main.rh": dict(raw="#!/usr/bin/env rash\nname: one task without a dash\ncommand: \"sh -c 'echo k1 >> ROOT/log'\"\n")}, desc=dict(kind="top-level mapping that is a valid task")))
    cases.append(dict(files={"main.rh": dict(raw="#!/usr/bin/env rash\ndebug:\n  msg: x\n")}, desc=dict(kind="top-level mapping: a module")))
    cases.append(dict(files={"main.rh": dict(raw="#!/usr/bin/env rash\njust text\n")}, desc=dict(kind="top-level string")))
    cases.append(dict(files={"main.rh": dict(raw="#!/usr/bin/env rash\n42\n")}, desc=dict(kind="top-level number")))
    cases.append(dict(files={"main.rh": dict(raw="#!/usr/bin/env rash\n- - command: \"sh -c 'echo k1 >> ROOT/log'\"\n")}, desc=dict(kind="nested list of tasks")))
    cases.append(dict(files={"main.rh": dict(raw="#!/usr/bin/env rash\n- command: \"echo k1 >> ROOT/log\"\n- [1, 2\n")}, desc=dict(kind="yaml syntax error after a valid task")))
    # an invalid task inside an included file: the include task fails, the tasks before it have run
    j = judge(run, [c for c in cases if "raw" not in c["files"]["main.rh"]], "no task before validation")
    rawcases = [c for c in cases if "raw" in c["files"]["main.rh"]]
    for c in rawcases:
        c["files"]["main.rh"]["raw"] = c["files"]["main.rh"]["raw"]
    outs = E.run_impls(rawcases)
    for c, o in zip(rawcases, outs):
        if o["rc"] == 0 or o["log"] or o["out"]:
            run.violation("invalid file executed something or exited 0: %r" % o, dict(desc=c["desc"], implementation=o))
    # arguments rejected / help requested: nothing runs
    body = "- command: \"echo kmain >> ROOT/log\"\n- debug:\n    msg: \"<<ran>>\"\n"
    docA = "#\n# Usage:\n#   prog (install|update|help) [<filters>...]\n#\n"
    docB = "#\n# Usage:\n#   prog [--help] <foo>\n#\n"
    docC = ("#\n# Usage:\n#   prog (install|update|help) [<filters>...]\n#   prog -h | --help\n#\n# Options:\n#   -h,--help   Show this screen\n#\n")
    docD = "#\n# Usage:\n#   prog [--force] <target>\n#\n# Options:\n#   --force  Do it anyway\n#\n"
    dcases = []
    for doc, argv, expect in [(docC, ["--help"], "help"), (docC, ["-h"], "help"), (docC, ["help"], "help"), (docC, ["install"], "run"),
                              (docC, ["bogus"], "reject"), (docC, ["install", "f1"], "run"),
                              (docA, ["nope"], "reject"), (docA, [], "reject"), (docA, ["install"], "run"), (docA, ["update", "f1", "f2"], "run"),
                              (docA, ["help"], "help"), (docA, ["install", "update"], "run"), (docA, ["--bogus"], "reject"),
                              (docB, ["--help"], "help"), (docB, ["v"], "run"), (docB, [], "reject"), (docB, ["v", "w"], "reject"),
                              (docB, ["--help", "v"], "help"),
                              # a script that does NOT declare help: --help / -h are unknown options like any other
                              (docD, ["--help"], "reject"), (docD, ["-h"], "reject"), (docD, ["--help", "prod"], "reject"), (docD, ["--force", "prod", "--help"], "reject"),
                              (docD, ["prod", "-h"], "reject"), (docD, ["--force", "prod"], "run"), (docD, ["prod"], "run"), (docD, ["help"], "run"), (docD, ["--bogus", "prod"], "reject"),
                              # declared help together with an option the script does not know
                              (docC, ["--help", "--bogus"], "reject"), (docC, ["--bogus", "-h"], "reject")]:
        dcases.append((argv, expect, dict(files={"main.rh": dict(raw="#!/usr/bin/env rash\n" + doc + body)}, argv=(["--"] + argv if argv else []),
                                          desc=dict(usage=doc, argv=argv, expect=expect))))
    # documentation blocks written in other ways (no blank after `#`, `#!` inside, tabs, CRLF, a `#` on a task line,
    # comments after the tasks, unicode): the printed text must be exactly what the mirror of parse_help extracts
    for blk, tail in [("#\n#Usage:  prog [--help]\n#\n# Options:\n#   --help  show  help\n#\n", "- debug:\n    msg: \"<<ran>>\"\n"),
                      ("#\n# Usage: prog [--help]\n#!not shown\n#\ttabbed\n#   two  blanks\n#  é ✓\n", "- debug: # trailing comment on the first task\n    msg: \"<<ran>>\"\n# a later comment\n"),
                      ("# Usage: prog [--help]\n", "\n- debug:\n    msg: \"<<ran>>\"\n# Usage: other\n"),
                      ("#\r\n# Usage: prog [--help]\r\n#\r\n", "- debug:\r\n    msg: \"<<ran>>\"\r\n"),
                      ("#\n# Usage:\n#   prog [--help]\n#   prog go\n#\n# Options:\n#   --help   Show this.\n#\n# Examples:\n#   prog go   # runs\n", "- debug:\n    msg: \"<<ran>>\"\n")]:
        dcases.append((["--help"], "help", dict(files={"main.rh": dict(raw="#!/usr/bin/env rash\n" + blk + tail)}, argv=["--", "--help"],
                                                desc=dict(usage=blk, argv=["--help"], expect="help"))))
    # K44: the help option given where the other (required) arguments of every pattern are missing
    docD = "#\n# Usage:\n#   prog [--help] <a> <b>\n#\n"
    docE = "#\n# Usage:\n#   prog go <x>\n#   prog -h | --help\n#\n# Options:\n#   -h, --help  Show this.\n#\n"
    for doc, argv, expect in [(docD, ["--help"], "help-k44"), (docD, ["--help", "v", "w"], "help"), (docE, ["go", "--help"], "help-k44"), (docE, ["--help"], "help"), (docE, ["-h"], "help")]:
        dcases.append((argv, expect, dict(files={"main.rh": dict(raw="#!/usr/bin/env rash\n" + doc + body)}, argv=["--"] + argv, desc=dict(usage=doc, argv=argv, expect=expect))))
    outs = E.run_impls([c for _, _, c in dcases])
    helps = C.run_oracle([sx(["helpdoc", hx(c["files"]["main.rh"]["raw"])]) for _, _, c in dcases])
    nd = 0
    for (argv, expect, c), o, hm in zip(dcases, outs, helps):
        nd += 1
        if expect == "help-k44":
            ran = bool(o["log"]) or "<<ran>>" in o["stdout"]
            if not ran and o["rc"] != 0:
                run.known("K44-help-needs-a-matching-pattern", "")
                continue
            expect = "help"
        if expect == "help":
            want = unhx(hm).decode("utf-8", "replace") + "\n"
            if o["stdout"] != want:
                run.violation("help request %r: the printed text is not the script's help text (mirror of parse_help): got %r, expected %r" % (argv, o["stdout"][:300], want[:300]),
                              dict(desc=c["desc"], implementation=o, expected=want))
        ran = bool(o["log"]) or "<<ran>>" in o["stdout"]
        if expect == "reject" and (ran or o["rc"] == 0):
            run.violation("rejected arguments %r: tasks ran=%s exit=%s" % (argv, ran, o["rc"]), dict(desc=c["desc"], implementation=o))
        if expect == "help" and (ran or o["rc"] != 0 or "Usage:" not in o["stdout"]):
            run.violation("help request %r: tasks ran=%s exit=%s stdout=%r" % (argv, ran, o["rc"], o["stdout"][:200]), dict(desc=c["desc"], implementation=o))
        if expect == "run" and (not ran or o["rc"] != 0):
            run.violation("harness: valid arguments %r did not run the script: %r" % (argv, o), dict(desc=c["desc"], implementation=o), no_input=True)
    nval, vdist = c11_validity(run)
    j["cases"] += nval
    finish_cov(run, j,
               "scripts of 0-%d valid marker tasks with one invalid task (unknown key, no module, two modules, non-mapping, near-miss keyword spellings) at every position, non-sequence and syntactically broken files, "
               "a documented script called with rejected arguments / help requests / valid arguments, and files of generated entries (random sets of module names, keywords, near misses, internal field names, "
               "non-string keys; non-mappings) whose acceptance is predicted by the extracted mirror of validate_attrs / get_module_name (Valid.v); "
               "non-trivial = distinct programs with at least one valid task before the invalid one" % nv,
               dict(docopt_cases=nd, raw_cases=len(rawcases), generated_files_by_model_verdict=vdist))


# ---------------------------------------------------------------- C17
def probe(tag):
    return task(('debug', lit("<<%s>> " % tag) + [('v', ['rash', 'path'])] + lit(" ") + [('v', ['rash', 'dir'])] + lit(" a=") + [('v', ['a'])]))


def c17(run, replay=None):
    rng = run.rng
    cases = []
    nt = 120 if run.tier == "quick" else 1500
    for n in range(nt):
        files = {}
        depth = rng.randint(1, 3)
        others = ["inc_a.rh", "sub/inc_b.rh", "sub/deep/inc_c.rh"]
        rng.shuffle(others)
        names = ["main.rh"] + others[:depth]
        relative = rng.random() < 0.6      # include paths written relative to the working directory (= ROOT)
        for d in range(depth, -1, -1):
            ts = []
            if d == 0:
                ts.append(INIT)
            ts.append(probe("f%d.start" % d))
            if rng.random() < 0.3:
                ts.append(task(('command', 'kf%d' % d, '', 0)))
            if d < depth:
                inc = task(('include', names[d + 1]))
                inc["relative"] = relative
                if rng.random() < 0.35:
                    inc["via_dir"] = os.path.relpath(names[d + 1], os.path.dirname(names[d]) or ".")
                r = rng.random()
                if r < 0.25:
                    inc["loop"] = [lit('x'), lit('y')]
                elif r < 0.4:
                    inc["when"] = ('bool', rng.random() < 0.5)
                if rng.random() < 0.3:
                    inc["ignore"] = True
                ts.append(inc)
            ts.append(probe("f%d.end" % d))
            f = dict(tasks=ts)
            # inject a failure or an invalid task in some file
            r = rng.random()
            if d > 0 and r < 0.25:
                pos = rng.randrange(1, len(ts) + 1)
                ts.insert(pos, task(('assert', [('eq', ('var', ['a']), ('str', 'nope'))])))
            elif d > 0 and r < 0.4:
                f["invalid"] = (rng.randrange(0, len(ts) + 1), rng.choice(list(E.INVALID_TEXT)))
            elif d > 0 and r < 0.5:
                ts.insert(1, task(('setvars', [('a', lit('set_in_%d' % d))])))
            if rng.random() < 0.3:
                f["symlink"] = True       # identity must be the path the file was asked for, not where the link points
            files[names[d]] = f
        cases.append(dict(files=files, desc=dict(tree=n, depth=depth)))
    # recursion: a file that includes itself (directly, through another file, under ignore_errors) stops at the depth
    # limit (32 nested includes; the model's fuel is 33) with a failed include task, not with a crash
    selfinc = dict(tasks=[task(('debug', lit('<<lvl>>'))), task(('include', 'self.rh'))])
    cases.append(dict(files={"main.rh": dict(tasks=[INIT, task(('include', 'self.rh')), probe("never")]), "self.rh": selfinc}, desc=dict(tree="self-include")))
    inc_ign = task(('include', 'self.rh'))
    inc_ign["ignore"] = True
    cases.append(dict(files={"main.rh": dict(tasks=[INIT, inc_ign, probe("after")]), "self.rh": selfinc}, desc=dict(tree="self-include ignored")))
    pa = dict(tasks=[task(('debug', lit('<<a>>'))), task(('include', 'pong.rh'))])
    pb = dict(tasks=[task(('debug', lit('<<b>>'))), task(('include', 'ping.rh'))])
    cases.append(dict(files={"main.rh": dict(tasks=[INIT, task(('include', 'ping.rh'))]), "ping.rh": pa, "pong.rh": pb}, desc=dict(tree="mutual include")))
    # many failing includes (each failure unwinds through the include machinery and is ignored) must not wear anything
    # out: a valid include afterwards still works
    failing = dict(tasks=[task(('debug', lit('<<in>>'))), task(('assert', [('eq', ('var', ['a']), ('str', 'nope'))]))])
    deepf = dict(tasks=[task(('include', 'failing.rh'))])
    okf = dict(tasks=[probe("ok.inc")])
    many = task(('include', 'deepf.rh'), loop=[lit('i%d' % k) for k in range(40)])
    many["ignore"] = True
    cases.append(dict(files={"main.rh": dict(tasks=[INIT, many, task(('include', 'okf.rh')), probe("end")]), "deepf.rh": deepf, "failing.rh": failing, "okf.rh": okf},
                      desc=dict(tree="40 ignored failing includes, then a valid one")))
    # an included file with NO tasks (`[]`): the include does nothing and the callers go on
    emptyf = dict(tasks=[])
    outerf = dict(tasks=[probe("outer.start"), task(('include', 'empty.rh')), probe("outer.end")])
    cases.append(dict(files={"main.rh": dict(tasks=[INIT, task(('include', 'empty.rh')), probe("after.empty"), task(('include', 'outer.rh')), task(('command', 'kend', '', 0))]),
                             "empty.rh": emptyf, "outer.rh": outerf}, desc=dict(tree="include of an empty file")))
    # included files with an invalid entry of every NON-MAPPING / unreadable-value kind (a dangling `-`, a string, a list,
    # an unreadable when, a non-boolean check_mode), first / last entry, the include ignored or not: none of their tasks runs
    for kind in ("null_task", "sequence_task", "non_mapping", "when_list_with_null", "check_mode_yes", "int_key", "dash_ignore_errors"):
        for pos in (0, 2):
            incx = dict(tasks=[task(('debug', lit('<<incx.1>>'))), task(('command', 'kincx', '', 0))], invalid=(pos, kind))
            for ign in (False, True):
                it = task(('include', 'incx.rh'))
                it["ignore"] = ign
                cases.append(dict(files={"main.rh": dict(tasks=[INIT, probe("before"), it, probe("after")]), "incx.rh": incx}, desc=dict(tree="include of a file with an invalid entry", kind=kind, position=pos, ignored=ign)))
    j = judge(run, cases, "include semantics")
    # the script's arguments are the same inside an included file (any depth, looped) as in the main script
    sc_main = ("#!/usr/bin/env rash\n- debug:\n    msg: \"main {{ rash.args | join(',') }}\"\n- include: ROOT/one.rh\n- include: ROOT/one.rh\n  loop: [x]\n"
               "- debug:\n    msg: \"main {{ rash.args | join(',') }}\"\n")
    sc_one = "#!/usr/bin/env rash\n- debug:\n    msg: \"one {{ rash.args | join(',') }}\"\n- include: ROOT/sub/two.rh\n"
    sc_two = "#!/usr/bin/env rash\n- debug:\n    msg: \"two {{ rash.args | length }} {{ rash.args | join(',') }}\"\n"
    o = E.run_impls([dict(files={"main.rh": dict(raw=sc_main), "one.rh": dict(raw=sc_one), "sub/two.rh": dict(raw=sc_two)}, argv=["--", "alpha", "be ta"])])[0]
    want = "main alpha,be ta\n\n" + "one alpha,be ta\ntwo 2 alpha,be ta\n\n\n" * 2 + "main alpha,be ta\n"
    got = [l for l in o["stdout"].split("\n") if l]
    exp = [l for l in want.split("\n") if l]
    if o["rc"] != 0 or got != exp:
        run.violation("rash.args inside included files: expected %r, got %r (rc %r)" % (exp, got, o["rc"]), dict(main=sc_main, one=sc_one, two=sc_two, observed=o))
    # the main script lives in roles/web/main.rh and includes `main.rh` - resolved from the working directory, that is ROOT/main.rh,
    # another file with the same base name: inside it rash.path / rash.dir name THAT file
    o = E.run_impls([dict(files={"roles/web/main.rh": dict(raw="#!/usr/bin/env rash\n- debug:\n    msg: \"outer {{ rash.path }} {{ rash.dir }}\"\n- include: main.rh\n- debug:\n    msg: \"outer-again {{ rash.path }} {{ rash.dir }}\"\n"),
                                 "main.rh": dict(raw="#!/usr/bin/env rash\n- debug:\n    msg: \"inner {{ rash.path }} {{ rash.dir }}\"\n- include: \"{{ rash.dir }}/helper.rh\"\n"),
                                 "helper.rh": dict(raw="#!/usr/bin/env rash\n- debug:\n    msg: \"helper-top {{ rash.path }}\"\n"),
                                 "roles/web/helper.rh": dict(raw="#!/usr/bin/env rash\n- debug:\n    msg: \"helper-wrong {{ rash.path }}\"\n")}, script="roles/web/main.rh")])[0]
    got = [l for l in o["stdout"].split("\n") if l]
    exp = ["outer ROOT/roles/web/main.rh ROOT/roles/web", "inner ROOT/main.rh ROOT", "helper-top ROOT/helper.rh", "outer-again ROOT/roles/web/main.rh ROOT/roles/web"]
    if o["rc"] != 0 or [g.replace("ROOT/./", "ROOT/") for g in got] != exp:
        run.violation("a relative include naming a file with the includer's base name: expected %r, got %r (rc %r)" % (exp, got, o["rc"]), dict(observed=o))
    # generate-then-include: the same path included several times, the file REWRITTEN in between (and by a loop):
    # every include reads the file as it is then
    gen = ("#!/usr/bin/env rash\n"
           "- copy:\n    content: \"- debug:\\n    msg: gen-one\\n\"\n    dest: ROOT/out/gen.rh\n- include: ROOT/out/gen.rh\n"
           "- copy:\n    content: \"- debug:\\n    msg: gen-two\\n- debug:\\n    msg: gen-two-b\\n\"\n    dest: ROOT/out/gen.rh\n- include: ROOT/out/gen.rh\n"
           "- copy:\n    content: \"- assert:\\n    that: [\\\"false\\\"]\\n\"\n    dest: ROOT/out/gen.rh\n- include: ROOT/out/gen.rh\n  ignore_errors: true\n"
           "- copy:\n    content: \"- debug:\\n    msg: gen-last\\n\"\n    dest: ROOT/out/gen.rh\n- include: ROOT/out/gen.rh\n  loop: [1, 2]\n")
    o = E.run_impls([dict(files={"main.rh": dict(raw=gen)})])[0]
    got = [l for l in o["stdout"].split("\n") if l.startswith("gen-")]
    if o["rc"] != 0 or got != ["gen-one", "gen-two", "gen-two-b", "gen-last", "gen-last"]:
        run.violation("a file rewritten between two includes of the same path: expected gen-one, gen-two, gen-two-b, gen-last x2; got %r (rc %r)" % (got, o["rc"]), dict(main=gen, observed=o))
    finish_cov(run, j,
               "include chains of depth 1-3 through files in different directories (a third of the files, the main script included, reached through symbolic links), includes under loop / when / ignore_errors, every file printing rash.path, rash.dir and a caller variable at start and end, "
               "with a failing assert, an invalid task or a variable write injected at random positions of the included files; non-trivial = distinct trees with more than one event")


PROPS = {"C01": c01, "C02": c02, "C11": c11, "C17": c17}
