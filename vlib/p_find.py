"""C16: find returns exactly the entries that satisfy all criteria."""
import json, os, re as pyre
from . import common as C
from .common import hx, sx, parse_sx, unhx

TB = [
    "Coq 8.16.1 kernel; no axioms (Print Assumptions: closed under the global context)",
    "extraction: ExtrOcamlBasic + ExtrOcamlString only; ocaml/main.ml line driver",
    "Find.v: hand-written mirror of the walk (ignore::WalkBuilder as configured by find.rs: depth limit, hidden filter, no link following, max_filesize) + the filter chain; the `ignore` crate, `regex` (for the generated pattern family: literal substring, ^lit, lit$, ^lit$, .*) and byte_unit (plain byte counts) are oracles validated by this run",
    "Rust harness (MODULES[\"find\"].exec and the find() lookup on a sandbox tree), python tree generator",
]

# "sub"/"sub2"/"sub-old": the text of one root may be a string prefix of a sibling root without being its ancestor
NAMES = ["a", "b.log", "c.txt", ".hid", "sub", ".dot", "x.log", "deep", "sub2", "sub-old"]


def gen_tree(rng, depth, name):
    """python tree: ('f', name, size) | ('l', name, target) | ('d', name, [kids])"""
    kids = []
    used = set()
    for _ in range(rng.randint(0, 5)):
        n = rng.choice(NAMES)
        if n in used:
            continue
        used.add(n)
        r = rng.random()
        if depth > 0 and r < 0.35:
            kids.append(gen_tree(rng, depth - 1, n))
        elif r < 0.45:
            # half of the links point at a sibling that exists (a file of any size, a directory): a link is an entry of
            # its own, judged by what the LINK is, never by its target
            sib = [k[1] for k in kids if k[0] in ('f', 'd')]
            kids.append(('l', n, rng.choice(sib) if sib and rng.random() < 0.6 else rng.choice(["a", "sub", "nowhere"])))
        else:
            # a third of the files are (where possible) created as HARD LINKS to an earlier file of the same size:
            # two paths, one inode - each path is still an entry of its own
            kids.append(('f', n, rng.choice([0, 5, 100, 101, 500, 1000, 1024, 1025, 2000]), rng.random() < 0.35))
    return ('d', name, kids)


def tree_sx(t):
    if t[0] == 'f':
        return ['f', hx(t[1]), t[2]]
    if t[0] == 'l':
        return ['l', hx(t[1])]
    return ['d', hx(t[1])] + [tree_sx(k) for k in t[2]]


def world_nodes(t, prefix="", seen=None):
    seen = {} if seen is None else seen
    p = prefix + t[1]
    if t[0] == 'f':
        if len(t) > 3 and t[3] and t[2] in seen:
            return [dict(t="h", p=p, to=seen[t[2]])]
        seen.setdefault(t[2], p)
        return [dict(t="f", p=p, c=("00" * t[2]), m=0o644)]
    if t[0] == 'l':
        # the target is a name in the link's own directory (the harness resolves `to` from the sandbox root)
        return [dict(t="l", p=p, to=prefix + t[2])]
    out = [dict(t="d", p=p, m=0o755)]
    for k in t[2]:
        out += world_nodes(k, p + "/", seen)
    return out


def has_ignore_file(t):
    if t[0] == 'd':
        return any(has_ignore_file(k) for k in t[2])
    return t[1] in (".ignore", ".gitignore")


def subdirs(t, prefix=()):
    out = []
    if t[0] == 'd':
        out.append((prefix, t))
        for k in t[2]:
            out += subdirs(k, prefix + (t[1],))
    return out


RES = [("any", ".*"), (["full", "sub"], "^sub$"), (["full", "r"], "^r$"), (["sub", "log"], "log"), (["pre", "a"], "^a"), (["suf", ".log"], "\\.log$"), (["full", "c.txt"], "^c\\.txt$"),
       (["sub", "."], "\\."), (["pre", "."], "^\\.")]


def res_sx(r):
    return r[0] if r[0] == "any" else [r[0][0], hx(r[0][1])]


def gen_case(rng, with_ignore):
    t = gen_tree(rng, 3, "r")
    if with_ignore:
        t[2].append(('f', '.ignore', 6))     # holds "*.log\n"
    dirs = subdirs(t)
    nroots = rng.choice([1, 1, 2, 2, 3])
    roots = rng.sample(dirs, min(nroots, len(dirs)))
    # avoid nested roots (a path under two roots is listed twice by design of a multi-root walk);
    # sibling roots whose names merely share a textual prefix (sub, sub2) are kept
    keep = []
    nested = rng.random() < 0.12       # K33: a root inside another root
    for r in roots:
        a = r[0] + (r[1][1],)
        if nested or not any(a[:len(b)] == b or b[:len(a)] == a for b in (k[0] + (k[1][1],) for k in keep)):
            keep.append(r)
    roots = keep
    p = dict(file_type=rng.choice(["any", "directory", "file", "file", "link"]), hidden=rng.random() < 0.4, recurse=rng.random() < 0.6,
             patterns=rng.sample(RES, rng.choice([0, 0, 1, 2])), excludes=rng.sample(RES[1:], rng.choice([0, 0, 1])),
             size=rng.choice([None, None, 100, 5, 0, 1000, 1024]))
    # the same limit written with a unit (byte_unit: k/kB = 1000, KiB = 1024); the unit means BYTES however it
    # is capitalised (find.rs parses with ignore_case: `1kb`, `1Kb`, `1KB`, `1000b` are all 1000 bytes, never bits)
    p["size_text"] = {1000: rng.choice(["1000", "1kB", "1k", "1 kB", "1000B", "1kb", "1Kb", "1KB", "1000b", "1 kb", "1K"]),
                      1024: rng.choice(["1024", "1KiB", "1Ki", "1kib", "1Kib", "1KIB", "1 kib"]),
                      100: rng.choice(["100", "100B", "0.1kB", "100b", "0.1kb", "0.1KB"])}.get(p["size"])
    p["root_suffix"] = [rng.choice(["", "", "", "/", "/.", "//"]) for _ in roots]
    return t, roots, p


def params_yaml(roots, p, relative=False):
    L = ["paths:"]
    for i, (pre, t) in enumerate(roots):
        # the same directory can be written with a trailing `/` or `/.`: its base name is still the directory's name
        sfx = p.get("root_suffix", [""] * len(roots))[i] if p.get("root_suffix") else ""
        L.append("  - " + json.dumps(("" if relative else "ROOT/") + "/".join(pre + (t[1],)) + sfx))
    L.append("file_type: " + p["file_type"])
    L.append("hidden: " + ("true" if p["hidden"] else "false"))
    L.append("recurse: " + ("true" if p["recurse"] else "false"))
    if p["patterns"]:
        L.append("patterns: " + json.dumps([r[1] for r in p["patterns"]]))
    if p["excludes"]:
        L.append("excludes: " + json.dumps([r[1] for r in p["excludes"]]))
    if p["size"] is not None:
        L.append("size: " + json.dumps(p.get("size_text") or str(p["size"])))
    return "\n".join(L) + "\n"


def case_sx(roots, p):
    return sx(["find", ["roots"] + [[[hx(x) for x in pre], tree_sx(t)] for pre, t in roots], p["file_type"], p["hidden"], p["recurse"],
               ["patterns"] + [res_sx(r) for r in p["patterns"]], ["excludes"] + [res_sx(r) for r in p["excludes"]],
               "none" if p["size"] is None else p["size"]])


import tempfile, shutil
# the walker honours .ignore/.gitignore files of EVERY ancestor directory (and /verif is a git work
# tree with its own .gitignore): the trees are therefore built in a fresh directory outside any repository
FIND_ROOT = os.path.join(tempfile.gettempdir(), "rashverif-find-%d" % os.getpid())


def prep(c, shard_id):
    c["root"] = os.path.join(FIND_ROOT, "f%d" % shard_id)


def c16(run, replay=None):
    rng = run.rng
    os.makedirs(FIND_ROOT, exist_ok=True)
    n = 1500 if run.tier == "quick" else 20000
    cases = []
    for i in range(n):
        t, roots, p = gen_case(rng, with_ignore=False)
        cases.append((t, roots, p, None))
    # ignore files (K18): `.ignore` containing *.log at the tree root
    for i in range(60 if run.tier == "quick" else 600):
        t, roots, p = gen_case(rng, with_ignore=True)
        cases.append((t, roots, p, "*.log\n"))
    lines = [case_sx(roots, p) for t, roots, p, ig in cases]
    mouts = C.run_oracle(lines)
    # for the symbolic links of a query with a size limit: what the model lists WITHOUT the limit (the limit is then applied
    # to the link's own length, see below)
    nosize = C.run_oracle([case_sx(roots, dict(p, size=None)) for t, roots, p, ig in cases])
    icases = []
    for t, roots, p, ig in cases:
        world = world_nodes(t)
        if ig:
            for w in world:
                if w["p"] == "r/.ignore":
                    w["c"] = ig.encode().hex()
        icases.append(dict(world=world, params=params_yaml(roots, p), lookup=True))
    iouts = C.run_harness("find", icases, prepare=prep)
    nontrivial = set()
    mism = []
    dist = {}
    for (t, roots, p, ig), mo, io, mo_ns, ic in zip(cases, mouts, iouts, nosize, icases):
        model = sorted("/".join(unhx(a).decode() for a in e) for e in parse_sx(mo))
        desc = dict(tree=t, roots=["/".join(pre + (r[1],)) for pre, r in roots], params=dict(p, patterns=[r[1] for r in p["patterns"]], excludes=[r[1] for r in p["excludes"]]),
                    ignore_file=ig)
        if io.get("crash") or "ok" not in io["module"]:
            run.violation("find failed or panicked on a valid query: %r" % (io,), dict(desc, implementation=io))
            continue
        # a root written `dir/`, `dir//` or `dir/.` is the same directory: the returned paths are compared as paths
        got = [os.path.normpath(x) for x in io["module"]["ok"]]
        if io.get("lookup", {}).get("ok") is not None:
            io["lookup"]["ok"] = [os.path.normpath(x) for x in io["lookup"]["ok"]]
        k = "empty" if not got else "nonempty"
        dist[k] = dist.get(k, 0) + 1
        if got:
            nontrivial.add(json.dumps(desc, sort_keys=True, default=str))
        if io.get("lookup", {}).get("ok") != got:
            run.violation("the find() lookup and the find module disagree: %r vs %r" % (io.get("lookup"), got), dict(desc, implementation=io))
            continue
        if p["size"] is not None:
            # a symbolic link is an entry of its own: the limit applies to the LINK's length (lstat: the length of its target
            # text, here the absolute path the harness wrote), never to the size of what it points at
            lnodes = {n["p"]: n["to"] for n in world_nodes(t) if n["t"] == "l"}
            model_ns = ["/".join(unhx(a).decode() for a in e) for e in parse_sx(mo_ns)]
            llen = {x: len(os.path.join(FIND_ROOT, "f0", lnodes[x]).encode()) for x in lnodes}      # (the shard directory is f0 .. f15)
            unsure = set(x for x in lnodes if abs(llen[x] - p["size"]) <= 2)
            want_links = [x for x in model_ns if x in lnodes and x not in unsure and llen[x] <= p["size"]]
            model = sorted([x for x in model if x not in lnodes] + want_links)
            got = [x for x in got if x not in unsure]
        dup = len(got) != len(set(got))
        if dup and sorted(got) == model:
            # the mirror walks every root like the code does; the PROPERTY says each path exactly once
            rts = [tuple(x.split("/")) for x in desc["roots"]]
            if any(a != b and a[:len(b)] == b for a in rts for b in rts) or len(set(rts)) != len(rts):
                run.known("K33-nested-roots-listed-twice", "")
            else:
                run.violation("find lists a path more than once although no root lies inside another: %r" % sorted(x for x in set(got) if got.count(x) > 1),
                              dict(desc, implementation=io))
            continue
        if sorted(got) != model:
            missing = sorted(set(model) - set(got))
            extra = sorted(set(got) - set(model))
            # the ignore file's glob also prunes directories: everything below a directory named *.log is dropped too
            if ig and not p["hidden"] and not extra and all(any(comp.endswith(".log") for comp in m.split("/")[1:]) for m in missing):
                run.known("K18-ignore-files-honoured", "")
                continue
            if dup and sorted(set(got)) == model:
                run.violation("find lists a path more than once: %r" % got, dict(desc, implementation=io))
            else:
                run.violation("find result differs from the entries that satisfy all criteria: missing %r, unexpected %r" % (missing, extra),
                              dict(desc, implementation=io, expected=model))
    # `follow: true` on trees WITHOUT symbolic links changes nothing (the model covers follow: false only; this is the law
    # that holds whatever following means)
    def linkfree(t):
        return t[0] != 'l' and (t[0] != 'd' or all(linkfree(k) for k in t[2]))
    fsel = [i for i, (t, roots, p, ig) in enumerate(cases) if linkfree(t) and not ig and "ok" in (iouts[i].get("module") or {})][:(150 if run.tier == "quick" else 2000)]
    fouts = C.run_harness("find", [dict(world=world_nodes(cases[i][0]), params=params_yaml(cases[i][1], cases[i][2]) + "follow: true\n", lookup=True) for i in fsel], prepare=prep)
    for i, fo in zip(fsel, fouts):
        a = sorted(os.path.normpath(x) for x in iouts[i]["module"]["ok"])
        b = fo.get("module", {}).get("ok")
        lb = fo.get("lookup", {}).get("ok")
        if b is None or sorted(os.path.normpath(x) for x in b) != a or lb is None or sorted(os.path.normpath(x) for x in lb) != a:
            run.violation("follow: true changes the result on a tree without symbolic links: %r instead of %r (lookup %r)" % (b, a, lb),
                          dict(tree=cases[i][0], params=params_yaml(cases[i][1], cases[i][2]) + "follow: true\n", observed=fo))
    # lists of regular expressions, including ones the model does not cover (inline flags, comments, anchors, classes):
    # `patterns: [p, q]` must return what [p] returns plus what [q] returns, `excludes: [p, q]` what both [p] and [q] leave
    EXTRA = ["(?i)^READ", "(?i)log$", "(?x) ^c # comment", "[.]txt$", "^[ab]", "(?i:SUB)", "a|b", "^$", "x\\.log", "(?s).", "\\bdeep\\b"]
    mt = ('d', 'r', [('f', 'README.md', 1), ('f', 'readme.txt', 1), ('f', 'notes.MD', 1), ('f', 'c.txt', 1), ('f', 'b.log', 1), ('f', 'x.LOG', 1),
                     ('d', 'sub', [('f', 'a', 1), ('f', 'deep', 1), ('f', 'Sub.txt', 1)]), ('f', 'a|b', 1)])
    mw = world_nodes(mt)
    pairs = [(a, b) for a in EXTRA for b in EXTRA if a != b]
    if run.tier == "quick":
        pairs = rng.sample(pairs, 40)
    mcases, mkey = [], []
    for a, b in pairs:
        for key in ("patterns", "excludes"):
            for lst in ([a, b], [a], [b]):
                mcases.append(dict(world=mw, params="paths: ROOT/r\nrecurse: true\nfile_type: any\n%s: %s\n" % (key, json.dumps(lst)), lookup=False))
            mkey.append((key, a, b))
    mouts = C.run_harness("find", mcases, prepare=prep)
    for i, (key, a, b) in enumerate(mkey):
        oo = [o.get("module", {}).get("ok") for o in mouts[3 * i:3 * i + 3]]
        if any(x is None for x in oo):
            if not all(x is None for x in oo[1:]) and oo[0] is None and oo[1] is not None and oo[2] is not None:
                run.violation("find %s: %r fails although each of its regexes is accepted alone" % (key, [a, b]), dict(key=key, list=[a, b], observed=mouts[3 * i]))
            continue
        both, ra, rb = [set(x) for x in oo]
        want = (ra | rb) if key == "patterns" else (ra & rb)
        if both != want:
            run.violation("find %s: the list %r returns %r, but %r alone returns %r and %r alone %r" % (key, [a, b], sorted(both), a, sorted(ra), b, sorted(rb)),
                          dict(key=key, list=[a, b], tree=mt))
    # regular expressions that are also valid JSON (a digit class like [12]): python's re decides these few
    import re as _re
    # ... and regular expressions with a comma (a counted repetition, a literal comma), file names with commas
    jt = ('d', 'r', [('f', 'log1', 1), ('f', 'log12', 1), ('f', 'log2', 1), ('f', 'log3', 1), ('f', 'plain', 1), ('f', 'x21', 1), ('d', 'sub', [('f', 'a2', 1), ('f', 'b7', 1)]),
                     ('f', 'a', 1), ('f', 'aa', 1), ('f', 'aaaa', 1), ('f', 'a,b', 1), ('f', 'x,y.log', 1), ('f', 'x.log', 1)])
    jw = world_nodes(jt)
    jnames = ["r/log1", "r/log12", "r/log2", "r/log3", "r/plain", "r/x21", "r/sub/a2", "r/sub/b7", "r/a", "r/aa", "r/aaaa", "r/a,b", "r/x,y.log", "r/x.log"]
    jcases = []
    for pat in ("[12]", "[5]", "[1,2]", "[3]", "[0-9]", "12", "[1][2]", "true", "null", "\\d", "^a{1,2}$", "^a,b$", "^x,y", "a{2,}", ",", "^(a|x),", "^a{2}$"):
        for key in ("patterns", "excludes"):
            jcases.append((pat, key, True))
            if not pat.startswith("["):
                jcases.append((pat, key, False))       # the regex given as a plain string, not as a one-element list
    jouts = C.run_harness("find", [dict(world=jw, params="paths: ROOT/r\nrecurse: true\nfile_type: file\n%s: %s\n" % (key, json.dumps([pat] if aslist else pat)), lookup=True) for pat, key, aslist in jcases], prepare=prep)
    for (pat, key, aslist), o in zip(jcases, jouts):
        got = o.get("module", {}).get("ok")
        hit = sorted(n for n in jnames if _re.search(pat, n.rsplit("/", 1)[1]))
        want = hit if key == "patterns" else sorted(set(jnames) - set(hit))
        if got is None or sorted(os.path.normpath(x) for x in got) != want or o.get("lookup", {}).get("ok") is None or sorted(os.path.normpath(x) for x in o["lookup"]["ok"]) != want:
            run.violation("find %s: [%r] returns %r (lookup %r), expected %r" % (key, pat, got, o.get("lookup"), want), dict(key=key, pattern=pat, tree=jt, observed=o))
    # K34: the walker skips the file its own standard output is redirected to (ignore::WalkBuilder::skip_stdout)
    import subprocess
    kroot = os.path.join(FIND_ROOT, "k34")
    shutil.rmtree(kroot, ignore_errors=True)
    os.makedirs(os.path.join(kroot, "t"))
    open(os.path.join(kroot, "t", "a.txt"), "w").write("x")
    sp = os.path.join(kroot, "s.rh")
    open(sp, "w").write("#!/usr/bin/env rash\n- find:\n    paths: %s/t\n  register: r\n- debug:\n    msg: \"{{ r.extra | sort | join(' ') }}\"\n" % kroot)
    with open(os.path.join(kroot, "t", "out.log"), "w") as fh:
        pr = subprocess.run([C.RASH, "--output", "raw", sp], stdout=fh, stderr=subprocess.PIPE, timeout=30)
    listed = open(os.path.join(kroot, "t", "out.log")).read().split()
    want = sorted(["%s/t/a.txt" % kroot, "%s/t/out.log" % kroot])
    if pr.returncode != 0 or sorted(x for x in listed if x.startswith(kroot)) != want:
        if sorted(x for x in listed if x.startswith(kroot)) == ["%s/t/a.txt" % kroot]:
            run.known("K34-stdout-file-skipped", "")
        else:
            run.violation("find with stdout redirected into the searched directory: listed %r, expected %r (rc %r)" % (listed, want, pr.returncode), dict(script=open(sp).read(), listed=listed))
    # relative roots are rejected
    # a relative root ANYWHERE in the list (first, last, between absolute ones; a YAML list or a JSON-list string; roots that
    # exist from the working directory, so that walking them would succeed): rejected as invalid, by the module and the lookup
    relw = world_nodes(('d', 'r', [('f', 'a', 1)]))
    relp = ["paths: r\n", "paths: [ROOT/r, ./r]\n", "paths: [ROOT/r, \".\"]\n", "paths: [ROOT/r, \"..\"]\n", "paths: [\".\", ROOT/r]\n", "paths: [ROOT/r, \".\", ROOT/r/a]\n",
            "paths: '[\"ROOT/r\", \".\"]'\n", "paths: \".\"\n", "paths: [ROOT/r, ROOT/r, \"./\"]\n"]
    rel = C.run_harness("find", [dict(world=relw, params=pp, lookup=True) for pp in relp], prepare=prep)
    for pp, r in zip(relp, rel):
        if r.get("module", {}).get("err") != "InvalidData" or "err" not in r.get("lookup", {}):
            run.violation("a relative root was not rejected as invalid (%s): %r" % (pp.strip(), r), dict(params=pp, implementation=r))
    run.coverage.update(evaluations=len(cases) + len(relp), distinct_nontrivial=len(nontrivial),
                        rule="random trees (depth <= 4, dot names, symlinks to files/dirs/nowhere, sizes around the limits, 1-2 disjoint roots incl. sub-directories) x random parameter combinations "
                             "(file_type, hidden, recurse, 0-2 patterns, 0-1 excludes, size) + trees carrying a `.ignore` file; module and find() lookup both run; compared as sorted lists (so duplicates count); "
                             "non-trivial = distinct cases with a non-empty result",
                        samples=[dict(params=params_yaml(c[1], c[2]), tree=c[0]) for c in cases[:2]], traces_validated_against_impl=len(cases),
                        trusted_base=TB, result_distribution=dist, exhaustive=False)
    run.assumptions = ["follow: false only", "the sandbox has no .ignore/.gitignore file in any ancestor directory (checked at start)", "sizes given as plain byte counts", "size x symbolic link entries are not judged (the walker compares the length of the link text)"]
    # ancestors must not carry ignore files (they would apply: parents(true))
    d = FIND_ROOT
    while d != "/":
        for f in (".ignore", ".gitignore", ".git"):
            if os.path.exists(os.path.join(d, f)):
                run.assumptions.append("WARNING: %s exists in ancestor %s" % (f, d))
        d = os.path.dirname(d)
    shutil.rmtree(FIND_ROOT, ignore_errors=True)


PROPS = {"C16": c16}
