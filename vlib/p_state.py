"""C03 C04 C05 C06 property checks."""
import itertools, json, os
from . import common as C
from . import state as S
from .common import hx, sx, parse_sx

TB_STATE = [
    "Coq 8.16.1 kernel (coqc, vm_compute inside proofs); no axioms (Print Assumptions: closed under the global context)",
    "extraction: ExtrOcamlBasic + ExtrOcamlString only; ocaml/main.ml line driver; OCaml 4.13.1",
    "hand-written mirror models StateMods.v / Pacman.v of copy.rs, file.rs, template.rs, pacman.rs: fidelity rests on this correspondence run",
    "Fs.v: kernel semantics of open/chmod/unlink/mkdir/umask as modelled (run as root: no EACCES paths; CAP_FSETID keeps setuid bits on write)",
    "minijinja rendering of template sources is an input of the model (rendered text supplied by the generator)",
    "fakepacman implements pacman's documented transitions (install reason unchanged by --needed)",
    "Rust harness vlib/harness (in-process Task::new + Task::exec on a sandbox directory), python generators",
]


def sample(run, items, n):
    """stratified: every `file` task of the product is kept (the smallest stratum), the rest is sampled"""
    items = list(items)
    if len(items) <= n:
        return items
    keep = [x for x in items if isinstance(x, tuple) and len(x) == 2 and isinstance(x[1], dict) and x[1].get("kind") == "file"]
    rest = [x for x in items if not (isinstance(x, tuple) and len(x) == 2 and isinstance(x[1], dict) and x[1].get("kind") == "file")]
    if len(keep) >= n or not keep:
        return run.rng.sample(items, n)
    return keep + run.rng.sample(rest, min(len(rest), n - len(keep)))


# ---------------------------------------------------------------- special files (outside the Coq world model)
SPECIAL_DESTS = {
    "fifo": [dict(t="p", p="d")],
    "link_fifo": [dict(t="p", p="tp"), dict(t="l", p="d", to="tp")],
}


def special_cases():
    """`file` tasks on a path that exists but is neither file, directory nor link (a named pipe), directly or behind a
    symlink.  Fs.v has no such node: these cases are judged by the property text on the implementation alone
    (copy/template onto a FIFO are excluded: opening it for reading blocks, like any reader of a pipe)"""
    for dn, nodes in SPECIAL_DESTS.items():
        for st in S.FILE_STATES:
            for m in (None, "0600", "0644"):
                yield nodes, dict(kind="file", path="d", state=st, mode=m)


def run_special(cases, stamps=True):
    icases = [S.impl_case(nodes, tasks, chk, stamps) for nodes, tasks, chk in cases]
    return C.run_harness("state", icases, prepare=S.prep, per_case_timeout=10)


# ---------------------------------------------------------------- pacman cases
PKGS = ["a", "b", "c"]


def pacman_dbs():
    for st in itertools.product(("no", "dep", "exp"), repeat=3):
        inst = [p for p, s in zip(PKGS, st) if s != "no"]
        expl = [p for p, s in zip(PKGS, st) if s == "exp"]
        # installed level / local sync database / mirrors: up to date, upgrade known locally,
        # upgrade visible only after a refresh (stale database), both
        for sv, dv, uv in ((1, 1, 1), (1, 2, 2), (1, 1, 2), (1, 2, 3)):
            yield dict(installed=inst, explicit=expl, sysver=sv, dbver=dv, upstream=uv)


def dbnorm(d):
    return dict(installed=sorted(d["installed"]), explicit=sorted(d["explicit"]), sysver=d["sysver"], dbver=d["dbver"], upstream=d["upstream"])


def pkgstate(d):
    """the package state of the machine; the local sync database (dbver) is a cache"""
    return dict(installed=sorted(d["installed"]), explicit=sorted(d["explicit"]), sysver=d["sysver"])


def psample(run, items, n, group=1):
    """stratified: every case whose task asks for update_cache AND upgrade is kept (the refresh/query order matters only there)"""
    groups = [items[i:i + group] for i in range(0, len(items), group)]
    if len(items) <= n:
        return items
    keep = [g for g in groups if g[0][1][0]["update_cache"] and g[0][1][0]["upgrade"]]
    rest = [g for g in groups if not (g[0][1][0]["update_cache"] and g[0][1][0]["upgrade"])]
    k = max(0, n // group - len(keep))
    out = keep + run.rng.sample(rest, min(len(rest), k))
    return [x for g in out for x in g]


def known_check_skips_refresh(t, db):
    """K24 (Coq: StateSpec.known_check_skips_refresh)"""
    return t["update_cache"] and t["upgrade"] and ((db["sysver"] < db["dbver"]) != (db["sysver"] < db["upstream"]))


def pacman_params(tier):
    namesets = [[], ["a"], ["b"], ["a", "b"], ["b", "a", "b"], ["d"], ["a", "d"], ["c", "b", "a"]]
    for names in namesets:
        for st in ("present", "absent", "sync"):
            for uc in ((False, True) if tier == "thorough" else (False,)):
                for up in (False, True):
                    yield dict(kind="pacman", names=names, state=st, update_cache=uc, upgrade=up)
    if tier != "thorough":
        yield dict(kind="pacman", names=["a"], state="present", update_cache=True, upgrade=True)
        yield dict(kind="pacman", names=[], state="sync", update_cache=True, upgrade=False)
    # `force: true` (removal without dependency checks, refresh of all databases) changes HOW pacman is asked, never what
    # the task reports: the same cases again with it
    for names in ([], ["a"], ["a", "d"]):
        for st in ("present", "absent", "sync"):
            for uc in (False, True):
                yield dict(kind="pacman", names=names, state=st, update_cache=uc, upgrade=False, force=True)
    yield dict(kind="pacman", names=["a"], state="present", update_cache=True, upgrade=True, force=True)
    # `extra_args` (options handed through to pacman) never changes which requests are made or what is reported
    for names, st in (([], "sync"), (["a"], "present"), (["a", "d"], "absent"), (["c", "b", "a"], "sync")):
        yield dict(kind="pacman", names=names, state=st, update_cache=False, upgrade=(st == "present"), extra_args="--asdeps")


def pacman_sx(db, tasks_checks):
    return sx(["pacman", ["db", [hx(x) for x in db["installed"]], [hx(x) for x in db["explicit"]], db["sysver"], db["dbver"], db["upstream"]],
               ["tasks"] + [[["names"] + [hx(n) for n in t["names"]], t["state"], t["update_cache"], t["upgrade"], bool(c)]
                            for t, c in tasks_checks]])


def pacman_impl_case(db, tasks, check):
    script = "#!/bin/sh\nexec %s fakepacman \"$@\"\n" % C.VH
    world = [dict(t="f", p="fakepacman", c=script.encode().hex(), m=0o755),
             dict(t="f", p="db.json", c=json.dumps(db).encode().hex(), m=0o644)]
    return dict(world=world, umask=0o022, global_check=(check == "global"),
                tasks=[S.task_yaml(t, check == "task") for t in tasks], vars={},
                env={"FAKEPACMAN_DB": "ROOT/db.json"}, read_after=["db.json", "db.json.log"])


def run_pacman_cases(cases):
    """cases: list of (db, [task], check) -> list of dict(model, impl, ...) with per-task observations"""
    lines = [pacman_sx(db, [(t, chk != "none") for t in tasks]) for db, tasks, chk in cases]
    mouts = C.run_oracle(lines)
    iouts = C.run_harness("state", [pacman_impl_case(*c) for c in cases], prepare=S.prep)
    res = []
    for (db, tasks, chk), mo, io, line in zip(cases, mouts, iouts, lines):
        m = parse_sx(mo)
        mt = []
        for e in m[0][1:]:
            mt.append(dict(changed=e[0] == "t", installed=sorted(C.unhx(x).decode() for x in e[1]),
                           removed=sorted(C.unhx(x).decode() for x in e[2]), upgraded=e[3] == "t",
                           log=[canon_inv(i) for i in e[4]]))
        mdb = dict(installed=sorted(C.unhx(x).decode() for x in m[1][1]), explicit=sorted(C.unhx(x).decode() for x in m[1][2]),
                   sysver=int(m[1][3]), dbver=int(m[1][4]), upstream=int(m[1][5]))
        it = []
        prevlog = 0
        dbs = [db]
        if not io.get("crash"):
            for r in io["results"]:
                loglines = [json.loads(l) for l in r["read"].get("db.json.log", "").splitlines()]
                mylog = loglines[prevlog:]
                prevlog = len(loglines)
                ex = (r.get("reg") or {}).get("extra") or {}
                it.append(dict(status=S.status_of(r["status"]), raw_status=r["status"],
                               installed=sorted(ex.get("installed_packages", [])), removed=sorted(ex.get("removed_packages", [])),
                               upgraded=ex.get("upgraded"), log=[canon_log(l) for l in mylog]))
                try:
                    d = json.loads(r["read"]["db.json"])
                    dbs.append(dbnorm(d))
                except Exception:
                    dbs.append(None)
        res.append(dict(db=db, tasks=tasks, check=chk, model_tasks=mt, model_db=mdb, impl_tasks=it, impl_dbs=dbs, line=line,
                        crash=bool(io.get("crash"))))
    return res


def canon_inv(i):
    if isinstance(i, list):
        return (i[0], tuple(sorted(C.unhx(x).decode() for x in i[1])))
    return (i,)


def canon_log(l):
    if len(l) > 1:
        return (l[0], tuple(sorted(l[1])))
    return (l[0],)


READ_ONLY = {"query", "query-explicit", "query-upgrades"}


def canon_order(log):
    """the order of consecutive READ-ONLY queries is immaterial to C03-C06 (no property mentions it and they
    cannot influence each other): sort each run of them; everything relative to a modifying request stays ordered"""
    out, run_ = [], []
    for l in log:
        if l[0] in READ_ONLY:
            run_.append(l)
        else:
            out += sorted(run_) + [l]
            run_ = []
    return out + sorted(run_)


def pacman_compare(r):
    if r["crash"]:
        return "harness crashed"
    for i, (m, im) in enumerate(zip(r["model_tasks"], r["impl_tasks"])):
        if im["status"] not in ("ok", "changed"):
            return "task %d: implementation status %s, model succeeds" % (i, im["raw_status"])
        if (im["status"] == "changed") != m["changed"]:
            return "task %d: changed model=%s impl=%s" % (i, m["changed"], im["status"])
        for k in ("installed", "removed", "upgraded"):
            if m[k] != im[k]:
                return "task %d: %s model=%r impl=%r" % (i, k, m[k], im[k])
        if canon_order(m["log"]) != canon_order(im["log"]):
            return "task %d: invocations model=%r impl=%r" % (i, m["log"], im["log"])
    fin = r["impl_dbs"][-1]
    md = r["model_db"]
    if fin is None or dbnorm(md) != fin:
        return "final database model=%r impl=%r" % (md, fin)
    return None


def known_sync_dep(t, db):
    return t["state"] == "sync" and any(n in db["installed"] and n not in db["explicit"] for n in t["names"])


def pdeclared(t, db):
    if t["state"] == "present":
        return all(n in db["installed"] for n in t["names"])
    if t["state"] == "absent":
        return all(n not in db["installed"] for n in t["names"])
    return sorted(set(t["names"])) == sorted(db["explicit"])


# ---------------------------------------------------------------- shared reporting
def report_mismatches(run, mism, what):
    """mirror/implementation disagreements that did not come with a failing property input"""
    if mism and not [v for v in run.violations if not v[2]]:
        d, r = mism[0]
        run.violation("correspondence: %s (%d disagreement(s)); first: %s" % (what, len(mism), d),
                      dict(broken="correspondence " + what, disagreement=d, case=r), no_input=True)


def cov(run, evaluations, nontrivial, rule, samples, extra=None, exhaustive=False):
    run.coverage.update(evaluations=evaluations, distinct_nontrivial=nontrivial, rule=rule, samples=samples[:4],
                        traces_validated_against_impl=evaluations, trusted_base=TB_STATE, exhaustive=exhaustive)
    if extra:
        run.coverage.update(extra)
    run.assumptions = ["harness runs as root (no EACCES paths explored)", "umask 022",
                       "atime not compared", "TMPDIR outside the sandbox tree"]


# ---------------------------------------------------------------- C03
def c03(run, replay=None):
    tier = run.tier
    base = list(S.all_tasks(tier))
    cases = []
    for nodes, t in base:
        for chk in ("global", "task"):
            cases.append((nodes, [t], chk))
    # --check on the command line wins over a task's own `check_mode: false`
    for nodes, t in base[::7]:
        cases.append((nodes, [t], "global_kwfalse"))
    if replay:
        rp = json.load(open(replay))["replay"]
        cases = [([{k: (bytes.fromhex(v) if k == "c" else v) for k, v in n.items()} for n in rp["world"]], [rp["task"]], rp["check"])] if "world" in rp else cases[:50]
    res = S.run_fs_cases(run, cases, stamps=True)
    mism, nontrivial, dist = [], set(), {}
    for r in res:
        d = S.compare_model_impl(r)
        desc = S.describe(r["nodes"], r["tasks"][0], r["check"])
        if d:
            mism.append((d, desc))
        io = r["impl"]
        if io.get("crash"):
            continue
        ir = io["results"][0]
        dist[ir["status"].split(":")[0]] = dist.get(ir["status"].split(":")[0], 0) + 1
        if ir["touched"] or io["first"] != io["final"]:
            run.violation("check-mode task modified the managed tree: touched %r, status %s" % (ir["touched"], ir["status"]),
                          dict(desc, observed=dict(status=ir["status"], touched=ir["touched"])))
        if S.status_of(ir["status"]) == "changed":
            nontrivial.add(json.dumps(desc, sort_keys=True))
    # the command-line path: `rash --check` / `-c` on the real binary (bin/rash.rs -> GlobalParams -> every task)
    from . import engine as E
    script = ("#!/usr/bin/env rash\n- copy:\n    content: new\n    dest: ROOT/out/f\n- file:\n    path: ROOT/out/d/e\n    state: directory\n"
              "- file:\n    path: ROOT/out/t\n    state: touch\n    mode: \"0600\"\n- template:\n    src: ROOT/main.rh\n    dest: ROOT/out/tpl\n- file:\n    path: ROOT/keep\n    state: absent\n"
              "- command: \"sh -c 'echo ran >> ROOT/log'\"\n  check_mode: false\n")
    for ra in (["--check"], ["-c"], ["--check", "--diff"], ["-cd"], ["-c", "-v"]):
        o = E.run_impls([dict(files={"main.rh": dict(raw=script), "keep": dict(raw="k")}, rash_args=ra)])[0]
        if o["out"] or o["rc"] != 0 or o["stdout"].count("\n") < 5:
            run.violation("rash %s: the run modified the tree (out/ now holds %r) or did not complete (rc %r)" % (" ".join(ra), o["out"], o["rc"]),
                          dict(script=script, rash_args=ra, observed=o))
    # the task's own check_mode on tasks that run under `become` (another execution path: the module runs in a forked
    # child, or after a privilege drop): the tree is writable for the target user, nothing may appear in it
    import pwd
    try:
        pwd.getpwnam("nobody")
        can_become = os.geteuid() == 0
    except KeyError:
        can_become = False
    if can_become:
        kw = "  check_mode: true\n  become: true\n  become_user: nobody\n"
        tasks_b = ["- copy:\n    content: new\n    dest: ROOT/out/f\n", "- file:\n    path: ROOT/out/d/e\n    state: directory\n", "- file:\n    path: ROOT/out/t\n    state: touch\n    mode: \"0600\"\n",
                   "- template:\n    src: ROOT/main.rh\n    dest: ROOT/out/tpl\n", "- copy:\n    src: ROOT/main.rh\n    dest: ROOT/out/c2\n    mode: \"0640\"\n",
                   "- file:\n    path: ROOT/out\n    mode: \"0700\"\n    state: directory\n"]
        for sel in ([0], [1], [2], [3], [4], [5], [0, 1, 2, 3, 4]):
            sb = "#!/usr/bin/env rash\n" + "".join(tasks_b[i] + kw for i in sel)
            for ra in ([], ["--check"]):
                o = E.run_impls([dict(files={"main.rh": dict(raw=sb)}, rash_args=ra, world_writable=True)], timeout=20)[0]
                if o["out"] or o["rc"] != 0:
                    run.violation("check_mode: true on a task run under become (rash %s): out/ now holds %r, rc %r" % (" ".join(ra), o["out"], o["rc"]),
                                  dict(script=sb, rash_args=ra, observed=o))
    # special files: check mode must leave them alone too
    sp = [(nodes, [t], chk) for nodes, t in special_cases() for chk in ("global", "task")]
    for (nodes, ts, chk), io in zip(sp, run_special(sp)):
        if io.get("crash"):
            run.violation("check-mode file task on a named pipe: the harness run crashed or hung", dict(world=nodes, task=ts[0], check=chk, observed=io))
            continue
        ir = io["results"][0]
        if ir["touched"] or io["first"] != io["final"]:
            run.violation("check-mode task modified the managed tree (special file): touched %r, status %s" % (ir["touched"], ir["status"]),
                          dict(world=nodes, task=ts[0], check=chk, observed=dict(status=ir["status"], touched=ir["touched"])))
    # pacman
    pc = []
    dbs = list(pacman_dbs())
    pps = list(pacman_params(tier))
    allp = [(db, [p], chk) for db in dbs for p in pps for chk in ("global", "task")]
    if tier == "quick":
        allp = psample(run, allp, 1200)
    pres = run_pacman_cases(allp)
    for r in pres:
        d = pacman_compare(r)
        desc = dict(db=r["db"], task=r["tasks"][0], check=r["check"])
        if d:
            mism.append((d, desc))
        if r["crash"] or not r["impl_tasks"]:
            continue
        it = r["impl_tasks"][0]
        bad = [l for l in it["log"] if l[0] not in READ_ONLY]
        dbafter = r["impl_dbs"][-1]
        before = dbnorm(r["db"])
        if bad or dbafter != before:
            run.violation("check-mode pacman task sent a modifying request or changed the database: %r" % (bad,),
                          dict(desc, observed=dict(log=it["log"], db_after=dbafter)))
        if it["status"] == "changed":
            nontrivial.add(json.dumps(desc, sort_keys=True))
    report_mismatches(run, mism, "C03 mirror vs implementation")
    cov(run, len(res) + len(pres), len(nontrivial),
        "product of module x mode x destination state x source state x {global --check, task check_mode}; pacman: db states x params. "
        "non-trivial = distinct cases where the check-mode task reported `changed` (i.e. the same task without check mode would have acted)",
        [S.describe(r["nodes"], r["tasks"][0], r["check"]) for r in res[:2]] + [dict(db=r["db"], task=r["tasks"][0], check=r["check"]) for r in pres[:2]],
        dict(status_distribution=dist, fs_cases=len(res), pacman_cases=len(pres), model_impl_disagreements=len(mism)),
        exhaustive=(tier == "thorough"))


# ---------------------------------------------------------------- C04
def fs_snapshot_equal(io):
    return io["first"] == io["final"]


def c04(run, replay=None):
    tier = run.tier
    base = list(S.all_tasks(tier))
    cases = [(nodes, [t], "none") for nodes, t in base]
    # every 3- and 4-digit octal mode on a representative state (touch onto absent; copy onto existing file)
    octs = list(S.octal_sweep_tasks())
    if tier == "quick":
        octs = [o for o in octs if len(o) == 3][::3] + sample(run, [o for o in octs if len(o) == 4], 700) + ["4755", "2755", "1777", "7777", "6750"]
    for o in octs:
        cases.append(([], [dict(kind="file", path="d", state="touch", mode=o)], "none"))
        if tier == "thorough" or o.startswith(("4", "2", "1", "7")):
            cases.append((S.DEST_STATES["file_diff"][1], [dict(kind="copy", content="hello\n", dest="d", mode=o)], "none"))
    res = S.run_fs_cases(run, cases, stamps=False)
    dq = S.declared_queries([r for r in res if not r["impl"].get("crash")])
    mism, nontrivial, dist = [], set(), {}
    qi = 0
    for r in res:
        d = S.compare_model_impl(r)
        desc = S.describe(r["nodes"], r["tasks"][0], r["check"])
        if d:
            mism.append((d, desc))
        io = r["impl"]
        if io.get("crash"):
            continue
        q = dq[qi]
        qi += 1
        st = S.status_of(io["results"][0]["status"])
        dist[st] = dist.get(st, 0) + 1
        if st not in ("ok", "changed"):
            continue
        nontrivial.add(json.dumps(desc, sort_keys=True))
        if not q["declared"]:
            if q["k9a"]:
                run.known("K9-type-mismatch", "")
            elif q["k9b"]:
                run.known("K9-absent-dangling", "")
            else:
                run.violation("declared-state: task succeeded (%s) but the declared state does not hold afterwards" % st,
                              dict(desc, observed=dict(status=st, final=io["final"])))
        same = fs_snapshot_equal(io)
        if (st == "changed") == same:
            if q["k8"] and st == "ok":
                run.known("K8-empty-create", "")
            else:
                run.violation("changed-iff: task reported %s but the observable state %s" % (st, "did not change" if same else "changed"),
                              dict(desc, observed=dict(status=st, first=io["first"], final=io["final"])))
    # pacman
    allp = [(db, [p], "none") for db in pacman_dbs() for p in pacman_params(tier)]
    if tier == "quick":
        allp = psample(run, allp, 1200)
    pres = run_pacman_cases(allp)
    for r in pres:
        d = pacman_compare(r)
        desc = dict(db=r["db"], task=r["tasks"][0], check=r["check"])
        if d:
            mism.append((d, desc))
        if r["crash"] or not r["impl_tasks"]:
            continue
        it = r["impl_tasks"][0]
        if it["status"] not in ("ok", "changed"):
            continue
        nontrivial.add(json.dumps(desc, sort_keys=True))
        after = r["impl_dbs"][-1]
        before = dbnorm(r["db"])
        kd = known_sync_dep(r["tasks"][0], r["db"])
        t0 = r["tasks"][0]
        if after is not None and ((t0["upgrade"] and after["sysver"] < after["dbver"]) or (t0["update_cache"] and after["dbver"] != before["upstream"])):
            run.violation("declared-state: pacman task with upgrade/update_cache succeeded but %s" %
                          ("upgrades are still outstanding" if t0["upgrade"] and after["sysver"] < after["dbver"] else "the sync database was not refreshed"),
                          dict(desc, observed=dict(db_after=after, status=it["status"])))
        if after is None or not pdeclared(r["tasks"][0], after):
            if kd:
                run.known("K19-sync-dependency", "")
            else:
                run.violation("declared-state: pacman task succeeded but the requested packages are not %s" % r["tasks"][0]["state"],
                              dict(desc, observed=dict(db_after=after)))
        if after is not None and (it["status"] == "changed") != (pkgstate(after) != pkgstate(before)):
            if kd:
                run.known("K19-sync-dependency", "")
            else:
                run.violation("changed-iff: pacman task reported %s but the package state %s" % (it["status"], "changed" if pkgstate(after) != pkgstate(before) else "did not change"),
                              dict(desc, observed=dict(db_after=after, status=it["status"])))
    report_mismatches(run, mism, "C04 mirror vs implementation")
    cov(run, len(res) + len(pres), len(nontrivial),
        "product of module x mode x destination state x source state outside check mode + every 3-/4-digit octal mode (sampled in quick) on touch/copy; "
        "pacman db states x params. non-trivial = distinct cases in which the task succeeded (declared state and changed-iff are then judged on the implementation's before/after snapshots)",
        [S.describe(r["nodes"], r["tasks"][0], r["check"]) for r in res[:2]] + [dict(db=r["db"], task=r["tasks"][0]) for r in pres[:1]],
        dict(status_distribution=dist, fs_cases=len(res), pacman_cases=len(pres), octal_modes=len(octs), model_impl_disagreements=len(mism)),
        exhaustive=(tier == "thorough"))


# ---------------------------------------------------------------- C05
SEQ_PATHS = ["p1", "p2", "p3", "q/r"]


def random_sequences(run, n):
    out = []
    for _ in range(n):
        k = run.rng.randint(2, 6)
        paths = run.rng.sample(SEQ_PATHS, min(k, len(SEQ_PATHS)))
        nodes = []
        for p in SEQ_PATHS:
            c = run.rng.choice(["absent", "file", "file_ro", "dir"])
            if p == "q/r" and c == "dir":
                c = "absent"
            if p == "q/r" and c != "absent":
                nodes.append(dict(t="d", p="q", m=0o755))
            if c == "file":
                nodes.append(dict(t="f", p=p, c=run.rng.choice([b"hello\n", b"zzz"]), m=0o644))
            elif c == "file_ro":
                nodes.append(dict(t="f", p=p, c=b"zzz", m=0o444))
            elif c == "dir":
                nodes.append(dict(t="d", p=p, m=0o755))
        nodes.append(dict(t="f", p="s", c=b"hello\n", m=0o640))
        tasks = []
        for p in paths:
            kind = run.rng.choice(["copy", "copysrc", "file", "template"])
            mode = run.rng.choice([None, "0644", "0600", "4755", "0444"])
            if kind == "copy":
                tasks.append(dict(kind="copy", content=run.rng.choice(S.CONTENTS), dest=p, mode=mode))
            elif kind == "copysrc":
                tasks.append(dict(kind="copy", src="s", dest=p, mode=run.rng.choice([mode, "preserve"])))
            elif kind == "template":
                tasks.append(dict(kind="template", src="s", dest=p, mode=mode, rendered="hello\n"))
            else:
                tasks.append(dict(kind="file", path=p, state=run.rng.choice(["absent", "directory", "touch", "file"]), mode=run.rng.choice([None, "0755", "0700"])))
        # a third of the sequences revisit a path (A then B on one destination, create then remove, ...): whether
        # the second pass must be a no-op is then decided by the theorem's hypothesis, evaluated in Coq
        if run.rng.random() < 0.35 and tasks:
            t = dict(run.rng.choice(tasks))
            if t["kind"] == "copy" and "content" in t:
                t["content"] = run.rng.choice(S.CONTENTS)
            elif t["kind"] == "file":
                t["state"] = run.rng.choice(["absent", "directory", "touch", "file"])
            else:
                t["mode"] = run.rng.choice([None, "0644", "0600"])
            tasks.insert(run.rng.randint(0, len(tasks)), t)
        out.append((nodes, tasks))
    return out


def c05(run, replay=None):
    tier = run.tier
    base = list(S.all_tasks(tier))
    cases = [(nodes, [t, t], "none") for nodes, t in base]
    nseq = 700 if tier == "quick" else 8000
    seqs = random_sequences(run, nseq)
    for nodes, tasks in seqs:
        cases.append((nodes, tasks + tasks, "none"))
    res = S.run_fs_cases(run, cases, stamps=True)
    hyp = S.noninterf_queries([(nodes, tasks[:len(tasks) // 2]) for nodes, tasks, _ in cases])
    mism, nontrivial, dist = [], set(), {}
    hyp_count = {"met": 0, "not-met": 0, "not-met-and-second-pass-changed": 0}
    for r, h in zip(res, hyp):
        d = S.compare_model_impl(r)
        n = len(r["tasks"]) // 2
        desc = dict(world=S.describe(r["nodes"], None, "none")["world"], tasks=r["tasks"][:n], applied="twice")
        if d:
            mism.append((d, desc))
        io = r["impl"]
        if io.get("crash"):
            continue
        first, second = io["results"][:n], io["results"][n:]
        if all(S.status_of(x["status"]) in ("ok", "changed") for x in first):
            # judged exactly when the first pass meets the hypothesis of C05_second_pass_over_a_sequence_is_a_noop
            # (no later task disturbs what an earlier one reads; no symbolic link among the paths read)
            if n > 1:
                hyp_count["met" if h else "not-met"] += 1
            # (a single task applied twice is always judged: C05_fs_reapply_is_noop needs no such hypothesis)
            if not h and n > 1:
                if any(S.status_of(x["status"]) != "ok" or x["touched"] for x in second):
                    hyp_count["not-met-and-second-pass-changed"] += 1
                continue
            if any(S.status_of(x["status"]) == "changed" for x in first):
                nontrivial.add(json.dumps(desc, sort_keys=True))
            for i, x in enumerate(second):
                st = S.status_of(x["status"])
                dist[st] = dist.get(st, 0) + 1
                if st != "ok" or x["touched"]:
                    run.violation("re-apply: second application of task %d reported %s and touched %r" % (i, x["status"], x["touched"]),
                                  dict(desc, observed=dict(first=[y["status"] for y in first], second=[y["status"] for y in second],
                                                           touched=[y["touched"] for y in second])))
                    break
    allp = [(db, [p, p], "none") for db in pacman_dbs() for p in pacman_params(tier)]
    if tier == "quick":
        allp = psample(run, allp, 1000)
    pres = run_pacman_cases(allp)
    for r in pres:
        d = pacman_compare(r)
        desc = dict(db=r["db"], task=r["tasks"][0], applied="twice")
        if d:
            mism.append((d, desc))
        if r["crash"] or len(r["impl_tasks"]) < 2:
            continue
        a, b = r["impl_tasks"]
        if a["status"] in ("ok", "changed"):
            if a["status"] == "changed":
                nontrivial.add(json.dumps(desc, sort_keys=True))
            # `update_cache` legitimately refreshes the sync databases on every run: not part of the package set
            if b["status"] != "ok" or [l for l in b["log"] if l[0] not in READ_ONLY | {"refresh"}] or r["impl_dbs"][1] != r["impl_dbs"][2]:
                if known_sync_dep(r["tasks"][0], r["db"]):
                    run.known("K19-sync-dependency", "")
                else:
                    run.violation("re-apply: second pacman run reported %s with requests %r" % (b["raw_status"], b["log"]),
                                  dict(desc, observed=dict(first=a, second=b)))
    report_mismatches(run, mism, "C05 mirror vs implementation")
    cov(run, len(res) + len(pres), len(nontrivial),
        "every product case applied twice in a row + random sequences of 2-7 state tasks (a third of them revisit a path) applied twice, judged when the first pass meets the Coq-evaluated hypothesis noninterf_b of the sequence theorem; "
        "non-trivial = distinct cases whose first application succeeded and changed something (the second must then be ok and touch nothing, incl. mtime/ctime)",
        [dict(world=S.describe(r["nodes"], None, "none")["world"], tasks=r["tasks"][:len(r["tasks"]) // 2]) for r in res[:1] + res[-1:]],
        dict(second_run_status_distribution=dist, fs_cases=len(res), sequences=nseq, pacman_cases=len(pres), model_impl_disagreements=len(mism),
             sequence_theorem_hypothesis=hyp_count),
        exhaustive=False)


# ---------------------------------------------------------------- C06
def c06(run, replay=None):
    tier = run.tier
    base = list(S.all_tasks(tier))
    cases = []
    for nodes, t in base:
        cases.append((nodes, [t], "task"))
        cases.append((nodes, [t], "none"))
    res = S.run_fs_cases(run, cases, stamps=False)
    dq = S.declared_queries([r if not r["impl"].get("crash") else res[0] for r in res])
    mism, nontrivial, dist = [], set(), {}
    if not all(q["tmp_like_create"] for q in dq):
        # hypothesis of C06_fs_check_predicts_real: the anonymous temp file gets the creation mode (probed per umask)
        run.violation("the platform's tempfile() mode differs from the file creation mode: the hypothesis tmp_like_create of the C06 theorems is not met",
                      dict(probe=C.probe(S.UMASK)), no_input=True)
    for i in range(0, len(res), 2):
        rc, rr = res[i], res[i + 1]
        for r in (rc, rr):
            d = S.compare_model_impl(r)
            if d:
                mism.append((d, S.describe(r["nodes"], r["tasks"][0], r["check"])))
        if rc["impl"].get("crash") or rr["impl"].get("crash"):
            continue
        sc = S.status_of(rc["impl"]["results"][0]["status"])
        sr = S.status_of(rr["impl"]["results"][0]["status"])
        desc = S.describe(rc["nodes"], rc["tasks"][0], "check-vs-real")
        key = "%s/%s" % (sc, sr)
        dist[key] = dist.get(key, 0) + 1
        if sc in ("ok", "changed") and sr in ("ok", "changed"):
            if sr == "changed":
                nontrivial.add(json.dumps(desc, sort_keys=True))
            if sc != sr:
                if dq[i]["k8"]:
                    run.known("K8-empty-create", "")
                else:
                    run.violation("predict: check mode reported %s, the real run reported %s" % (sc, sr),
                                  dict(desc, observed=dict(check=sc, real=sr)))
        if sc == "ok" and not fs_snapshot_equal(rr["impl"]):
            if dq[i]["k8"]:
                run.known("K8-empty-create", "")
            else:
                run.violation("predict: check mode reported ok but the real run changed the system (real status %s)" % sr,
                              dict(desc, observed=dict(check=sc, real=sr, final=rr["impl"]["final"])))
        # check mode reports a status but the real run FAILS: the prediction is wrong as well.  Known (K28) exactly
        # where the mirror of the pinned code says the same (missing parent directory, directory onto a dangling link)
        if (sc in ("ok", "changed")) != (sr in ("ok", "changed")):
            def mstat(r):
                return None if isinstance(r["model"], str) else r["model"][0][1][0]
            if sc in ("ok", "changed") and mstat(rc) == sc and mstat(rr) == sr:
                run.known("K28-check-misses-real-failure", "")
            else:
                run.violation("predict: check mode reported %s, the real run reported %s" % (sc, sr), dict(desc, observed=dict(check=sc, real=sr)))
    # special files (no Coq model): the two statuses - including failure - must be equal
    sp = []
    for nodes, t in special_cases():
        sp.append((nodes, [t], "task"))
        sp.append((nodes, [t], "none"))
    spo = run_special(sp, stamps=False)
    for i in range(0, len(sp), 2):
        a, b = spo[i], spo[i + 1]
        desc = dict(world=sp[i][0], task=sp[i][1][0], check="check-vs-real")
        if a.get("crash") or b.get("crash"):
            run.violation("file task on a named pipe: the harness run crashed or hung", dict(desc, observed=dict(check=a, real=b)))
            continue
        sc, sr = S.status_of(a["results"][0]["status"]), S.status_of(b["results"][0]["status"])
        dist["special:%s/%s" % (sc, sr)] = dist.get("special:%s/%s" % (sc, sr), 0) + 1
        if sc != sr:
            run.violation("predict (special file): check mode reported %s, the real run reported %s" % (sc, sr), dict(desc, observed=dict(check=a["results"][0]["status"], real=b["results"][0]["status"])))
    allp = []
    for db in pacman_dbs():
        for p in pacman_params(tier):
            allp.append((db, [p], "task"))
            allp.append((db, [p], "none"))
    if tier == "quick":
        allp = psample(run, allp, 1400, group=2)
    pres = run_pacman_cases(allp)
    for i in range(0, len(pres), 2):
        rc, rr = pres[i], pres[i + 1]
        for r in (rc, rr):
            d = pacman_compare(r)
            if d:
                mism.append((d, dict(db=r["db"], task=r["tasks"][0], check=r["check"])))
        if rc["crash"] or rr["crash"] or not rc["impl_tasks"] or not rr["impl_tasks"]:
            continue
        a, b = rc["impl_tasks"][0], rr["impl_tasks"][0]
        desc = dict(db=rc["db"], task=rc["tasks"][0], check="check-vs-real")
        if a["status"] in ("ok", "changed") and b["status"] in ("ok", "changed"):
            if b["status"] == "changed":
                nontrivial.add(json.dumps(desc, sort_keys=True))
            if (a["status"], a["installed"], a["removed"], a["upgraded"]) != (b["status"], b["installed"], b["removed"], b["upgraded"]):
                if known_check_skips_refresh(rc["tasks"][0], rc["db"]) and (a["installed"], a["removed"]) == (b["installed"], b["removed"]) and not a["upgraded"] == b["upgraded"]:
                    run.known("K24-check-skips-refresh", "")
                    continue
                run.violation("predict: pacman check mode reported %r, the real run %r" % ((a["status"], a["installed"], a["removed"], a["upgraded"]),
                                                                                           (b["status"], b["installed"], b["removed"], b["upgraded"])),
                              dict(desc, observed=dict(check=a, real=b)))
    report_mismatches(run, mism, "C06 mirror vs implementation")
    cov(run, len(res) + len(pres), len(nontrivial),
        "each product case run on two identical copies of the initial state, once with task check_mode and once without; "
        "non-trivial = distinct cases where both runs succeed and the real run reports changed",
        [S.describe(r["nodes"], r["tasks"][0], "check-vs-real") for r in res[:2]],
        dict(check_real_status_distribution=dist, fs_pairs=len(res) // 2, pacman_pairs=len(pres) // 2, model_impl_disagreements=len(mism)),
        exhaustive=(tier == "thorough"))


PROPS = {"C03": c03, "C04": c04, "C05": c05, "C06": c06}
