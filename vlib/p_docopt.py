"""C07 C08 C09 C10 property checks (docopt)."""
import itertools, json, collections
from . import common as C
from . import docopt as D
from .docopt_classes import classes_of, k12_dangling_value, k20_dash_positional, k45_bare_dash, k46_dash_value
from .common import hx, sx, parse_sx, unhx

TB = [
    "Coq 8.16.1 kernel (vm_compute inside proofs); no axioms (Print Assumptions: closed under the global context)",
    "extraction: ExtrOcamlBasic + ExtrOcamlString only; ocaml/main.ml line driver",
    "Usage.v is a REFERENCE written from rash_book/src/syntax.md + parser.md (not a mirror of the regex-rewriting parser); the code is tied to it only by this bounded sweep",
    "python: usage generator/renderer (text <-> AST), binding canonicalisation (flags as given/not given, defaults dropped), rearrangement enumerator (validated per case by Coq rearr_b)",
    "not modelled: parse_help/parse_usage text slicing, expand_usages/extend_usages regex rewriting",
]


def dup_option(toks):
    names = [t[1] for t in toks if t[0] == 'o']
    return len(names) != len(set(names))


def sweep(run, repeat=1):
    """returns list of records: dict(lines, with_opts, usage, classes, argv, ref, impl_outs)"""
    us = D.enum_usages(run.tier, run.rng)
    ua = [(ls, wo, D.argvs_for(wo, run.tier)) for ls, wo in us]
    fam = D.family_usages()
    nfam0 = len(ua)
    ua += fam
    us = us + [(ls, wo) for ls, wo, _ in fam]
    ref = D.run_reference(ua)
    cases = [(D.script_text(ls, wo), av) for (ls, wo, avs) in ua for av in avs]
    impl = D.run_impl(cases, repeat=repeat)
    recs = []
    i = 0
    for ui, ((ls, wo, avs), rr) in enumerate(zip(ua, ref)):
        cl = classes_of(ls)
        if wo == "H3" and len(ls) > 1:
            cl = sorted(cl + ["usage-continuation-lines"])
        utxt = " || ".join(D.show(l) for l in ls)
        for av, r in zip(avs, rr):
            recs.append(dict(lines=ls, with_opts=wo, usage=utxt, classes=cl, argv=av, ref=r, outs=impl[i], family=(ui >= nfam0)))
            i += 1
    return recs, len(us)


def rearrangements(toks):
    """all orders of the token list that keep the relative order of the non-option words"""
    words = [t for t in toks if t[0] == 'w']
    opts = [t for t in toks if t[0] == 'o']
    if not opts or len(toks) > 5:
        return []
    out = set()
    n = len(toks)
    for perm in set(itertools.permutations(range(len(opts)))):
        for pos in itertools.combinations(range(n), len(opts)):
            seq = [None] * n
            for k, p in enumerate(pos):
                seq[p] = opts[perm[k]]
            wi = iter(words)
            for j in range(n):
                if seq[j] is None:
                    seq[j] = next(wi)
            out.add(json.dumps(seq))
    orig = json.dumps(toks)
    return [json.loads(s) for s in out if s != orig]


def judge_accept(recs):
    """for every pair the implementation accepts but the strict reference does not bind the same
    way: try the rearrangements (options may be given anywhere). Returns dict index -> bool"""
    todo = []
    for idx, r in enumerate(recs):
        o = r["outs"][0]
        if "ok" not in o or r["ref"] is None:
            continue
        ci, dfl = D.canon_impl(o["ok"], D.opts_of(r["with_opts"]), [])
        if D.impl_matches_ref(ci, dfl, r["ref"]["matches"]):
            continue
        for alt in rearrangements(r["ref"]["toks"]):
            todo.append((idx, alt, ci, dfl))
    lines = [sx(["matchtoks", ["lines"] + [D.pat_sx(l) for l in recs[idx]["lines"]], ["toks"] + alt, ["orig"] + recs[idx]["ref"]["toks"]])
             for idx, alt, _, _ in todo]
    outs = C.run_oracle(lines)
    okidx = {}
    for (idx, alt, ci, dfl), o in zip(todo, outs):
        e = parse_sx(o)
        if e[0] != 't':
            continue
        ms = sorted(set(D.canon_ref(m) for m in e[1][1:]))
        if D.impl_matches_ref(ci, dfl, ms):
            okidx[idx] = True
    return okidx


def classify(recs):
    """adds r['verdict'] in ok | C07 | C08 | skip | panic, r['known'] = class ids or []"""
    okre = judge_accept(recs)
    for idx, r in enumerate(recs):
        o = r["outs"][0]
        ref = r["ref"]
        r["known"] = []
        if "panic" in o or "crash" in o:
            r["verdict"] = "panic"
            continue
        if "help" in o:
            r["verdict"] = "skip"
            continue
        if ref is not None and dup_option(ref["toks"]) and not (ref["matches"] and "rep-has-option" in r["classes"]):
            r["verdict"] = "skip"       # the same option given twice where the usage does not repeat it: the documentation is silent
            continue
        racc = ref is not None and len(ref["matches"]) > 0
        if "ok" in o:
            ci, dfl = D.canon_impl(o["ok"], D.opts_of(r["with_opts"]), [])
            if racc and D.impl_matches_ref(ci, dfl, ref["matches"]):
                r["verdict"] = "ok"
            elif okre.get(idx):
                r["verdict"] = "ok"
            else:
                r["verdict"] = "C07"
                if k20_dash_positional(o["ok"]):
                    r["known"].append("K20-dash-word-as-positional")
                if k12_dangling_value(r["argv"]):
                    r["known"].append("K12-dangling-valued-option")
                if k45_bare_dash(r["argv"]):
                    r["known"].append("K45-bare-dash-word")
                if k46_dash_value(r["argv"]):
                    r["known"].append("K46-option-value-starting-with-dash")
                r["known"] += ["K13-" + c for c in r["classes"]]
        else:
            if racc:
                r["verdict"] = "C08"
                if k12_dangling_value(r["argv"]):
                    r["known"].append("K12-dangling-valued-option")
                if k45_bare_dash(r["argv"]):
                    r["known"].append("K45-bare-dash-word")
                if k46_dash_value(r["argv"]):
                    r["known"].append("K46-option-value-starting-with-dash")
                r["known"] += ["K13-" + c for c in r["classes"]]
            else:
                r["verdict"] = "ok"
    # a failing pair inside a known class is THAT finding only if the frozen version of the module on which the
    # findings were recorded (harness/src/pinned_docopt, tools/pin_docopt.sh) fails it in the same way; otherwise it
    # is a different violation of the same property and is reported
    kidx = [i for i, r in enumerate(recs) if r["verdict"] in ("C07", "C08") and r["known"]]
    if kidx:
        pouts = C.run_harness("docopt", [dict(file=D.script_text(recs[i]["lines"], recs[i]["with_opts"]), args=recs[i]["argv"], pinned=True) for i in kidx],
                              per_case_timeout=20)
        for i, po in zip(kidx, pouts):
            cur = recs[i]["outs"][0]
            if po.get("crash") or po.get("pinned") != cur:
                recs[i]["pinned_outcome"] = None if po.get("crash") else po.get("pinned")
                recs[i]["known"] = []
    return recs


def replay_of(r):
    return dict(usage=r["usage"], script=D.script_text(r["lines"], r["with_opts"]), argv=r["argv"],
                implementation=r["outs"], reference=(r["ref"] or {}).get("matches"), classes=r["classes"],
                recorded_version_outcome=r.get("pinned_outcome", "same as now / not asked"))


def base_cov(run, recs, nus, nontrivial, rule, extra=None):
    dist = collections.Counter(r["verdict"] for r in recs)
    inclass = sum(1 for r in recs if r["classes"])
    run.coverage.update(evaluations=len(recs), distinct_nontrivial=nontrivial, rule=rule,
                        samples=[replay_of(r) for r in recs[:1] + [x for x in recs if x["verdict"] == "ok" and x["ref"] and x["ref"]["matches"]][:2]],
                        usages=nus, traces_validated_against_impl=len(recs), trusted_base=TB,
                        verdict_distribution=dict(dist), pairs_in_known_usage_classes=inclass,
                        exhaustive=False)
    if extra:
        run.coverage.update(extra)
    run.assumptions = ["options section fixed (-f/--force, -o/--out valued with default, -q, --level valued)",
                       "argv alphabet a b v w (+ option spellings), length <= 4/5",
                       "the same option given twice is not judged"]


def c07(run, replay=None):
    recs, nus = sweep(run)
    classify(recs)
    acc = 0
    for r in recs:
        if "ok" in r["outs"][0]:
            acc += 1
        if r["verdict"] == "C07":
            if r["known"]:
                for k in r["known"][:1]:
                    run.known(k, "")
            else:
                run.violation("accepted-but-not-in-language: `prog %s` with %r gives %s; reference bindings %r" %
                              (r["usage"], r["argv"], json.dumps(r["outs"][0]), (r["ref"] or {}).get("matches")), replay_of(r))
    tchecked, tdist = tail_correspondence(run, recs, 6000 if run.tier == "quick" else 100000)
    run.coverage.update(tail_mirror_cases=tchecked, tail_mirror_outcomes=tdist)
    base_cov(run, recs, nus, acc,
             "enumerated usage sections (1-3 elements over 2 commands, 2 positionals, optional/group/alternation/repeat, 1-2 usage lines, with and without an options section) x all argv over a small alphabet up to the length bound; "
             "non-trivial = pairs the implementation accepts (each is checked against the verified reference matcher, options allowed anywhere)")


def c08(run, replay=None):
    recs, nus = sweep(run)
    classify(recs)
    racc = 0
    for r in recs:
        if r["ref"] and r["ref"]["matches"]:
            racc += 1
        if r["verdict"] == "C08":
            if r["known"]:
                for k in r["known"][:1]:
                    run.known(k, "")
            else:
                run.violation("in-language-but-rejected: `prog %s` rejects %r although the documented syntax accepts it as %r" %
                              (r["usage"], r["argv"], r["ref"]["matches"][:2]), replay_of(r))
    # the two tail theorems of Props/C08.v are about Tail.v: tie it to the code on this run's pairs too
    tchecked, tdist = tail_correspondence(run, recs, 6000 if run.tier == "quick" else 100000)
    run.coverage.update(tail_mirror_cases=tchecked, tail_mirror_outcomes=tdist)
    base_cov(run, recs, nus, racc,
             "same enumeration as C07; non-trivial = pairs the reference matcher accepts (the implementation must then accept)")


def c09(run, replay=None):
    recs, nus = sweep(run)
    classify(recs)
    rep = 8 if run.tier == "quick" else 16
    famrecs = [r for r in recs if r.get("family")]       # the targeted families are re-parsed in full, never sampled away
    cand = [r for r in recs if not r.get("family") and ("ok" in r["outs"][0] or (r["ref"] and r["ref"]["matches"]))]
    rest = [r for r in recs if not r.get("family") and not ("ok" in r["outs"][0] or (r["ref"] and r["ref"]["matches"]))]
    na, nr = (12000, 3000) if run.tier == "quick" else (80000, 20000)       # (200 000 x 32 repeats needed more than 90 minutes)
    if len(cand) > na:
        cand = run.rng.sample(cand, na)
    if len(rest) > nr:
        rest = run.rng.sample(rest, nr)
    chosen = famrecs + cand + rest
    outs = D.run_impl([(D.script_text(r["lines"], r["with_opts"]), r["argv"]) for r in chosen], repeat=rep)
    multi = 0
    ambiguous = 0
    for r, o in zip(chosen, outs):
        if r["ref"] and len(r["ref"]["matches"]) > 1:
            ambiguous += 1
        allouts = list(o)
        if r["outs"][0] not in allouts:
            allouts.append(r["outs"][0])      # the first sweep ran in a different process
        if len(allouts) > 1:
            multi += 1
            r = dict(r, outs=allouts)
            run.violation("nondeterministic: `prog %s` with %r gave %d different outcomes: %s" %
                          (r["usage"], r["argv"], len(allouts), json.dumps(allouts)[:300]), replay_of(r))
    # documents OUTSIDE the reference model's language that still must be parsed the same way every time: two option
    # descriptions sharing a short or a long name (K49: the lookup walked a HashSet), the same option described twice
    # with different kinds, in the section and in the pattern
    def doc(usage, optlines):
        return "#!/usr/bin/env rash\n#\n# Usage: prog %s\n#\n# Options:\n%s#\n- debug:\n    msg: x\n" % (usage, "".join("#   %s\n" % l for l in optlines))
    shared = []
    for usage in ("[options]", "[options] [<x>]", "[-v] [<x>]", "[options] a [-v]", "[--all] [-o FILE] [<x>]", "[options] (-v | -a)"):
        for optlines in (["-v --verbose  More.", "-v --version  Version."], ["-v, --verbose  More.", "-v  Short only."], ["-a --all  All.", "-b --all  Also all."],
                         ["-o FILE --out=FILE  Out.", "-o --other  Other."], ["-v --verbose  More.", "-v LEVEL --level=LEVEL  Level."],
                         ["--all  All.", "--all=<x>  All of x."], ["-q  Quiet.", "-q  Quiet again [default: 1]."], ["-a --all  All [default: 1].", "-a X --all=X  All [default: 2]."],
                         ["-v...  Verbose.", "-v --verbose  V."]):
            for argv in ([], ["-v"], ["--verbose"], ["--version"], ["-v", "--version"], ["-a"], ["-b"], ["--all"], ["-ab"], ["-o", "w"], ["-ow"], ["--other"], ["--out=w"],
                         ["-v", "w"], ["--level=w"], ["--all=w"], ["-q"], ["-qq"], ["a"], ["a", "-v"], ["-v", "a"], ["w"], ["-v", "w", "a"], ["-vv"], ["-a", "w"]):
                shared.append((doc(usage, optlines), argv))
    souts = D.run_impl(shared, repeat=rep)
    shared_multi = 0
    for (text, argv), o in zip(shared, souts):
        if len(list(o)) > 1:
            shared_multi += 1
            if shared_multi <= 5:
                run.violation("nondeterministic: a document whose option descriptions share a name, with %r, gave %d different outcomes: %s" % (argv, len(list(o)), json.dumps(list(o))[:300]),
                              dict(script=text, argv=argv, outcomes=list(o)))
    # WHICH description answers when a name is shared: the code's choice (read off the normalised arguments, hook) must be
    # the one of OptLookup.ofind_min - the smallest matching description in the derived order of OptionArg
    single = [(text, argv) for text, argv in shared if len(argv) == 1 and argv[0].startswith("-") and "=" not in argv[0] and (argv[0].startswith("--") or len(argv[0]) == 2)]
    fouts = C.run_harness("docopt", [dict(file=text, args=argv, trace=True) for text, argv in single], per_case_timeout=20)
    flines, fidx = [], []
    for i, o in enumerate(fouts):
        if o.get("crash") or not o.get("tail") or "ok" not in (o.get("outs") or [{}])[0]:
            continue
        argvn, opts = o["tail"]
        if len(argvn) != 1:
            continue
        flines.append(sx(["optfind", ["opts"] + [[k, hx(s_) if s_ is not None else "none", hx(l) if l is not None else "none", hx(d) if d is not None else "none"] for k, s_, l, d in opts], hx(single[i][1][0])]))
        fidx.append(i)
    lookup_checked = 0
    for i, mo in zip(fidx, C.run_oracle(flines)):
        lookup_checked += 1
        want = None if mo == "none" else unhx(mo).decode()
        got = fouts[i]["tail"][0][0].split("=")[0]
        if want != got:
            run.violation("option-lookup: with %r the code answers with the description %r, the mirror of the repaired Options::find (smallest matching description) says %r" % (single[i][1], got, want),
                          dict(script=single[i][0], argv=single[i][1], normalised=fouts[i]["tail"][0], descriptions=fouts[i]["tail"][1]))
    # the order in which the code tries the expanded usages (hook) must be the model's canonical sorted
    # order: ties the Coq `sort`/`choose` of Order.v to docopt::parse
    tsel = [r for r in chosen if "ok" in r["outs"][0]]
    if len(tsel) > 3000:
        tsel = run.rng.sample(tsel, 3000)
    touts = C.run_harness("docopt", [dict(file=D.script_text(r["lines"], r["with_opts"]), args=r["argv"], trace=True) for r in tsel], per_case_timeout=20)
    olines, oidx = [], []
    for i, o in enumerate(touts):
        us = o.get("usages") or []
        if len(us) > 1:
            olines.append(sx(["sortstrings"] + [hx(u) for u in us]))
            oidx.append(i)
    oouts = C.run_oracle(olines)
    order_checked = 0
    hook_seen = sum(1 for o in touts if o.get("usages"))
    for i, oo in zip(oidx, oouts):
        order_checked += 1
        want = [unhx(a).decode("utf-8", "replace") for a in parse_sx(oo)]
        got = touts[i]["usages"]
        if want != got:
            r = tsel[i]
            run.violation("usage-order: the expanded usages of `prog %s` with %r are tried in an order that is not the canonical sorted one: %r (model: %r)" %
                          (r["usage"], r["argv"], got[:4], want[:4]), dict(replay_of(r), tried=got, model_order=want), no_input=True)
            break
    if tsel and not hook_seen:
        run.violation("hook: docopt::VERIF_EXPANDED_USAGES returned nothing (the rash_verif hook is missing from /repo or the guard is off)", dict(), no_input=True)
    base_cov(run, recs, nus, ambiguous,
             "same enumeration as C07; every pair the implementation or the reference accepts (sampled above a cap) and a sample of rejected pairs is parsed again %d times in one process "
             "(every HashSet gets fresh RandomState keys), in a process different from the first parse; any two differing outcomes are a violation. "
             "non-trivial = re-parsed pairs for which the reference has more than one binding (several usage patterns could match)" % rep,
             dict(pairs_with_more_than_one_outcome=multi, reparsed_pairs=len(chosen), repeats=rep, usage_orders_checked_against_model=order_checked,
                  documents_with_shared_option_names=len(shared), of_them_nondeterministic=shared_multi, shared_name_lookups_checked_against_model=lookup_checked))


# ---------------------------------------------------------------- C10
def spellings_of(tok, opts=None):
    opts = opts if opts is not None else D.OPTS
    """documented spellings of one option token of the fixed table"""
    name = unhx(tok[1]).decode()
    val = None if tok[2] == "none" else unhx(tok[2]).decode()
    o = [x for x in opts if D.cname(x) == name][0]
    out = []
    if not o[2]:
        if o[0]:
            out.append(["-" + o[0]])
        if o[1]:
            out.append(["--" + o[1]])
    else:
        if o[0]:
            out += [["-" + o[0], val], ["-" + o[0] + val], ["-" + o[0] + "=" + val]]
        if o[1]:
            out += [["--" + o[1], val], ["--" + o[1] + "=" + val]]
    return out


def respellings(toks, limit=24, opts=None):
    opts = opts if opts is not None else D.OPTS
    flags = "".join(o[0] for o in opts if o[0] and not o[2])
    per = []
    for t in toks:
        if t[0] == 'w':
            per.append([[unhx(t[1]).decode()]])
        else:
            per.append(spellings_of(t, opts))
    out = []
    for combo in itertools.product(*per):
        av = [w for part in combo for w in part]
        out.append(av)
        # stack two adjacent short flags
    stacked = []
    for av in out:
        for i in range(len(av) - 1):
            a, b = av[i], av[i + 1]
            if len(a) == 2 and a[0] == '-' and a[1] in flags and len(b) >= 2 and b[0] == '-' and b[1] != '-':
                stacked.append(av[:i] + [a + b[1:]] + av[i + 2:])
    out += stacked
    uniq = []
    for av in out:
        if av not in uniq:
            uniq.append(av)
    return uniq[:limit]


def c10(run, replay=None):
    recs, nus = sweep(run)
    classify(recs)
    groups = []
    shape_checked = 0
    shape_in_class = []
    for r in recs:
        o = r["outs"][0]
        if "ok" in o:
            # shape: every declared option under `options`, every command of the pattern as a key
            js = o["ok"]
            if not r["classes"]:
                shape_checked += 1
                missing = []
                if r["with_opts"]:
                    opts = js.get("options", {})
                    missing += ["options." + D.key_of(D.cname(x)) for x in D.opts_of(r["with_opts"]) if D.key_of(D.cname(x)) not in opts]
                    # an option that was not given holds its declared default (false / 0 / null without one)
                    given = set() if not r["ref"] else {D.key_of(unhx(t[1]).decode()) for t in r["ref"]["toks"] if t[0] == 'o'}
                    for x in D.opts_of(r["with_opts"]):
                        k = D.key_of(D.cname(x))
                        if r["ref"] and k in opts and k not in given and (r["verdict"] == "ok" or (r["verdict"] == "C07" and not r["known"] and not dup_option(r["ref"]["toks"]))):
                            want = x[3] if x[2] else None
                            got = opts[k]
                            if x[2] and got != want:
                                run.violation("default-lost: `prog %s` with %r: option %s was not given and has the declared default %r, but the result holds %r" %
                                              (r["usage"], r["argv"], k, want, got), replay_of(r))
                            if not x[2] and got not in (False, 0):
                                run.violation("default-lost: `prog %s` with %r: flag %s was not given but the result holds %r" % (r["usage"], r["argv"], k, got), replay_of(r))
                missing += [c for c in D.commands_of(r["lines"]) if D.key_of(c) not in js]
                if missing:
                    run.violation("unstable-shape: `prog %s` with %r lacks %r in %s" % (r["usage"], r["argv"], missing, json.dumps(js)), replay_of(r))
            else:
                # inside a known usage class: a missing key is that finding only if the recorded version lacks it too
                missing = [c for c in D.commands_of(r["lines"]) if D.key_of(c) not in js]
                if r["with_opts"]:
                    opts = js.get("options", {})
                    missing += ["options." + D.key_of(D.cname(x)) for x in D.opts_of(r["with_opts"]) if D.key_of(D.cname(x)) not in (opts if isinstance(opts, dict) else {})]
                if missing:
                    shape_in_class.append((r, missing))
        if r["with_opts"] and r["verdict"] == "ok" and "ok" in o and r["ref"] and any(t[0] == 'o' for t in r["ref"]["toks"]) \
                and not r["classes"] and not dup_option(r["ref"]["toks"]):
            avs = respellings(r["ref"]["toks"], opts=D.opts_of(r["with_opts"]))
            if len(avs) > 1:
                groups.append((r, avs))
    if shape_in_class:
        pouts = C.run_harness("docopt", [dict(file=D.script_text(r["lines"], r["with_opts"]), args=r["argv"], pinned=True) for r, _ in shape_in_class], per_case_timeout=20)
        for (r, missing), po in zip(shape_in_class, pouts):
            if not po.get("crash") and po.get("pinned") == r["outs"][0]:
                run.known("K13-" + r["classes"][0], "")
            else:
                r["pinned_outcome"] = None if po.get("crash") else po.get("pinned")
                run.violation("unstable-shape: `prog %s` with %r lacks %r in %s (the recorded version of the module gives another result)" %
                              (r["usage"], r["argv"], missing, json.dumps(r["outs"][0])[:300]), replay_of(r))
    if run.tier == "quick" and len(groups) > 1500:
        groups = run.rng.sample(groups, 1500)
    # the respellings must canonicalise to the same tokens (ties the python speller to Spell/canon in Coq)
    clines = [sx(["canon", D.table_sx(D.opts_of(r["with_opts"])), ["argv"] + [hx(w) for w in av]]) for r, avs in groups for av in avs]
    couts = C.run_oracle(clines)
    cases = [(D.script_text(r["lines"], r["with_opts"]), av) for r, avs in groups for av in avs]
    iouts = D.run_impl(cases)
    k = 0
    nresp = 0
    for r, avs in groups:
        base = None
        want = sx(["toks"] + r["ref"]["toks"])
        for av in avs:
            co, io = couts[k], iouts[k]
            k += 1
            if co != want:
                continue        # not a spelling of the same tokens (e.g. value swallowed): not judged
            nresp += 1
            if k12_dangling_value(av):
                continue
            if base is None:
                base = (av, io)
            elif io != base[1]:
                o1 = io[0].get("ok") if "ok" in io[0] else None
                if o1 is not None and k20_dash_positional(o1):
                    run.known("K20-dash-word-as-positional", "")
                    continue
                run.violation("spelling-dependent: `prog %s`: %r gives %s but the equivalent spelling %r gives %s" %
                              (r["usage"], base[0], json.dumps(base[1])[:200], av, json.dumps(io)[:200]),
                              dict(replay_of(r), spelling_a=base[0], out_a=base[1], spelling_b=av, out_b=io))
    tchecked, tdist = tail_correspondence(run, [r for r in recs if r["with_opts"]], 4000 if run.tier == "quick" else 60000)
    run.coverage.update(normalize_and_tail_mirror_cases=tchecked)
    base_cov(run, recs, nus, nresp,
             "accepted pairs of the C07 enumeration that carry options (outside the known usage classes), each re-spelled in every documented way "
             "(short/long, -oV / -o V / -o=V / --out=V / --out V, stacked short flags); non-trivial = re-spelled argument vectors whose Coq canonicalisation equals the original's; "
             "shape = every declared option key and every command key present in every accepted result",
             dict(respelling_groups=len(groups), respelled_vectors=nresp, shape_checked=shape_checked))



def jv_of_json(x):
    """implementation JSON -> the model's s-expression value (parsed form)"""
    if x is None:
        return "null"
    if isinstance(x, bool):
        return "t" if x else "f"
    if isinstance(x, int):
        return ["num", str(x)]
    if isinstance(x, str):
        return ["str", hx(x)]
    if isinstance(x, list):
        return ["arr"] + [hx(i) for i in x]
    return ["obj"] + [[hx(k), jv_of_json(v)] for k, v in x.items()]


def canon_jv(e):
    """order-insensitive canonical form of a model value"""
    if isinstance(e, str):
        return e
    if e[0] == "obj":
        return ("obj", tuple(sorted((kv[0], canon_jv(kv[1])) for kv in e[1:])))
    if e[0] == "arr":
        return ("arr", tuple(e[1:]))
    return tuple(e)


def _odd(usage, argv):
    return dict(lines=[('raw', usage)], with_opts=False, argv=argv, usage=usage, outs=[{}], ref=None, classes=[])


# usage words outside the enumerated grammar that reach the classification / binding code of the last stage
ODD_TAIL = [_odd(u, a) for u in ("<aB", "<a", "AB", "A-B", "A_B+", "<a-b>", "<a_b>...", "aB", "a-b", "a_b c-d", "<x>B", "<x>b", "a+", "A+", "<a>+", "X <x>", "x <x>", "x X")
            for a in ([], ["v"], ["v", "w"], ["a-b"], ["a_b", "c-d"], ["x", "v"])]


def tail_correspondence(run, recs, cap):
    """the mirror of docopt's last stage (Tail.v), fed with the normalised argv, sorted expanded usages and
    option descriptors the implementation itself computed (rash_verif hook), must give the implementation's answer"""
    good = [r for r in recs if "crash" not in r["outs"][0] and "panic" not in r["outs"][0]]
    acc = [r for r in good if "ok" in r["outs"][0] or "help" in r["outs"][0]]
    rej = [r for r in good if not ("ok" in r["outs"][0] or "help" in r["outs"][0])]
    if len(acc) > cap // 2:
        acc = run.rng.sample(acc, cap // 2)
    if len(rej) > cap - len(acc):
        rej = run.rng.sample(rej, cap - len(acc))
    sel = acc + rej + ODD_TAIL
    touts = C.run_harness("docopt", [dict(file=D.script_text(r["lines"], r["with_opts"]), args=r["argv"], trace=True) for r in sel], per_case_timeout=20)
    lines, idx = [], []
    for i, o in enumerate(touts):
        if o.get("crash") or "tail" not in o:
            continue
        argvn, opts = o["tail"]
        lines.append(sx(["tail", ["opts"] + [[k, hx(s) if s is not None else "none", hx(l) if l is not None else "none", hx(d) if d is not None else "none"] for k, s, l, d in opts],
                         ["argv"] + [hx(a) for a in argvn], ["usages"] + [hx(u) for u in o["usages"]]]))
        idx.append(i)
    mouts = C.run_oracle(lines)
    # the mirror of Options::normalize_options must give the normalised argv the code computed
    nlines = []
    for i in idx:
        argvn, opts = touts[i]["tail"]
        nlines.append(sx(["normopts", ["opts"] + [[k, hx(s_) if s_ is not None else "none", hx(l) if l is not None else "none", hx(d) if d is not None else "none"] for k, s_, l, d in opts],
                          ["argv"] + [hx(a) for a in sel[i]["argv"]]]))
    nouts = C.run_oracle(nlines)
    for i, no in zip(idx, nouts):
        e = parse_sx(no)
        got = touts[i]["tail"][0]
        want = None if isinstance(e, str) else [unhx(a).decode("utf-8", "replace") for a in e[1:]]
        if want != got:
            r = sel[i]
            run.violation("normalize-mirror: `prog %s` with %r: the mirror of normalize_options gives %r, the implementation %r" % (r["usage"], r["argv"], want, got),
                          dict(replay_of(r), model=want, implementation=got), no_input=True)
            break
    # the mirror of parse_help + parse_usage (HelpDoc.v, UsageDoc.v) must read the usage patterns the code read (hook)
    ulines = [sx(["usagedoc", hx(D.script_text(sel[i]["lines"], sel[i]["with_opts"]))]) for i in range(len(sel)) if "usages_read" in touts[i]]
    uidx = [i for i in range(len(sel)) if "usages_read" in touts[i]]
    for i, uo in zip(uidx, C.run_oracle(ulines)):
        e = parse_sx(uo)
        want = None if isinstance(e, str) else [unhx(a).decode("utf-8", "replace") for a in e[1:]]
        got = touts[i]["usages_read"]
        if want != got:
            r = sel[i]
            run.violation("usage-section mirror: `%s`: UsageDoc.v reads %r, the implementation read %r" % (r["usage"], want, got),
                          dict(replay_of(r), model=want, implementation=got), no_input=True)
            break
    checked = 0
    dist = {}
    for i, mo in zip(idx, mouts):
        r = sel[i]
        out = touts[i]["outs"][0]
        m = parse_sx(mo)
        checked += 1
        if isinstance(m, str):
            kind = m
        else:
            kind = "vars"
        dist[kind] = dist.get(kind, 0) + 1
        ok = True
        if kind == "vars":
            ok = "ok" in out and canon_jv(m[1]) == canon_jv(jv_of_json(out["ok"]))
        elif kind == "help":
            ok = "help" in out
        elif kind in ("no-match", "invalid-usage"):
            ok = "err" in out
        elif kind == "panic":
            ok = "panic" in out
        if not ok:
            run.violation("tail-mirror: `prog %s` with %r: the mirror of docopt's last stage gives %s, the implementation %s" %
                          (r["usage"], r["argv"], mo[:200], json.dumps(out)[:200]),
                          dict(replay_of(r), normalised_argv=touts[i]["tail"][0], usages=touts[i]["usages"], model=mo, implementation=out), no_input=True)
            break
    return checked, dist


PROPS = {"C07": c07, "C08": c08, "C09": c09, "C10": c10}
