"""C13: rash never panics, aborts, overflows the stack or hangs. Deadline-supervised exploration
(support for the partial Coq statements of Props/C13.v; fuzzing is not a proof)."""
import json, os, random, shutil, subprocess, threading, string, time, glob
from . import common as C
from . import engine as E
from . import docopt as D
from .engine import task, lit

TB = [
    "Coq 8.16.1 kernel; no axioms - but the theorems of Props/C13.v only cover the modelled panic sites (help check, parse_octal) and the store-growth law behind K15",
    "everything else is exploration: mutated scripts / usage docs / argument vectors / environments / parameter values run on the real binary and in-process docopt::parse under a deadline with process-group kill; outcome enum {exit, panic, signal, timeout}",
    "panics inside minijinja / serde_yaml / clap / regex and the stack depth in bytes cannot be expressed in the model",
]
DEADLINE = 5


def k16_class(text):
    """many optional / alternative elements in the usage section: expansion is exponential (K16)"""
    usage = text.split("Options:")[0]
    return usage.count("[") + usage.count("|") >= 11


def classify(rc, stderr):
    if rc == "timeout":
        return "timeout"
    if isinstance(rc, int) and rc < 0:
        return "signal"
    if rc == 101 or "panicked at" in stderr or "stack overflow" in stderr:
        return "panic"
    return "exit"


def run_script(root, text, argv=(), env=None, timeout=DEADLINE, rash_args=(), raw=True):
    shutil.rmtree(root, ignore_errors=True)
    os.makedirs(os.path.join(root, "out"))
    p = os.path.join(root, "s.rh")
    with open(p, "wb") as fh:
        fh.write(text.replace("ROOT", root).encode("utf-8", "surrogateescape"))
    e = dict(os.environ)
    if env:
        e.update(env)
    t0 = time.time()
    try:
        pr = subprocess.run([C.RASH] + list(rash_args) + (["--output", "raw"] if raw else []) + [p] + list(argv), capture_output=True, timeout=timeout, env=e, cwd=root, start_new_session=True)
        rc, se = pr.returncode, pr.stderr.decode("utf-8", "replace")
    except subprocess.TimeoutExpired:
        rc, se = "timeout", ""
    return dict(rc=rc, kind=classify(rc, se), stderr=se[-300:], secs=round(time.time() - t0, 2))


def run_script_stdout(root, text, sink, rash_args=(), timeout=DEADLINE):
    """like run_script, with standard output redirected to a device that is full or a pipe whose reader is gone"""
    shutil.rmtree(root, ignore_errors=True)
    os.makedirs(os.path.join(root, "out"))
    p = os.path.join(root, "s.rh")
    with open(p, "wb") as fh:
        fh.write(text.replace("ROOT", root).encode("utf-8", "surrogateescape"))
    open(os.path.join(root, "out", "f"), "w").write("old\n")
    t0 = time.time()
    try:
        if sink == "/dev/full":
            with open("/dev/full", "w") as out:
                pr = subprocess.run([C.RASH] + list(rash_args) + [p], stdout=out, stderr=subprocess.PIPE, timeout=timeout, cwd=root, start_new_session=True)
        else:
            r, w = os.pipe()
            os.close(r)
            try:
                pr = subprocess.run([C.RASH] + list(rash_args) + [p], stdout=w, stderr=subprocess.PIPE, timeout=timeout, cwd=root, start_new_session=True)
            finally:
                os.close(w)
        rc, se = pr.returncode, pr.stderr.decode("utf-8", "replace")
    except subprocess.TimeoutExpired:
        rc, se = "timeout", ""
    return dict(rc=rc, kind=classify(rc, se), stderr=se[-300:], secs=round(time.time() - t0, 2))


def parallel(fn, items):
    res = [None] * len(items)
    parts = C.shard(list(enumerate(items)), C.NPROC)

    def work(si):
        root = os.path.join(C.SANDBOX, "r%d" % si)
        for idx, it in parts[si]:
            res[idx] = fn(root, it)
    ths = [threading.Thread(target=work, args=(i,)) for i in range(len(parts))]
    [t.start() for t in ths]
    [t.join() for t in ths]
    return res


TOKENS = ["{{", "}}", "{%", "%}", "{#", "- ", ": ", "[", "]", "{", "}", "|", ">", "&a", "*a", "!!x", "\t", "\n", "'", '"', "\\", "é", "\x00", "99999999999999999999999",
          "loop:", "when:", "vars:", "register:", "include:", "~", "null", "---", "...", "%", "@", "#", "  "]


def mutate(rng, text):
    n = rng.randint(1, 4)
    s = text
    for _ in range(n):
        k = rng.randrange(6)
        if not s:
            s = rng.choice(TOKENS)
            continue
        i = rng.randrange(len(s))
        if k == 0:
            s = s[:i] + rng.choice(TOKENS) + s[i:]
        elif k == 1:
            j = min(len(s), i + rng.randint(1, 12))
            s = s[:i] + s[j:]
        elif k == 2:
            lines = s.split("\n")
            a = rng.randrange(len(lines))
            lines.insert(a, lines[rng.randrange(len(lines))])
            s = "\n".join(lines)
        elif k == 3:
            lines = s.split("\n")
            if len(lines) > 1:
                del lines[rng.randrange(len(lines))]
            s = "\n".join(lines)
        elif k == 4:
            s = s[:i] + s[i:i + 20] * rng.randint(2, 30) + s[i:]
        else:
            lines = s.split("\n")
            a = rng.randrange(len(lines))
            lines[a] = rng.choice(["", " ", "   ", "\t"]) + lines[a].lstrip() if rng.random() < 0.5 else "    " + lines[a]
            s = "\n".join(lines)
    return s


def harmless_corpus(rng):
    """scripts without command/copy/file tasks (a mutated path must not reach the real system)"""
    from . import p_engine as PE
    out = []
    for _ in range(12):
        kinds = [rng.choice([0, 1, 2, 3, 6, 8, 9, 11, 12]) for _ in range(rng.randint(2, 5))]
        ts = [PE.INIT] + [PE.normal_slot(k, i + 1) for i, k in enumerate(kinds)]
        out.append(E.file_text(dict(tasks=ts), "ROOT"))
    out.append("#!/usr/bin/env rash\n#\n# Usage: prog [options] (go|stop) <x>...\n#\n# Options:\n#   -f, --force  f\n#   -o FILE      o [default: d]\n#\n- debug:\n    msg: \"{{ x }} {{ options }}\"\n")
    out.append("#!/usr/bin/env rash\n- debug:\n    msg: \"{{ find({'paths': 'ROOT', 'recurse': false}) }}\"\n- set_vars:\n    l: [1, 2, {a: b}]\n- debug:\n    var: l\n  loop: \"{{ l }}\"\n")
    return out


BAD_PARAMS = [
    "- copy:\n    content: x\n    dest: ROOT/out/f\n    mode: 12345678901234567890\n",
    "- copy:\n    content: {a: b}\n    dest: ROOT/out/f\n",
    "- copy:\n    content: x\n    dest: 5\n",
    "- copy:\n    content: x\n    dest: ROOT/out/f\n    mode: [1]\n",
    "- copy:\n    content: x\n    dest: ROOT/out/f\n    mode: \"é75\"\n",
    "- copy:\n    content: x\n    dest: ROOT/out/f\n    mode: \"\\u00e9\\u00e975\"\n",
    "- copy:\n    src: ROOT/nonexistent\n    dest: ROOT/out/f\n    mode: preserve\n",
    "- file:\n    path: ROOT/out/f\n    state: 7\n",
    "- file:\n    path: \"\"\n    state: touch\n",
    "- file:\n    path: /\n    state: directory\n    mode: \"0755\"\n  check_mode: true\n",
    "- file:\n    path: ROOT/out/" + "d/" * 300 + "x\n    state: directory\n  check_mode: true\n",
    "- find:\n    paths: ROOT\n    size: \"-1\"\n",
    "- find:\n    paths: ROOT\n    size: \"9999999999999999999999999999GB\"\n",
    "- find:\n    paths: []\n",
    "- find:\n    paths: ROOT\n    patterns: \"(\"\n",
    "- find:\n    paths: /\n    file_type: directory\n    patterns: \".*\"\n",
    "- find:\n    paths: ROOT\n    excludes: 5\n",
    "- debug:\n    msg: x\n  loop: 5\n",
    "- debug:\n    msg: x\n  loop: {a: b}\n",
    "- debug:\n    msg: x\n  loop: \"{{ 1 }}\"\n",
    "- debug:\n    msg: x\n  loop: \"{{ [] }}\"\n",
    "- debug:\n    msg: x\n  when: [[]]\n",
    "- debug:\n    msg: x\n  when: \"{{\"\n",
    "- debug:\n    msg: x\n  register: 5\n",
    "- debug:\n    msg: x\n  vars: [1]\n",
    "- debug:\n    msg: x\n  vars:\n    a: null\n",
    "- debug:\n    msg: \"{{ 1 / 0 }}\"\n",
    "- debug:\n    msg: \"{{ range(100000000) | list | length }}\"\n  ignore_errors: true\n",
    "- debug:\n    msg: \"{% for i in range(3) %}{{ i }}{% endfor %}\"\n",
    "- include: 5\n",
    "- include: ROOT/s.rh\n  when: false\n",
    "- command:\n    argv: []\n",
    "- command:\n    cmd: \"\"\n",
    "- command:\n    argv: []\n    transfer_pid: true\n",
    "- assert:\n    that: x\n",
    "- assert:\n    that: [\"{{\"]\n  ignore_errors: true\n",
    "- set_vars: [1]\n",
    "- set_vars:\n    a: {b: {c: [1, {d: e}]}}\n",
    "- template:\n    src: ROOT/nonexistent\n    dest: ROOT/out/t\n",
    "- pacman:\n    executable: /nonexistent/pacman\n    name: x\n",
    "- pacman:\n    executable: /bin/false\n    name: [x]\n    state: sync\n",
    "- debug:\n    msg: x\n  become: true\n  become_user: no_such_user_xyz\n",
    "- debug:\n    msg: x\n  become: true\n  become_user: \"4294967295\"\n",
]


ODD_VALUES = ["{1: x}", "{~: y}", "{[a]: b}", "{true: 1}", "[]", "{}", '""', "null", "~", "0", "-1", "true", "[[]]", '[""]', '{"": ""}', "1.5", '"' + "x" * 5000 + '"', '" "', '"\\n"', "[1, [2, [3]]]",
              '"{{"', '"{{ }}"', '"{% %}"', "!!binary aGk=", "[null]", '"é"', "0x10", "1e400", ".inf", '"-"', '"="',
              # strings holding JSON/YAML text, and templates that render to something that is not a string
              '"[]"', '"{}"', '"null"', '"[[]]"', "'[\"\"]'", '["[]"]', '"{{ [] }}"', '"{{ {} }}"', '"{{ none }}"', '"{{ [[]] }}"', '"{{ 1 }}"', '"{{ true }}"',
              '["{{ [] }}"]', '"{{ omit }}"', '"{{ undefined_variable }}"']
# lookups with boundary arguments (find() shares the module's parameter handling)
LOOKUP_EXPRS = ["find({'paths': '[]'})", "find({'paths': []})", "find({'paths': ['[]']})", "find({})", "find()", "find(1)", "find('x')", "find([])", "find(none)",
                "find({'paths': 'ROOT', 'size': '-1'})", "find({'paths': 'ROOT', 'patterns': '('})", "find({'paths': 'ROOT', 'file_type': 'x'})", "find({'paths': 'rel'})",
                "find({'paths': 'ROOT', 'recurse': 'yes'})", "find({'paths': 'ROOT', 'nosuch': 1})", "find({'paths': 'ROOT'}, 1)", "find({'paths': {'a': 1}})",
                "find({'paths': 'ROOT', 'excludes': []})", "find({'paths': 'ROOT', 'patterns': ['[]']})"]
TASK_KEYWORDS = ["when", "changed_when", "loop", "register", "vars", "ignore_errors", "name", "check_mode", "become", "become_user"]
MODULE_PARAMS = {
    "copy": ["content", "src", "dest", "mode"], "file": ["path", "state", "mode"], "template": ["src", "dest", "mode"],
    "find": ["paths", "excludes", "file_type", "follow", "hidden", "patterns", "recurse", "size"],
    "command": ["cmd", "argv", "chdir", "transfer_pid"], "debug": ["msg", "var"], "assert": ["that"],
    "pacman": ["executable", "extra_args", "force", "name", "state", "update_cache", "upgrade"],
}
MODULE_BASE = {
    "copy": {"content": '"x"', "dest": '"ROOT/out/f"'}, "file": {"path": '"ROOT/out/f"'}, "template": {"src": '"ROOT/s.rh"', "dest": '"ROOT/out/t"'},
    "find": {"paths": '"ROOT"'}, "command": {"cmd": '"true"'}, "debug": {"msg": '"x"'}, "assert": {"that": '["true"]'},
    "pacman": {"executable": '"/bin/true"', "name": '"x"'},
}
SPECIAL_SCRIPTS = ["- debug:\n    msg: level\n- include: \"{{ rash.path }}\"\n", "- include: \"{{ rash.path }}\"\n  ignore_errors: true\n- debug:\n    msg: after\n",
                   "- include: \"{{ rash.path }}\"\n  loop: [1, 2]\n", "- include: ROOT/s.rh\n  when: true\n  become: true\n  become_user: nobody\n",
                   "", "\n", "#!/usr/bin/env rash\n", "# only a comment\n# Usage: prog\n", "#!/usr/bin/env rash\r\n#\r\n# Usage: prog [<x>]\r\n#\r\n- debug:\r\n    msg: x\r\n",
                   "[]\n", "---\n", "--- []\n...\n", "- debug:\n    msg: x\n" * 2 + "\n\n\n", "\ufeff- debug:\n    msg: bom\n", "#\n#\n#\n", "#!\n# Usage:\n#\n- debug:\n    msg: x\n",
                   "# Usage: prog\n# Options:\n#\n- debug:\n    msg: x\n", "#!/usr/bin/env rash\n#\n# Usage: prog [options]\n#\n# Options:\n#   -x\n#\n- debug:\n    msg: x\n",
                   "#!/usr/bin/env rash\n#\n# Usage: prog [options] [options]\n#\n# Options:\n#   -x  x\n#\n- debug:\n    msg: x\n"]


CLI_ARGS = [["-e", "=v"], ["-e", "="], ["-e", "k="], ["-e", "k=v=w"], ["-e", " =v"], ["-e", "a b=c"], ["-e", "é=é"], ["-e", "K=" + "v" * 100000],
            ["-e", "A=1", "-e", "A=2", "-e", "=3"], ["-u", ""], ["-u", "é"], ["-b", "-u", "nosuchuser"], ["-b", "-u", "-1"], ["-b", "-u", "99999999999"],
            ["-vvvvvvvvvvvvvvvvvvvv"], ["-" + "v" * 300], ["-c", "-d"], ["--output", "raw", "--output", "ansible"], ["-s", ""], ["-s", "- debug:\n    msg: inline"],
            ["-s", "{{"], ["-s", "\x01"], ["-e", "RUST_BACKTRACE="], ["-e", "PATH="], ["-e", "HOME="], ["-e", "LANG=\udcff".encode("utf-8", "surrogateescape").decode("utf-8", "surrogateescape")]]

UNICODE_ARGV = [["-€oX"], ["-éoX"], ["-fé"], ["-f€oX"], ["-ééoX"], ["-oé"], ["-o", "é"], ["--é"], ["--out=é"], ["--é=x"], ["-é"], ["-fö", "a"], ["a", "-q€"], ["-✓✓"],
                ["--ou€"], ["-o=é"], ["-\u0301"], ["--\U0001F600"], ["-f\U0001F600o", "v"]]

USAGE_CHARS = ["<", ">", "a", "B", "-", "_", "+", "[", "]", "(", ")", "|", ".", "{", "}", "=", "#"]


def usage_words(rng, tier):
    import itertools
    out = []
    for n in (1, 2, 3):
        out += ["".join(t) for t in itertools.product(USAGE_CHARS, repeat=n)]
    for n in (4, 5, 6):
        for _ in range(1500 if tier == "quick" else 20000):
            out.append("".join(rng.choice(USAGE_CHARS) for _ in range(n)))
    if tier == "quick":
        out = rng.sample(out, 2500) + ["<aB", "<a", "a>", "<>", "<a>B", "A+", "<a>+", "{", "}", "{}", "{-a}", "-a=<", "...", "[...]", "(|)", "[|]", "a|", "|a", "<a-B>"]
    return out


def boundary_scripts():
    out = []
    for k in TASK_KEYWORDS:
        for v in ODD_VALUES:
            out.append("#!/usr/bin/env rash\n- debug:\n    msg: x\n  %s: %s\n- debug:\n    msg: end\n" % (k, v))
    for m, params in MODULE_PARAMS.items():
        for p in params:
            for v in ODD_VALUES:
                kv = dict(MODULE_BASE[m])
                kv[p] = v
                body = "".join("    %s: %s\n" % (a, b) for a, b in kv.items())
                out.append("#!/usr/bin/env rash\n- %s:\n%s  ignore_errors: true\n- debug:\n    msg: end\n" % (m, body))
    for v in ODD_VALUES:
        out.append("#!/usr/bin/env rash\n- set_vars: %s\n" % v)
        out.append("#!/usr/bin/env rash\n- include: %s\n" % v)
        out.append("#!/usr/bin/env rash\n- debug: %s\n" % v)
    return out


def c13(run, replay=None):
    rng = run.rng
    viol = 0
    dist = {}
    items = []
    corpus = harmless_corpus(rng)
    nmut = 400 if run.tier == "quick" else 6000
    for i in range(nmut):
        items.append(("mutated-script", dict(text=mutate(rng, rng.choice(corpus)), argv=rng.choice([[], ["go", "v"], ["--", "-f", "go", "v", "w"], ["--", "--nosuch"]]))))
    for bp in BAD_PARAMS:
        items.append(("bad-parameter", dict(text="#!/usr/bin/env rash\n" + bp + "- debug:\n    msg: end\n", argv=[])))
    bs = boundary_scripts()
    for b in bs:
        items.append(("boundary-value", dict(text=b, argv=[])))
    for le in LOOKUP_EXPRS:
        items.append(("lookup", dict(text="#!/usr/bin/env rash\n- debug:\n    msg: \"{{ %s }}\"\n- debug:\n    msg: x\n  loop: \"{{ %s }}\"\n  ignore_errors: true\n" % (le, le), argv=[])))
    for sp in SPECIAL_SCRIPTS:
        items.append(("special-script", dict(text=sp, argv=[])))
        items.append(("special-script", dict(text=sp, argv=["--", "x"])))
    # every kind of invalid task definition (non-string keys, near-miss keywords, non-mappings ...) after a valid task,
    # and alone: rejected with an error, never a panic
    from . import engine as EN
    for kind, txt in sorted(EN.INVALID_TEXT.items()):
        items.append(("invalid-task", dict(text="#!/usr/bin/env rash\n- debug:\n    msg: first\n" + txt, argv=[])))
        items.append(("invalid-task", dict(text="#!/usr/bin/env rash\n" + txt, argv=[])))
        items.append(("invalid-task", dict(text="#!/usr/bin/env rash\n- include: ROOT/s.rh\n" + txt, argv=[])))
    bad = b"\xff\xfe".decode("utf-8", "surrogateescape")
    # values AND names that are not UTF-8, an empty value, a huge value, a name of one odd character
    for env in [{"VP_BAD": bad}, {"VP_EMPTY": ""}, {"VP_LONG": "x" * 100000}, {"RASH_LOG_LEVEL": "\xff".encode("latin1").decode("utf-8", "surrogateescape")},
                {"VP_N" + bad + "ME": "1"}, {bad: bad}, {"VP NAME": "x"}, {"VP.N-1": "x"}, {"\u00e9\u00e8": "x"}, {"1": "x"}]:
        items.append(("environment", dict(text="#!/usr/bin/env rash\n- debug:\n    msg: \"{{ env | length }}\"\n", argv=[], env=env)))
    for argv in [["--", "-"], ["--", "--"], ["--", "=", "-=", "--="], ["--", ""], ["--", "é" * 5000], ["--", "-" * 3000], ["--"] + ["w"] * 300] + [["--"] + a for a in UNICODE_ARGV]:
        items.append(("argv", dict(text="#!/usr/bin/env rash\n#\n# Usage: prog [options] [<x>...]\n#\n# Options:\n#   -f  f\n#   -o, --output=<file>  o\n#   -v  v\n#\n- debug:\n    msg: \"{{ x | default('') }}\"\n", argv=argv)))

    # rash's own command line: every option with boundary values (K26: `-e =v`)
    plain = "#!/usr/bin/env rash\n- debug:\n    msg: \"{{ env | length }}\"\n"
    for ra in CLI_ARGS:
        items.append(("command-line", dict(text=plain, argv=[], rash_args=ra)))

    # the default (ansible) output format with the environment variables a terminal-aware program looks at, at their
    # boundary values; also given through -e (which sets them in rash's own process)
    shown = "#!/usr/bin/env rash\n- name: a named task {{ 1 + 1 }}\n  debug:\n    msg: shown\n- command: \"true\"\n- copy:\n    content: x\n    dest: ROOT/out/f\n"
    for var in ("COLUMNS", "LINES", "TERM", "NO_COLOR", "CLICOLOR_FORCE", "RUST_LOG", "RUST_BACKTRACE", "LANG", "LC_ALL", "TZ", "HOME", "PATH", "USER", "SHELL", "PWD", "TMPDIR"):
        for val in ("0", "1", "-1", "99999999999999", "18446744073709551616", "x", "", " ", "\udcff".encode("utf-8", "surrogateescape").decode("utf-8", "surrogateescape")):
            items.append(("terminal-environment", dict(text=shown, argv=[], env={var: val}, raw=False)))
            if val and "\udcff" not in val:
                items.append(("terminal-environment", dict(text=shown, argv=[], rash_args=["-e", "%s=%s" % (var, val)], raw=False)))
    for ra in (["--diff"], ["--check"], ["-vv"], ["--check", "--diff", "-v"]):
        items.append(("default-output", dict(text=shown, argv=[], rash_args=ra, raw=False)))
    # the TASK header line is padded to the terminal width: names of every length, in 1-, 2-, 3- and 4-byte characters
    for ch in ("a", "\u00e9", "\u65e5", "\U0001F600", "\u0301"):
        for n in list(range(0, 100, 3 if run.tier == "quick" else 1)) + [200, 1000]:
            items.append(("task-name-width", dict(text="#!/usr/bin/env rash\n- name: \"%s\"\n  debug:\n    msg: x\n" % (ch * n), argv=[], raw=False)))
            if n % 9 == 0:
                items.append(("task-name-width", dict(text="#!/usr/bin/env rash\n- name: \"%s\"\n  debug:\n    msg: x\n" % (ch * n), argv=[], raw=False, env={"COLUMNS": "40"})))

    # standard output that cannot be written to (K40): a full device, a closed pipe - with and without --diff
    for ra in ([], ["--diff"], ["--diff", "--check"], ["-vv"]):
        for sink in ("/dev/full", "closed-pipe"):
            items.append(("broken-stdout", dict(text=shown.replace("content: x", "content: \"line1\\nline2\\n\""), argv=[], rash_args=ra, raw=False, stdout=sink)))

    def runit(root, it):
        kind, c = it
        if c.get("stdout"):
            return run_script_stdout(root, c["text"], c["stdout"], rash_args=c.get("rash_args", ()))
        return run_script(root, c["text"], c.get("argv", ()), c.get("env"), rash_args=c.get("rash_args", ()), raw=c.get("raw", True))
    outs = parallel(runit, items)
    nontrivial = set()
    for (kind, c), o in zip(items, outs):
        dist["%s:%s" % (kind, o["kind"])] = dist.get("%s:%s" % (kind, o["kind"]), 0) + 1
        if o["rc"] not in (0, "timeout") and o["kind"] == "exit":
            nontrivial.add(c["text"][:400])
        if o["kind"] == "timeout" and k16_class(c["text"]):
            run.known("K16-exponential-usage-expansion", "")
            continue
        if o["kind"] != "exit":
            run.violation("%s: rash ended with %s (rc=%r, %.1fs): %s" % (kind, o["kind"], o["rc"], o["secs"], o["stderr"][-160:]),
                          dict(kind=kind, script=c["text"][:3000], argv=c.get("argv"), rash_args=c.get("rash_args"), env={k: repr(v) for k, v in (c.get("env") or {}).items()}, observed=o))
    # usage docs / argv through docopt::parse in process (catch_unwind), mutated
    docs = []
    base_docs = [D.script_text(ls, wo) for ls, wo in D.enum_usages("quick", rng)[:300:3]]
    nd = 600 if run.tier == "quick" else 10000
    for i in range(nd):
        docs.append((mutate(rng, rng.choice(base_docs)), rng.choice([[], ["a"], ["a", "v"], ["-f", "v"], ["--", "x"], ["-fo"], ["--out="], ["-o"], ["é"]] + UNICODE_ARGV)))
    # multi-byte characters inside stacked short options, option names and values (byte offsets vs characters)
    for ls, wo in D.enum_usages("quick", rng)[:300:10]:
        if wo:
            for a in UNICODE_ARGV:
                docs.append((D.script_text(ls, wo), a))
    # every usage word over the characters the usage syntax gives a meaning to (K25: `<aB` is classified as a
    # positional by its uppercase tail and has no closing `>`): exhaustive up to length 3, sampled beyond
    words = usage_words(rng, run.tier)
    for w in words:
        for pre in ("", "c "):
            doc = "#!/usr/bin/env rash\n#\n# Usage: prog %s%s\n#\n- debug:\n    msg: x\n" % (pre, w)
            for argv in ([], ["x"], ["c", "x"], ["x", "y"]):
                docs.append((doc, argv))
    # usage lines WITHOUT a program name, with and without an options section (K29)
    for w in ["", "[options]", "<x>", "[<x>]", "a", "[a]", "(a|b)", "<x>...", "[options] <x>", "-f", "[-f]", "--", "[--]"] + words[:200]:
        for optsec in ("", "# Options:\n#   -f  f\n#   -o FILE  o\n#\n"):
            for head in ("# Usage: %s\n", "# Usage:\n#   %s\n", "# Usage:%s\n", "# usage: %s\n"):
                doc = "#!/usr/bin/env rash\n#\n" + (head % w) + "#\n" + optsec + "- debug:\n    msg: x\n"
                for argv in ([], ["-f"], ["x"]):
                    docs.append((doc, argv))
    # the targeted docopt families of C07-C10 (option tables, dangling values, empty values, dash words ...): no pair may panic
    for ls, wo, avs in D.family_usages():
        txt = D.script_text(ls, wo)
        for av in (avs if run.tier == "thorough" else avs[::3]):
            docs.append((txt, av))
    heavy = [i for i, (doc, argv) in enumerate(docs) if k16_class(doc)]
    light = [i for i in range(len(docs)) if i not in set(heavy)]
    douts = [None] * len(docs)
    for i, o in zip(light, D.run_impl([docs[i] for i in light], per_case_timeout=1)):
        douts[i] = o
    # docs in the K16 class one by one under the deadline
    for i in heavy[:40]:
        try:
            p = subprocess.run([C.VH, "docopt"], input=json.dumps(dict(file=docs[i][0], args=docs[i][1])) + "\n", capture_output=True, text=True, timeout=DEADLINE)
            douts[i] = json.loads(p.stdout)["outs"] if p.stdout.strip() else [{"crash": True}]
        except subprocess.TimeoutExpired:
            douts[i] = [{"crash": True}]
    for (doc, argv), o in zip(docs, douts):
        if o is None:
            continue
        r = o[0]
        key = "docopt:" + ("panic" if "panic" in r else "crash" if "crash" in r else "returned")
        dist[key] = dist.get(key, 0) + 1
        if "panic" in r or "crash" in r:
            if k16_class(doc):
                run.known("K16-exponential-usage-expansion", "")
                continue
            run.violation("docopt::parse %s on a mutated usage" % ("panicked" if "panic" in r else "hung or killed the harness"), dict(doc=doc, argv=argv, observed=r))
    # size ramps
    ramps = {}
    sizes_loop = [100, 1000, 10000] + ([100000] if run.tier == "thorough" else [])
    root = os.path.join(C.SANDBOX, "rr")
    for n in sizes_loop:
        s = "#!/usr/bin/env rash\n- debug:\n    msg: x\n  loop: %s\n- debug:\n    msg: done\n" % json.dumps([str(i) for i in range(n)])
        o = run_script(root, s, timeout=120)
        ramps["loop_%d" % n] = (o["kind"], o["secs"])
        if o["kind"] != "exit" or o["rc"] != 0:
            if n >= 100000:
                run.known("K15-long-loop-overflows-stack", "")
            else:
                run.violation("a loop of %d items did not complete: %s rc=%r in %.1fs" % (n, o["kind"], o["rc"], o["secs"]), dict(items=n, observed=o))
    sizes_tasks = [100, 1000] + ([3000, 10000] if run.tier == "thorough" else [])
    for n in sizes_tasks:
        s = "#!/usr/bin/env rash\n" + "".join("- debug:\n    msg: t%d\n" % i for i in range(n))
        o = run_script(root, s, timeout=300)
        ramps["tasks_%d" % n] = (o["kind"], o["secs"])
        if o["kind"] != "exit" or o["rc"] != 0:
            if n >= 10000:
                run.known("K15-long-loop-overflows-stack", "")
            else:
                run.violation("a script of %d tasks did not complete: %s rc=%r in %.1fs" % (n, o["kind"], o["rc"], o["secs"]), dict(tasks=n, observed=o))
    # rash started with an OPEN, SILENT standard input (a terminal nobody types at, a pipe nobody writes to): commands that
    # read their standard input see end-of-file and the run ends
    sroot = os.path.join(C.SANDBOX, "rs")
    shutil.rmtree(sroot, ignore_errors=True)
    os.makedirs(sroot)
    for body in ("- command: cat\n- debug:\n    msg: after\n", "- command:\n    argv: [sh, -c, 'read x; echo got=$x']\n- debug:\n    msg: after\n",
                 "- command: \"grep -c x\"\n  ignore_errors: true\n- debug:\n    msg: after\n"):
        open(os.path.join(sroot, "s.rh"), "w").write("#!/usr/bin/env rash\n" + body)
        t0 = time.time()
        pr = subprocess.Popen([C.RASH, "--output", "raw", os.path.join(sroot, "s.rh")], stdin=subprocess.PIPE, stdout=subprocess.PIPE, stderr=subprocess.PIPE, cwd=sroot, start_new_session=True)
        try:
            pr.wait(timeout=DEADLINE)
            out = pr.stdout.read().decode("utf-8", "replace")
            kind = "exit"
        except subprocess.TimeoutExpired:
            import signal
            os.killpg(pr.pid, signal.SIGKILL)
            pr.wait()
            out, kind = "", "timeout"
        try:
            pr.stdin.close()
        except Exception:
            pass
        ramps["idle_stdin_%d" % len(ramps)] = (kind, round(time.time() - t0, 2))
        if kind != "exit" or pr.returncode != 0 or "after" not in out:
            run.violation("rash with an open, silent standard input and a command that reads it: %s rc=%r stdout=%r" % (kind, pr.returncode, out[-120:]), dict(script=body))
    # many options GIVEN (stacked short flags, repeated) beside a repeated positional: the time must not grow with 2^(options given)
    fdoc = "#!/usr/bin/env rash\n#\n# Usage: prog [options] <file>...\n#\n# Options:\n#   -v  v\n#   -q  q\n#   -f  f\n#   -x  x\n#\n"
    for n in (6, 12, 18, 26):
        argv = ["-" + ("vqfx" * 7)[:n], "a", "b"]
        t0 = time.time()
        try:
            subprocess.run([C.VH, "docopt"], input=json.dumps(dict(file=fdoc, args=argv)) + "\n", capture_output=True, text=True, timeout=20)
            secs = time.time() - t0
        except subprocess.TimeoutExpired:
            secs = 20.0
        ramps["stacked_flags_%d" % n] = round(secs, 2)
        if secs > 3.0:
            run.violation("`prog [options] <file>...` with %d stacked flags and two files needs %.1fs to parse" % (n, secs), dict(usage=fdoc, argv=argv, secs=secs))
    # K50: a file that includes ITSELF twice with ignore_errors: the depth limit (32) ends every branch, but there are 2^32 of them
    s = "#!/usr/bin/env rash\n- include: \"{{ rash.path }}\"\n  ignore_errors: true\n- include: \"{{ rash.path }}\"\n  ignore_errors: true\n"
    o = run_script(root, s, timeout=8)
    ramps["self_include_twice_ignored"] = (o["kind"], o["secs"])
    if o["kind"] == "timeout":
        run.known("K50-exponential-include-tree", "")
    elif o["kind"] != "exit":
        run.violation("a script including itself twice with ignore_errors: %s rc=%r" % (o["kind"], o["rc"]), dict(script=s, observed=o))
    for n in (4, 6, 8, 10, 12):
        names = ["c" + string.ascii_lowercase[i] for i in range(n)]
        f = "#!/usr/bin/env rash\n#\n# Usage: prog %s\n#\n" % " ".join("[%s]" % x for x in names)
        t0 = time.time()
        try:
            subprocess.run([C.VH, "docopt"], input=json.dumps(dict(file=f, args=["ca"])) + "\n", capture_output=True, text=True, timeout=20)
            secs = time.time() - t0
        except subprocess.TimeoutExpired:
            secs = 20.0
        ramps["optionals_%d" % n] = round(secs, 2)
        if secs > 2.0:
            if n >= 11:
                run.known("K16-exponential-usage-expansion", "")
            else:
                run.violation("usage with %d optional elements needs %.1fs to parse one argument" % (n, secs), dict(usage=f, secs=secs))
    run.coverage.update(evaluations=len(items) + len(docs) + len(ramps), distinct_nontrivial=len(nontrivial),
                        rule="mutated harmless scripts (token insertion, deletion, line duplication/removal, blow-up, re-indentation) x argument vectors; %d wrong-typed / boundary parameter values; non-UTF-8, empty and huge environment values; odd argument vectors; "
                             "mutated usage docs through docopt::parse in process; size ramps for loop length, task count and optional usage elements with the measured times; "
                             "non-trivial = distinct scripts that ended with a reported error (non-zero exit), i.e. exercised an error path without panicking" % len(BAD_PARAMS),
                        samples=[dict(kind=k, script=c["text"][:300]) for k, c in items[:2]], trusted_base=TB, outcome_distribution=dist,
                        ramps=ramps, exhaustive=False)
    run.assumptions = ["deadline %ds per script (120-300s for ramps)" % DEADLINE, "command/copy/file tasks are excluded from the mutation corpus so that a mutated path cannot touch the real system"]


PROPS = {"C13": c13}
