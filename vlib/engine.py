"""Engine family (C01, C02, C11, C17, ...): program AST -> YAML script + s-expression,
real `rash --output raw` runs, model runs (mirror flags / spec flags), comparison."""
import json, os, re, subprocess, shutil, threading
from . import common as C
from .common import hx, sx, parse_sx, unhx

MIRROR = ("t", "t", "t", "t")      # q_render_not_ignorable, q_item_leaks, q_include_discards, q_no_task_vars
SPEC = ("f", "f", "f", "f")


# ---------------------------------------------------------------- expressions / templates
def path_s(p):
    return ".".join(p)


def expr_j(e):
    k = e[0]
    if k == 'var':
        return path_s(e[1])
    if k == 'str':
        return "'%s'" % e[1]
    if k == 'bool':
        return "true" if e[1] else "false"
    if k == 'eq':
        return "(%s == %s)" % (expr_j(e[1]), expr_j(e[2]))
    if k == 'ne':
        return "(%s != %s)" % (expr_j(e[1]), expr_j(e[2]))
    if k == 'not':
        return "(not %s)" % expr_j(e[1])
    if k == 'and':
        return "(%s and %s)" % (expr_j(e[1]), expr_j(e[2]))
    if k == 'or':
        return "(%s or %s)" % (expr_j(e[1]), expr_j(e[2]))
    if k == 'def':
        return "(%s is defined)" % path_s(e[1])
    if k == 'ndef':
        return "(%s is not defined)" % path_s(e[1])
    raise ValueError(e)


def expr_sx(e):
    k = e[0]
    if k == 'var':
        return ['var'] + [hx(x) for x in e[1]]
    if k == 'str':
        return ['str', hx(e[1])]
    if k == 'bool':
        return ['bool', bool(e[1])]
    if k in ('eq', 'ne', 'and', 'or'):
        return [k, expr_sx(e[1]), expr_sx(e[2])]
    if k == 'not':
        return ['not', expr_sx(e[1])]
    if k in ('def', 'ndef'):
        return [k] + [hx(x) for x in e[1]]
    raise ValueError(e)


def tpl_j(t):
    out = ""
    for p in t:
        if p[0] == 'lit':
            out += p[1]
        elif p[0] == 'v':
            out += "{{ %s }}" % path_s(p[1])
        else:
            out += "{{ %s }}" % expr_j(p[1])
    return out


def tpl_sx(t):
    out = ['tpl']
    for p in t:
        if p[0] == 'lit':
            out.append(['lit', hx(p[1])])
        elif p[0] == 'v':
            out.append(['v'] + [hx(x) for x in p[1]])
        else:
            out.append(['e', expr_sx(p[1])])
    return out


def lit(s):
    return [('lit', s)]


# ---------------------------------------------------------------- tasks
def task(mod, when=None, loop=None, register=None, vars=None, ignore=None, changed_when=None, name=None, check_mode=None):
    return dict(mod=mod, when=when, loop=loop, register=register, vars=vars or [], ignore=ignore,
                changed_when=changed_when, name=name, check_mode=check_mode)


def q(s):
    return json.dumps(s)


# typed YAML literals of a set_vars value: ('list', n) ('map', n) ('none',) ('num', n) ('bool', b) ('str', s)
def lit_yaml(l):
    k = l[0]
    if k == 'list':
        return "[" + ", ".join("e%d" % i for i in range(l[1])) + "]"
    if k == 'map':
        return "{" + ", ".join("k%d: v" % i for i in range(l[1])) + "}"
    if k == 'none':
        return "~"
    if k == 'num':
        return str(l[1])
    if k == 'bool':
        return "true" if l[1] else "false"
    return q(l[1])


def lit_sx(l):
    k = l[0]
    if k in ('list', 'map', 'num'):
        return [k, l[1]]
    if k == 'none':
        return 'none'
    if k == 'bool':
        return ['bool', bool(l[1])]
    return ['str', hx(l[1])]


def task_yaml(t, root):
    m = t["mod"]
    L = []
    k = m[0]
    if k == 'debug':
        L += ["- debug:", "    msg: " + q(tpl_j(m[1]))]
    elif k == 'debugvar':
        L += ["- debug:", "    var: " + q(path_s(m[1]))]
    elif k == 'setvars':
        L += ["- set_vars:"] + ["    %s: %s" % (kk, q(tpl_j(v))) for kk, v in m[1]]
    elif k == 'setlit':
        L += ["- set_vars:", "    %s: %s" % (m[1], lit_yaml(m[2]))]
    elif k == 'assert':
        L += ["- assert:", "    that:"] + ["      - " + q(expr_j(e)) for e in m[1]]
    elif k == 'command' and m[3] >= 1000:
        # the command dies from a signal (m[3] - 1000): no exit code at all - a failure like any other
        cmd = "printf '%%s' '%s'; echo %s >> %s/log; kill -%d $$" % (m[2], m[1], root, m[3] - 1000)
        L += ["- command:", "    cmd: " + q(cmd)]
    elif k == 'command':
        cmd = "printf '%%s' '%s'; echo %s >> %s/log; exit %d" % (m[2], m[1], root, m[3])
        L += ["- command:", "    cmd: " + q(cmd)]
    elif k == 'copy':
        L += ["- copy:", "    content: " + q(m[1]), "    dest: " + q("%s/out/%s" % (root, m[1]))]
    elif k == 'include':
        if t.get("via_dir") is not None:
            # written relative to the INCLUDING file's own directory, through the builtin: works only if rash.dir is right
            L += ["- include: " + q("{{ rash.dir }}/" + t["via_dir"])]
        else:
            L += ["- include: " + q(m[1] if t.get("relative") else "%s/%s" % (root, m[1]))]
    elif k == 'badparam':
        L += ["- debug:", "    nosuchparam: 1"]
    else:
        raise ValueError(m)
    if t["name"] is not None:
        L.append("  name: " + q(tpl_j(t["name"])))
    if t.get("when_raw") is not None:
        # a YAML literal that is not a string (a number, a list): the model gets the equivalent condition in t["when"]
        L.append("  when: " + t["when_raw"])
    elif t["when"] is not None:
        L.append("  when: " + q(expr_j(t["when"])))
    if t.get("loop_raw") is not None:
        # the loop given as ONE template (a variable holding a list, a range ...): the model gets the equivalent literal items
        L.append("  loop: " + t["loop_raw"])
    elif t["loop"] is not None:
        L.append("  loop:")
        L += ["    - " + q(tpl_j(i)) for i in t["loop"]]
    if t["register"] is not None:
        L.append("  register: " + t["register"])
    if t["vars"]:
        L.append("  vars:")
        L += ["    %s: %s" % (kk, q(tpl_j(v))) for kk, v in t["vars"]]
    if t["ignore"] is not None:
        L.append("  ignore_errors: " + ("true" if t["ignore"] else "false"))
    if t["changed_when"] is not None:
        L.append("  changed_when: " + q(expr_j(t["changed_when"])))
    if t.get("become"):
        L.append("  become: true")
        L.append("  become_user: nobody")
    if t["check_mode"] is not None:
        L.append("  check_mode: " + ("true" if t["check_mode"] else "false"))
    return "\n".join(L) + "\n"


def task_sx(t):
    m = t["mod"]
    k = m[0]
    if k == 'debug':
        ms = ['debug', tpl_sx(m[1])]
    elif k == 'debugvar':
        ms = ['debugvar'] + [hx(x) for x in m[1]]
    elif k == 'setvars':
        ms = ['setvars'] + [[hx(kk), tpl_sx(v)] for kk, v in m[1]]
    elif k == 'setlit':
        ms = ['setlit', hx(m[1]), lit_sx(m[2])]
    elif k == 'assert':
        ms = ['assert'] + [expr_sx(e) for e in m[1]]
    elif k == 'command':
        ms = ['command', hx(m[1]), hx(m[2]), m[3]]
    elif k == 'copy':
        ms = ['copy', hx(m[1])]
    elif k == 'include':
        ms = ['include', hx(m[1])]
    else:
        ms = 'badparam'
    return ['task',
            'none' if t["when"] is None else expr_sx(t["when"]),
            'none' if t["loop"] is None else ['items'] + [tpl_sx(i) for i in t["loop"]],
            'none' if t["register"] is None else hx(t["register"]),
            ['vars'] + [[hx(kk), tpl_sx(v)] for kk, v in t["vars"]],
            bool(t["ignore"]),
            'none' if t["changed_when"] is None else expr_sx(t["changed_when"]),
            ms]


INVALID_TEXT = {
    "unknown_key": "- debug:\n    msg: never\n  nosuchkeyword: 1\n",
    "no_module": "- name: nothing\n  when: true\n",
    "two_modules": "- debug:\n    msg: never\n  command: \"true\"\n",
    "non_mapping": "- just a string\n",
    # keys that are not strings, and names of internal fields of the Task struct (K27)
    "int_key": "- debug:\n    msg: never\n  7: x\n",
    "bool_key": "- debug:\n    msg: never\n  true: x\n",
    "null_key": "- debug:\n    msg: never\n  ~: x\n",
    "float_key": "- debug:\n    msg: never\n  1.5: x\n",
    "seq_key": "- debug:\n    msg: never\n  ? [a, b]\n  : x\n",
    "internal_module": "- debug:\n    msg: never\n  module: z\n",
    "internal_params": "- debug:\n    msg: never\n  params: y\n",
    "internal_global_params": "- debug:\n    msg: never\n  global_params: x\n",
    # near-miss spellings of real task keywords: a dash for the underscore, another case, a plural, a blank
    "dash_ignore_errors": "- debug:\n    msg: never\n  ignore-errors: true\n",
    "dash_changed_when": "- debug:\n    msg: never\n  changed-when: false\n",
    "dash_check_mode": "- debug:\n    msg: never\n  check-mode: true\n",
    "dash_become_user": "- debug:\n    msg: never\n  become-user: root\n",
    "case_when": "- debug:\n    msg: never\n  When: true\n",
    "case_ignore_errors": "- debug:\n    msg: never\n  IGNORE_ERRORS: true\n",
    "plural_loops": "- debug:\n    msg: never\n  loops: [1]\n",
    "singular_var": "- debug:\n    msg: never\n  var: {a: 1}\n",
    "joined_ignoreerrors": "- debug:\n    msg: never\n  ignoreerrors: true\n",
    "blank_when": "- debug:\n    msg: never\n  \"when \": true\n",
    "dotted_rash_dir": "- debug:\n    msg: never\n  rash.dir: x\n",
    # values of task keywords that cannot be read (K53, K54: they used to be dropped - the task ran unconditionally / for real)
    "when_list_with_null": "- command: \"sh -c 'echo kbad >> ROOT/log'\"\n  when: [false, ~]\n",
    "when_mapping": "- command: \"sh -c 'echo kbad >> ROOT/log'\"\n  when: {a: b}\n",
    "when_nested_list": "- command: \"sh -c 'echo kbad >> ROOT/log'\"\n  when: [[false]]\n",
    "changed_when_list_with_null": "- command: \"sh -c 'echo kbad >> ROOT/log'\"\n  changed_when: [true, ~]\n",
    "check_mode_yes": "- copy:\n    content: x\n    dest: ROOT/out/bad\n  check_mode: yes\n",
    "check_mode_quoted_true": "- copy:\n    content: x\n    dest: ROOT/out/bad\n  check_mode: \"true\"\n",
    "check_mode_number": "- copy:\n    content: x\n    dest: ROOT/out/bad\n  check_mode: 1\n",
    "sequence_task": "- [debug, x]\n",
    "null_task": "- ~\n",
}


def file_text(f, root):
    """f: dict(tasks=[...]) or dict(tasks=[...], invalid=(position, kind)) or dict(raw=text)"""
    if "raw" in f:
        return f["raw"].replace("ROOT", root)
    parts = [task_yaml(t, root) for t in f["tasks"]]
    if f.get("invalid"):
        pos, kind = f["invalid"]
        parts.insert(pos, INVALID_TEXT[kind])
    return "#!/usr/bin/env rash\n" + "".join(parts) if parts else "#!/usr/bin/env rash\n[]\n"


def files_sx(files):
    out = ['files']
    for name, f in files.items():
        if "raw" in f or f.get("invalid"):
            out.append([hx(name), 'invalid'])
        else:
            out.append([hx(name), ['tasks'] + [task_sx(t) for t in f["tasks"]]])
    return out


def engine_sx(flags, root, files, script, docopt='accept', fuel=33):
    return sx(['engine', ['q'] + list(flags), hx(root), files_sx(files), hx(script), ['vars'], docopt, fuel])


# ---------------------------------------------------------------- running
def parse_events(out):
    e = parse_sx(out)
    evs = []
    for x in e[0][1:]:
        if x == 'any':
            evs.append(('any',))
        elif x[0] == 'out':
            evs.append(('out', unhx(x[1]).decode('utf-8', 'replace')))
        else:
            evs.append(('eff', unhx(x[1]).decode()))
    return evs, e[1] == 't'


def run_models(cases, flags):
    """cases: list of dict(files=..., script=..., docopt=...) with root placeholder 'ROOT'"""
    lines = [engine_sx(flags, "ROOT", c["files"], c.get("script", "main.rh"), c.get("docopt", "accept"), c.get("fuel", 33)) for c in cases]
    return [parse_events(o) for o in C.run_oracle(lines)]


def run_one_impl(root, c, timeout):
    shutil.rmtree(root, ignore_errors=True)
    os.makedirs(os.path.join(root, "out"))
    for name, f in c["files"].items():
        p = os.path.join(root, name)
        os.makedirs(os.path.dirname(p), exist_ok=True)
        if f.get("symlink"):
            # the script is reached through a symbolic link: its text lives elsewhere, its identity is the link's path
            real = os.path.join(root, "real", name.replace("/", "__"))
            os.makedirs(os.path.dirname(real), exist_ok=True)
            with open(real, "w") as fh:
                fh.write(file_text(f, root))
            os.symlink(real, p)
            continue
        with open(p, "w") as fh:
            fh.write(file_text(f, root))
    os.chmod(root, 0o755)
    if c.get("world_writable"):
        # an unprivileged become target must be able to append to the marker log and create files
        os.chmod(root, 0o777)
        os.chmod(os.path.join(root, "out"), 0o777)
        open(os.path.join(root, "log"), "w").close()
        os.chmod(os.path.join(root, "log"), 0o666)
        for name in c["files"]:
            os.chmod(os.path.join(root, name), 0o644)
    cmd = [C.RASH] + c.get("rash_args", []) + ["--output", "raw", os.path.join(root, c.get("script", "main.rh"))] + c.get("argv", [])
    if c.get("inline"):
        # the same script given on the command line (-s / --script); the file name only names it
        text = open(os.path.join(root, c.get("script", "main.rh"))).read()
        os.rename(os.path.join(root, c.get("script", "main.rh")), os.path.join(root, "moved-away"))
        cmd = [C.RASH] + c.get("rash_args", []) + ["--output", "raw", c["inline"], text, os.path.join(root, c.get("script", "main.rh"))] + c.get("argv", [])
    env = dict(os.environ)
    env.update(c.get("env", {}))
    try:
        p = subprocess.run(cmd, capture_output=True, timeout=timeout, env=env, cwd=root, start_new_session=True)
        rc, so, se = p.returncode, p.stdout.decode('utf-8', 'replace'), p.stderr.decode('utf-8', 'replace')
    except subprocess.TimeoutExpired:
        rc, so, se = "timeout", "", ""
    try:
        log = open(os.path.join(root, "log")).read().split()
    except FileNotFoundError:
        log = []
    outs = sorted(os.listdir(os.path.join(root, "out")))
    return dict(rc=rc, stdout=so.replace(root, "ROOT"), stderr=se.replace(root, "ROOT")[-400:], log=log, out=outs)


def run_impls(cases, timeout=10):
    res = [None] * len(cases)
    parts = C.shard(list(enumerate(cases)), C.NPROC)

    def work(si):
        root = os.path.join(C.SANDBOX, "e%d" % si)
        for idx, c in parts[si]:
            res[idx] = run_one_impl(root, c, timeout)
    ths = [threading.Thread(target=work, args=(i,)) for i in range(len(parts))]
    [t.start() for t in ths]
    [t.join() for t in ths]
    return res


# ---------------------------------------------------------------- comparison
def expected_regex(evs):
    rx = ""
    for e in evs:
        if e[0] == 'out':
            rx += re.escape(e[1]) + "\n"
        elif e[0] == 'any':
            rx += "[^\n]*\n"
    return rx


def effects_of(evs):
    cmds = [e[1] for e in evs if e[0] == 'eff' and not e[1].startswith("c")]
    copies = sorted(e[1] for e in evs if e[0] == 'eff' and e[1].startswith("c"))
    return cmds, copies


def differs(model, impl):
    """model = (events, ok); impl = observation dict. None if they agree on the property's
    observables (ordered stdout records, ordered command effects, created files, exit status)"""
    evs, ok = model
    if impl["rc"] == "timeout":
        return "implementation timed out"
    if ok != (impl["rc"] == 0):
        return "exit status: model %s, implementation rc=%s (stderr: %s)" % ("0" if ok else "non-zero", impl["rc"], impl["stderr"][-160:])
    if not re.fullmatch(expected_regex(evs), impl["stdout"], re.S):
        return "stdout: model expects %r, implementation printed %r" % (expected_regex(evs), impl["stdout"])
    cmds, copies = effects_of(evs)
    if cmds != impl["log"]:
        return "effects: model %r, implementation %r" % (cmds, impl["log"])
    if copies != impl["out"]:
        return "created files: model %r, implementation %r" % (copies, impl["out"])
    return None
