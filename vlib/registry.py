from . import p_state, p_docopt, p_engine, p_find, p_verbatim, p_exec, p_robust
PROPS = {}
PROPS.update(p_state.PROPS)
PROPS.update(p_docopt.PROPS)
PROPS.update(p_engine.PROPS)
PROPS.update(p_find.PROPS)
PROPS.update(p_verbatim.PROPS)
PROPS.update(p_exec.PROPS)
PROPS.update(p_robust.PROPS)
