from . import p_state, p_docopt
PROPS = {}
PROPS.update(p_state.PROPS)
PROPS.update(p_docopt.PROPS)
