from . import p_state
PROPS = {}
PROPS.update(p_state.PROPS)
