"""Shared machinery of the rash verification driver: builds, proof stage, oracle and
harness runners, evidence, known findings, verdicts."""
import json, os, re, subprocess, sys, time, hashlib, shutil, random

VERIF = os.path.dirname(os.path.dirname(os.path.abspath(__file__)))
REPO = os.environ.get("VERIF_REPO", "/repo")
BUILD = os.environ.get("VERIF_BUILD_DIR", os.path.join(VERIF, ".build"))
COQ = os.path.join(VERIF, "coq")
TARGET = os.path.join(BUILD, "target")
VH = os.path.join(TARGET, "debug", "vh")
RASH = os.path.join(TARGET, "debug", "rash")
ORACLE = os.path.join(BUILD, "ocaml", "oracle")
SANDBOX = os.path.join(BUILD, "sandbox")
NPROC = min(16, os.cpu_count() or 4)
ENV = dict(os.environ, CARGO_NET_OFFLINE="true", CARGO_TARGET_DIR=TARGET)
FORBIDDEN = r"Admitted|\badmit\b|\bAxiom\b|\bParameter\b|\bConjecture\b|Unset Guard|bypass_check|type-in-type|impredicative-set|Admit Obligations|\bHypothesis\b.*\n(?!.*Section)"
ALLOWED_AXIOMS = set()  # the development is expected to be closed under the global context


class BrokenTie(Exception):
    """proof / build / correspondence machinery failed (not by itself a property violation)"""


def sh(cmd, timeout, cwd=None, env=None, inp=None):
    p = subprocess.run(cmd, shell=isinstance(cmd, str), cwd=cwd, env=env or ENV, input=inp,
                       capture_output=True, text=True, timeout=timeout)
    return p.returncode, p.stdout, p.stderr


# ------------------------------------------------------------------ builds
def coq_sources():
    out = []
    for line in open(os.path.join(COQ, "_CoqProject")):
        line = line.strip()
        if line.endswith(".v"):
            out.append(line)
    return out


def build_coq(targets=None, timeout=1500):
    """full .vo build (no -vos) of the given targets (default: everything)"""
    if not os.path.exists(os.path.join(COQ, "Makefile")) or \
            os.path.getmtime(os.path.join(COQ, "Makefile")) < os.path.getmtime(os.path.join(COQ, "_CoqProject")):
        rc, o, e = sh("coq_makefile -f _CoqProject -o Makefile", 120, cwd=COQ)
        if rc != 0:
            raise BrokenTie("coq_makefile failed: " + e[-2000:])
    os.makedirs(os.path.join(COQ, "extracted"), exist_ok=True)
    tgt = " ".join(targets) if targets else ""
    rc, o, e = sh("timeout %d make -j%d %s" % (timeout, NPROC, tgt), timeout + 30, cwd=COQ)
    if rc != 0:
        raise BrokenTie("coq build failed:\n" + (o + e)[-4000:])
    return "make -j%d %s (in %s)" % (NPROC, tgt, COQ)


def build_oracle():
    build_coq(["theories/Extract.vo"])
    src = os.path.join(COQ, "extracted", "oracle.ml")
    d = os.path.join(BUILD, "ocaml")
    os.makedirs(d, exist_ok=True)
    stamp = os.path.join(d, "stamp")
    h = hashlib.sha256(open(src, "rb").read() + open(os.path.join(VERIF, "ocaml", "main.ml"), "rb").read()).hexdigest()
    if os.path.exists(stamp) and open(stamp).read() == h and os.path.exists(ORACLE):
        return
    for f in ("oracle.ml", "oracle.mli"):
        shutil.copy(os.path.join(COQ, "extracted", f), d)
    shutil.copy(os.path.join(VERIF, "ocaml", "main.ml"), d)
    rc, o, e = sh("ocamlfind ocamlopt -w -a -O3 oracle.mli oracle.ml main.ml -o oracle", 600, cwd=d)
    if rc != 0:
        raise BrokenTie("oracle build failed: " + e[-3000:])
    open(stamp, "w").write(h)


def build_harness(timeout=1500):
    """rebuild the harness + the rash binary from /repo's current working tree (hooks on)"""
    hd = os.path.join(VERIF, "harness")
    env = dict(ENV)
    env["RUSTFLAGS"] = (env.get("RUSTFLAGS", "") + " --cfg rash_verif").strip()
    rc, o, e = sh("timeout %d cargo build --offline" % timeout, timeout + 30, cwd=hd, env=env)
    if rc != 0:
        raise BrokenTie("cargo build of /repo + harness failed:\n" + e[-4000:])


# ------------------------------------------------------------------ proof stage
def prop_theorems(pid):
    f = os.path.join(COQ, "theories", "Props", pid + ".v")
    txt = open(f).read()
    return re.findall(r"^Theorem\s+(\w+)", txt, re.M)


def grep_forbidden():
    bad = []
    for rel in coq_sources():
        txt = open(os.path.join(COQ, rel)).read()
        txt_nc = re.sub(r"\(\*.*?\*\)", "", txt, flags=re.S)
        for m in re.finditer(r"Admitted|\badmit\b|\bAxiom\b|\bAxioms\b|\bParameter\b|\bParameters\b|\bConjecture\b|Unset Guard|bypass_check|type-in-type|impredicative-set|Admit Obligations|Unset Positivity|Unset Universe", txt_nc):
            bad.append("%s: %s" % (rel, m.group(0)))
    return bad


def proof_stage(pid, tier):
    """returns dict(obligations, discharged, checker_cmd, axioms, theorems); raises BrokenTie"""
    cmd = build_coq(["theories/Props/%s.vo" % pid])
    thms = prop_theorems(pid)
    if not thms:
        raise BrokenTie("no pinned theorem in Props/%s.v" % pid)
    bad = grep_forbidden()
    if bad:
        raise BrokenTie("forbidden vernacular: " + "; ".join(bad))
    d = os.path.join(BUILD, "assum")
    os.makedirs(d, exist_ok=True)
    f = os.path.join(d, "A_%s.v" % pid)
    with open(f, "w") as fh:
        fh.write("From RashV.Props Require Import %s.\n" % pid)
        for t in thms:
            fh.write('Goal True. idtac "@@%s". Abort.\nPrint Assumptions %s.\n' % (t, t))
    rc, o, e = sh("timeout 300 coqc -noglob -Q %s/theories RashV %s" % (COQ, f), 330, cwd=d)
    if rc != 0:
        raise BrokenTie("Print Assumptions run failed: " + (o + e)[-2000:])
    axioms = {}
    cur = None
    for line in o.splitlines():
        if line.startswith("@@"):
            cur = line[2:].strip()
            axioms[cur] = []
        elif cur and line.strip() and not line.startswith("Closed under") and not line.startswith("Axioms:"):
            m = re.match(r"^(\S+)\s*:", line)
            if m:
                axioms[cur].append(m.group(1))
    discharged = 0
    for t in thms:
        if t in axioms and set(axioms[t]) <= ALLOWED_AXIOMS:
            discharged += 1
    if discharged != len(thms):
        raise BrokenTie("theorems with unexpected assumptions: %r" % {t: a for t, a in axioms.items() if a})
    res = dict(obligations=len(thms), discharged=discharged, checker_cmd=cmd, theorems=thms,
               axioms=sorted({a for l in axioms.values() for a in l}))
    if tier == "thorough":
        rc, o, e = sh("timeout 1500 coqchk -silent -o -Q theories RashV RashV.Props.%s" % pid, 1530, cwd=COQ)
        res["coqchk"] = "ok" if rc == 0 else "failed"
        res["coqchk_axioms"] = re.findall(r"^\s+(\S+)\s*$", o.split("Axioms:")[-1], re.M) if "Axioms:" in o else []
        if rc != 0:
            raise BrokenTie("coqchk failed: " + (o + e)[-2000:])
        res["checker_cmd"] += " ; coqchk -silent -o -Q theories RashV RashV.Props.%s" % pid
    return res


# ------------------------------------------------------------------ runners
def shard(items, n):
    k = max(1, (len(items) + n - 1) // n)
    return [items[i:i + k] for i in range(0, len(items), k)]


def _big_stack():
    # extracted list functions are not tail recursive; patterns such as (<x> | <y>)... have 2^n bindings
    import resource
    try:
        resource.setrlimit(resource.RLIMIT_STACK, (resource.RLIM_INFINITY, resource.RLIM_INFINITY))
    except Exception:
        try:
            soft, hard = resource.getrlimit(resource.RLIMIT_STACK)
            resource.setrlimit(resource.RLIMIT_STACK, (hard, hard))
        except Exception:
            pass


ORACLE_SAMPLES = []      # (input line, extracted oracle's answer): re-evaluated inside Coq by crosscheck_extraction


def crosscheck_extraction(n):
    """the extracted OCaml oracle and Coq's own vm_compute must agree on a sample of this run's cases:
    validates extraction + ocaml/main.ml, which are otherwise trusted. Returns the number checked."""
    rng = random.Random(len(ORACLE_SAMPLES))
    cand = [x for x in ORACLE_SAMPLES if len(x[0]) < 6000 and len(x[1]) < 6000 and '"' not in x[0] and '"' not in x[1]]
    if not cand:
        return 0
    pick = rng.sample(cand, min(n, len(cand)))
    d = os.path.join(BUILD, "cross")
    os.makedirs(d, exist_ok=True)
    f = os.path.join(d, "Cross.v")
    with open(f, "w") as fh:
        fh.write("From Coq Require Import String.\nFrom RashV Require Import Oracle.\nOpen Scope string_scope.\n")
        for i, (a, b) in enumerate(pick):
            fh.write('Example x%d : run_line "%s" = "%s". Proof. vm_compute. reflexivity. Qed.\n' % (i, a, b))
    build_coq(["theories/Oracle.vo"])
    rc, o, e = sh("timeout 600 coqc -noglob -Q %s/theories RashV %s" % (COQ, f), 630, cwd=d)
    if rc != 0:
        raise BrokenTie("extraction cross-check: the OCaml oracle and Coq's vm_compute disagree (or the check failed): " + (o + e)[-1500:])
    return len(pick)


def run_oracle(lines, timeout=900):
    """lines: list of s-expression strings -> list of result strings (same order)"""
    if not lines:
        return []
    parts = shard(lines, NPROC)
    procs = []
    for p in parts:
        pr = subprocess.Popen([ORACLE], stdin=subprocess.PIPE, stdout=subprocess.PIPE, stderr=subprocess.PIPE, text=True,
                              preexec_fn=_big_stack)
        procs.append((pr, p))
    # feed concurrently via threads to avoid pipe deadlocks
    import threading
    outs = [None] * len(procs)

    def work(i):
        pr, p = procs[i]
        try:
            o, e = pr.communicate("\n".join(p) + "\n", timeout=timeout)
            outs[i] = o.splitlines()
        except subprocess.TimeoutExpired:
            pr.kill()
            outs[i] = None
    ths = [threading.Thread(target=work, args=(i,)) for i in range(len(procs))]
    [t.start() for t in ths]
    [t.join() for t in ths]
    res = []
    for i, (pr, p) in enumerate(procs):
        if outs[i] is None or len(outs[i]) != len(p):
            raise BrokenTie("oracle shard failed (%s results for %d cases)" % (None if outs[i] is None else len(outs[i]), len(p)))
        res.extend(outs[i])
    # keep a small reservoir of (case, answer) pairs for the in-Coq cross-check
    step = max(1, len(lines) // 40)
    for i in range(0, len(lines), step):
        if len(ORACLE_SAMPLES) < 400:
            ORACLE_SAMPLES.append((lines[i], res[i]))
    return res


def run_harness(mode, cases, per_case_timeout=10, prepare=None):
    """cases: list of json-able dicts -> list of dicts. Each shard runs in its own process;
    a shard that dies/hangs is re-run case by case so the culprit gets {"crash": ...}"""
    if not cases:
        return []
    parts = shard(list(enumerate(cases)), NPROC)
    import threading
    results = [None] * len(cases)

    def run_batch(batch, shard_id):
        inp = ""
        for idx, c in batch:
            c = dict(c)
            if prepare:
                prepare(c, shard_id)
            inp += json.dumps(c) + "\n"
        try:
            p = subprocess.run([VH, mode], input=inp, capture_output=True, text=True,
                               timeout=min(per_case_timeout * len(batch) + 20, 6 * 3600), env=ENV)
            lines = p.stdout.splitlines()
            if len(lines) == len(batch):
                for (idx, _), l in zip(batch, lines):
                    results[idx] = json.loads(l)
                return True
            return False
        except subprocess.TimeoutExpired:
            return False

    def work(i):
        if run_batch(parts[i], i):
            return
        for item in parts[i]:
            if not run_batch([item], i):
                results[item[0]] = {"crash": True}
    ths = [threading.Thread(target=work, args=(i,)) for i in range(len(parts))]
    [t.start() for t in ths]
    [t.join() for t in ths]
    return results


def probe(umask=0o022):
    old = os.umask(umask)
    try:
        rc, o, e = sh([VH, "probe"], 30)
    finally:
        os.umask(old)
    return json.loads(o)


# ------------------------------------------------------------------ s-expression helpers
def hx(b):
    if isinstance(b, str):
        b = b.encode("utf-8", "surrogateescape")
    return "x" + b.hex()


def unhx(a):
    assert a.startswith("x"), a
    return bytes.fromhex(a[1:])


def sx(x):
    if isinstance(x, (list, tuple)):
        return "(" + " ".join(sx(y) for y in x) + ")"
    if isinstance(x, bool):
        return "t" if x else "f"
    return str(x)


def parse_sx(s):
    toks = re.findall(r"\(|\)|[^\s()]+", s)
    pos = 0

    def rd():
        nonlocal pos
        t = toks[pos]
        pos += 1
        if t == "(":
            l = []
            while toks[pos] != ")":
                l.append(rd())
            pos += 1
            return l
        return t
    return rd()


# ------------------------------------------------------------------ known findings / verdict / evidence
def known_findings(pid):
    f = os.path.join(VERIF, "known_findings.json")
    if not os.path.exists(f):
        return []
    return [k for k in json.load(open(f))["findings"] if pid in k["properties"] and k["status"] == "known"]


class Run:
    def __init__(self, pid, tier, seed):
        self.pid, self.tier, self.seed = pid, tier, seed
        self.t0 = time.time()
        self.violations = []       # (what, replay-dict)
        self.known_hits = {}       # class id -> count
        self.coverage = {}
        self.assumptions = []
        import glob
        for f in glob.glob(os.path.join(VERIF, "replays", pid + "-*.json")):
            os.remove(f)
        self.rng = random.Random(seed * 1000003 + int(hashlib.sha256(pid.encode()).hexdigest()[:8], 16))

    def known(self, kid, what):
        self.known_hits.setdefault(kid, [0, what])[0] += 1

    def violation(self, what, replay, no_input=False):
        self.violations.append((what, replay, no_input))

    def finish(self, level="proof"):
        wall = time.time() - self.t0
        os.makedirs(os.path.join(VERIF, "evidence"), exist_ok=True)
        os.makedirs(os.path.join(VERIF, "replays"), exist_ok=True)
        cov = dict(self.coverage)
        cov["known_findings_hit"] = {k: v[0] for k, v in self.known_hits.items()}
        ev = dict(property_id=self.pid, tier=self.tier, seed=self.seed, level=level, coverage=cov,
                  assumptions=self.assumptions, wall_s=round(wall, 2), violations=len(self.violations))
        with open(os.path.join(VERIF, "evidence", self.pid + ".json"), "w") as fh:
            json.dump(ev, fh, indent=1, sort_keys=True)
        listed = {k["id"]: k for k in known_findings(self.pid)}
        for kid, (n, what) in sorted(self.known_hits.items()):
            if kid in listed:
                print("KNOWN-FINDING: property=%s %s: %s (%d case(s) this run)" % (self.pid, kid, listed[kid]["what"], n))
            else:
                self.violations.append(("unlisted-class: %d case(s) were attributed to class %s which known_findings.json does not list for %s" % (n, kid, self.pid),
                                        dict(klass=kid), True))
        rc = 0
        # one VIOLATION line per distinct kind (first replay of each), real failing inputs first
        seen = set()
        for i, (what, replay, no_input) in enumerate(sorted(self.violations, key=lambda v: v[2])):
            key = what.split(":")[0]
            if key in seen:
                continue
            seen.add(key)
            path = os.path.join(VERIF, "replays", "%s-%d.json" % (self.pid, len(seen)))
            with open(path, "w") as fh:
                json.dump(dict(property=self.pid, what=what, seed=self.seed, tier=self.tier, replay=replay), fh, indent=1)
            print("VIOLATION property=%s replay=%s%s" % (self.pid, path, " no-failing-input-found" if no_input else ""))
            print("  " + what[:400])
            rc = 1
        print("%s %s: %s in %.1fs (evaluations=%s)" % (self.pid, self.tier, "FAIL" if rc else "ok", wall, cov.get("evaluations")))
        return rc
