"""C12: values reach string parameters verbatim (single-pass rendering, no injection)."""
import json, os, subprocess, threading, shutil
from . import common as C
from .common import hx, sx, parse_sx

TB = [
    "Coq 8.16.1 kernel; no axioms",
    "Tpl.v: the two pipelines of jinja::_render and set_vars' second render over an ABSTRACT evaluator (Section variables) with three stated laws: text without opening delimiters renders to itself; `{{ x }}` renders to the string x holds; a conservative plain-scalar predicate implies serde_yaml reads the text back as that string. minijinja 2.9 and serde_yaml 0.9 are oracles: the laws are what this run validates",
    "Omit.v: mirror of jinja::render_map (entries rendered in order, each visible to the later ones, an entry that yields the placeholder skipped); how one string renders is its oracle, instantiated for the correspondence with text / reference / omit / default(omit)",
    "python string generator, one rash run per probe (real binary, --output raw), byte-exact comparison of the file written by copy and of the argv received by a helper process",
]

PIECES = ["a", "Z9", " ", "  ", "\n", "'", '"', "\\", "{{ 1 + 1 }}", "{% if x %}", "{# c #}", "{{", "}}", ": ", "- ", " #", "#", "[a]", "{a: b}", "&a", "*a",
          "!t", "|", ">", "%", "@", "$HOME", ";", "&&", "`id`", "$(id)", "007", "1e3", "7", "true", "null", "~", "é✓", "k: v", "-", "x=y", "\t", '["a", "b"]', '"s"', "{}", "[]"]
FIXED = ["OMIT_THIS_VARIABLE", "__omit_place_holder__", "omit", "{{ omit }}x", '["-rf", "/"]', "[]", '["x"]', '{"a": 1}', '"quoted"', "", " ", "\n", "hello", "hello\n", " lead", "trail ", "007", "true", "null", "~", "k: v", "{{ 1 + 1 }}", "[1, 2]", "{a: b}", "a: b: c",
         "- x", "# c", "'q'", '"dq"', "$(id)", "`id`", "a;b && c", "é✓", "1e3", "0x1F", "no", "line1\nline2", "tab\there", "--", "-n", "*", "?", "a  b"]


def gen_strings(rng, n):
    out = list(FIXED)
    while len(out) < n:
        k = rng.randint(1, 4)
        out.append("".join(rng.choice(PIECES) for _ in range(k)))
    return out[:n]


# *_map / *_list: the value sits inside a mapping or a list nested in the loop item / vars / set_vars value
# shadow: the variable carrying the value has the NAME of an earlier parameter of the same task (mode / chdir): the user's variable must win
# suffix: the templated text ENDS in a file extension (.html, .json, .yml ...): no escaping may be switched on by it
# loop_tpl: the loop is given as ONE template that evaluates to a list
CHANNELS = ["direct", "loop", "vars", "set_vars", "register", "loop_map", "loop_list", "vars_map", "set_vars_map", "shadow", "suffix", "loop_tpl"]
EXTS = [".html", ".htm", ".xml", ".json", ".json5", ".js", ".yaml", ".yml", ".j2", ".html.j2", ".txt"]


def ext_of(v):
    return EXTS[sum(v.encode()) % len(EXTS)]


def script(channel, root, v=""):
    helper = C.VH
    src = "{{ env.VP }}"
    pre = ""
    use = src
    extra = ""
    if channel == "loop":
        use = "{{ item }}"
        extra = "  loop:\n    - \"%s\"\n" % src
    elif channel == "vars":
        use = "{{ x }}"
        extra = "  vars:\n    x: \"%s\"\n" % src
    elif channel == "set_vars":
        pre = "- set_vars:\n    x: \"%s\"\n" % src
        use = "{{ x }}"
    elif channel == "loop_tpl":
        use = "{{ item }}"
        extra = "  loop: \"{{ [env.VP] }}\"\n"
    elif channel == "loop_map":
        use = "{{ item.text }}"
        extra = "  loop:\n    - {text: \"%s\", n: 1}\n" % src
    elif channel == "loop_list":
        use = "{{ item[0] }}"
        extra = "  loop:\n    - [\"%s\", second]\n" % src
    elif channel == "vars_map":
        use = "{{ m.inner.text }}"
        extra = "  vars:\n    m:\n      inner: {text: \"%s\"}\n" % src
    elif channel == "set_vars_map":
        pre = "- set_vars:\n    m:\n      inner: {text: \"%s\"}\n" % src
        use = "{{ m.inner.text }}"
    elif channel == "register":
        pre = "- command:\n    argv: [sh, -c, 'printf %s \"$VP\"']\n  register: r\n"
        use = "{{ r.output }}"
    if channel == "suffix":
        e = ext_of(v)
        s = "#!/usr/bin/env rash\n"
        s += "- copy:\n    content: \"{{ env.VP }}%s\"\n    dest: \"%s/out/file\"\n" % (e, root)
        s += "- command:\n    argv: [\"%s\", argvdump, \"%s/out/argv\", \"{{ env.VP }}%s\", \"second arg\"]\n" % (helper, root, e)
        return s
    if channel == "shadow":
        s = "#!/usr/bin/env rash\n"
        s += "- copy:\n    mode: \"0644\"\n    dest: \"%s/out/file\"\n    content: \"{{ mode }}\"\n  vars:\n    mode: \"%s\"\n" % (root, src)
        s += ("- command:\n    chdir: \"%s/out\"\n    argv: [\"%s\", argvdump, \"%s/out/argv\", \"{{ chdir }}\", \"second arg\"]\n  vars:\n    chdir: \"%s\"\n"
              % (root, helper, root, src))
        return s
    s = "#!/usr/bin/env rash\n" + pre
    s += "- copy:\n    content: \"%s\"\n    dest: \"%s/out/file\"\n%s" % (use, root, extra)
    s += "- command:\n    argv: [\"%s\", argvdump, \"%s/out/argv\", \"%s\", \"second arg\"]\n%s" % (helper, root, use, extra)
    return s


def run_probe(root, v, channel, timeout=10):
    shutil.rmtree(root, ignore_errors=True)
    os.makedirs(os.path.join(root, "out"))
    with open(os.path.join(root, "main.rh"), "w") as fh:
        fh.write(script(channel, root, v))
    env = dict(os.environ, VP=v)
    try:
        p = subprocess.run([C.RASH, "--output", "raw", os.path.join(root, "main.rh")], capture_output=True, timeout=timeout, env=env, cwd=root, start_new_session=True)
        rc = p.returncode
        err = p.stderr.decode("utf-8", "replace")[-300:]
    except subprocess.TimeoutExpired:
        rc, err = "timeout", ""
    try:
        fb = open(os.path.join(root, "out", "file"), "rb").read()
    except FileNotFoundError:
        fb = None
    try:
        lines = open(os.path.join(root, "out", "argv")).read().split("\n")
        n = int(lines[0])
        argv = [bytes.fromhex(x) for x in lines[1:1 + n]]
    except Exception:
        argv = None
    return dict(rc=rc, file=fb, argv=argv, stderr=err)


def c12(run, replay=None):
    rng = run.rng
    n = 400 if run.tier == "quick" else 10000
    strs = gen_strings(rng, n)
    probes = [(v, ch) for v in strs for ch in CHANNELS if not (ch == "register" and v == "")]
    # class predicates from Coq
    cls = {}
    outs = C.run_oracle([sx(["plain", hx(v)]) for v in strs])
    for v, o in zip(strs, outs):
        e = parse_sx(o)
        cls[v] = dict(plain=e[0] == "t", has_open=e[1] == "t", retyped=e[2] == "t")
    res = [None] * len(probes)
    parts = C.shard(list(enumerate(probes)), C.NPROC)

    def work(si):
        root = os.path.join(C.SANDBOX, "v%d" % si)
        for idx, (v, ch) in parts[si]:
            res[idx] = run_probe(root, v, ch)
    ths = [threading.Thread(target=work, args=(i,)) for i in range(len(parts))]
    [t.start() for t in ths]
    [t.join() for t in ths]
    nontrivial = set()
    dist = {}
    for (v, ch), o in zip(probes, res):
        want = v.encode() + (ext_of(v).encode() if ch == "suffix" else b"")
        ok = o["rc"] == 0 and o["file"] == want and o["argv"] == [want, b"second arg"]
        special = not cls[v]["plain"]
        if special:
            nontrivial.add((v, ch))
        key = "%s:%s" % (ch, "ok" if ok else "deviates")
        dist[key] = dist.get(key, 0) + 1
        if ok:
            continue
        desc = dict(value=v, channel=ch, observed=dict(rc=o["rc"], file=None if o["file"] is None else o["file"].decode("utf-8", "replace"),
                                                       argv=None if o["argv"] is None else [a.decode("utf-8", "replace") for a in o["argv"]], stderr=o["stderr"]))
        if ch == "loop_tpl" and cls[v]["has_open"]:
            run.known("K42-template-loop-renders-items-again", "")
            continue
        if ch in ("vars", "set_vars", "vars_map", "set_vars_map", "shadow") and cls[v]["retyped"]:
            if ch.startswith("set_vars") and cls[v]["has_open"]:
                run.known("K6-set-vars-renders-twice", "")
            else:
                run.known("K7-typed-context-reparses-yaml", "")
            continue
        run.violation("not verbatim: value %r through channel %s arrived as file=%r argv=%r (rc=%s)" % (v, ch, desc["observed"]["file"], desc["observed"]["argv"], o["rc"]), desc)
    # command output / stderr / status reported exactly; omit drops only its own parameter
    extra = []
    for v in strs[:60]:
        if v == "" or "\x00" in v:
            continue
        extra.append(v)
    root = os.path.join(C.SANDBOX, "vx")
    nex = 0
    for v in extra:
        shutil.rmtree(root, ignore_errors=True)
        os.makedirs(os.path.join(root, "out"))
        s = ("#!/usr/bin/env rash\n- command:\n    argv: [sh, -c, 'printf %%s \"$VP\"; printf %%s \"$VQ\" >&2']\n  register: r\n"
             "- copy:\n    content: \"{{ r.output }}\"\n    dest: \"%s/out/stdout\"\n"
             "- copy:\n    content: \"{{ r.extra.stderr }}\"\n    dest: \"%s/out/stderr\"\n"
             "- copy:\n    content: \"rc={{ r.extra.rc }}\"\n    dest: \"%s/out/rc\"\n    mode: \"{{ omit }}\"\n" % (root, root, root))
        open(os.path.join(root, "main.rh"), "w").write(s)
        p = subprocess.run([C.RASH, "--output", "raw", os.path.join(root, "main.rh")], capture_output=True, timeout=20, env=dict(os.environ, VP=v, VQ=v[::-1]), cwd=root)
        nex += 1
        try:
            got = (open(os.path.join(root, "out", "stdout"), "rb").read(), open(os.path.join(root, "out", "stderr"), "rb").read(), open(os.path.join(root, "out", "rc"), "rb").read())
        except FileNotFoundError:
            got = None
        if p.returncode != 0 or got != (v.encode(), v[::-1].encode(), b"rc=0"):
            run.violation("command result not reported exactly / omit: value %r gave %r (rc=%s, stderr=%s)" % (v, got, p.returncode, p.stderr.decode("utf-8", "replace")[-200:]),
                          dict(value=v, observed=repr(got)))
    nomit, omit_dist = omit_checks(run)
    run.coverage.update(evaluations=len(probes) + nex + nomit, distinct_nontrivial=len(nontrivial), omit_mappings=omit_dist,
                        rule="strings from a metacharacter-weighted grammar (quotes, newlines, template / YAML / shell metacharacters, blanks, numerals, booleans, null, empty, multi-byte UTF-8) arriving in an environment variable, "
                             "sent through each channel (direct, loop item, task vars, set_vars, register of a command's output) into copy (file bytes compared) and a command argv (received arguments compared); "
                             "plus command stdout/stderr/rc reported exactly; plus `omit`: random mappings (task vars, set_vars, mapping loop items) whose entries are text, references to earlier entries, `{{ omit }}` or `default(omit)`, "
                             "compared with the extracted mirror of jinja::render_map (Omit.v), re-run without an omitted entry, and every order of command / copy parameters with two omitted ones; non-trivial = (value, channel) pairs whose value is NOT a plain YAML string by Coq's plain_string",
                        samples=[dict(value=v, channel=ch) for v, ch in probes[5:8]], traces_validated_against_impl=len(probes),
                        trusted_base=TB, outcome_distribution=dist, exhaustive=False)
    run.assumptions = ["values are valid UTF-8 without NUL (environment variables)", "one probe per rash process"]



# ---------------------------------------------------------------- omit
OKEYS = ["ka", "kb", "kc", "kd", "ke", "host"]


def omit_tpl(e):
    if e[0] == 'lit':
        return e[1]
    if e[0] == 'var':
        return "{{ %s }}" % e[1]
    if e[0] == 'omit':
        return "{{ omit }}"
    return "{{ %s | default(omit) }}" % e[1]


def omit_script(channel, entries):
    """a mapping whose entries may yield `omit`, as task vars / a set_vars value list / a mapping loop item; one line
    `R k=v ...` shows every key afterwards (`-` = not defined)"""
    m = "".join("    %s: %s\n" % (k, json.dumps(omit_tpl(e))) for k, e in entries)
    show = " ".join("%s={{ %s | default('-') }}" % (k, k) for k in OKEYS)
    s = "#!/usr/bin/env rash\n- set_vars:\n    host: h1\n"
    if channel == "vars":
        s += "- debug:\n    msg: \"R %s\"\n  vars:\n%s" % (show, m)
    elif channel == "set_vars":
        s += "- set_vars:\n%s- debug:\n    msg: \"R %s\"\n" % (m, show)
    else:
        showi = " ".join("%s={{ item.%s | default('-') }}" % (k, k) for k in OKEYS)
        s += "- debug:\n    msg: \"R %s\"\n  loop:\n    - %s\n" % (showi, json.dumps({k: omit_tpl(e) for k, e in entries}))
    return s


def omit_model(entries):
    o = C.run_oracle([sx(["rendermap", ["store", [hx("host"), hx("h1")]],
                          ["entries"] + [[hx(k)] + ([e[0], hx(e[1])] if e[0] != 'omit' else ['omit']) for k, e in entries]])])[0]
    r = parse_sx(o)
    if r[0] == "err":
        return None
    return {bytes.fromhex(k[1:]).decode(): bytes.fromhex(v[1:]).decode() for k, v in r[1:]}


def omit_checks(run):
    """`omit` at every position of a mapping: (a) the mirror of jinja::render_map (Omit.v) predicts which keys exist
    afterwards and with which values; (b) the theorem's statement on the real binary: the run with an omitted entry and
    the run of the same script without that entry show the same; (c) module parameters in every order"""
    rng = run.rng
    n = 60 if run.tier == "quick" else 1200
    root = os.path.join(C.SANDBOX, "vo")
    shutil.rmtree(root, ignore_errors=True)
    os.makedirs(root)
    nrun = 0
    nbad = 0
    dist = {}

    def rash(text):
        f = os.path.join(root, "main.rh")
        open(f, "w").write(text)
        p = subprocess.run([C.RASH, "--output", "raw", f], capture_output=True, timeout=20, cwd=root)
        return p.returncode, p.stdout.decode("utf-8", "replace"), p.stderr.decode("utf-8", "replace")[-200:]

    def shown(out):
        for line in out.split("\n"):
            if line.startswith("R "):
                return dict(kv.split("=", 1) for kv in line[2:].split(" "))
        return None

    for i in range(n):
        keys = rng.sample(OKEYS, rng.randint(1, 5))
        entries = []
        for k in keys:
            r = rng.random()
            if r < 0.3:
                e = ('omit',)
            elif r < 0.5:
                e = ('lit', rng.choice(["x", "y1", "val"]))
            elif r < 0.72:
                e = ('var', rng.choice(keys + ["host", "host", "nope"]))
            else:
                e = ('defomit', rng.choice(keys + ["host", "nope", "nope"]))
            entries.append((k, e))
        channel = rng.choice(["vars", "set_vars", "loop_map"])
        want = omit_model(entries)
        rc, out, err = rash(omit_script(channel, entries))
        nrun += 1
        got = shown(out) if rc == 0 else None
        if want is not None:
            if channel == "loop_map":
                full = {k: want.get(k, "-") for k in OKEYS}
            else:
                full = {k: want.get(k, "h1" if k == "host" else "-") for k in OKEYS}
        else:
            full = None
        kind = "fails" if want is None else ("omits" if any(e[0] == 'omit' or (e[0] == 'defomit' and e[1] not in want and e[1] != 'host') for _, e in entries) else "plain")
        dist[kind] = dist.get(kind, 0) + 1
        desc = dict(channel=channel, entries=entries, script=omit_script(channel, entries), model=full, observed=dict(rc=rc, shown=got, stderr=err))
        if got != full:
            nbad += 1
            if nbad > 4:
                continue
            run.violation("omit: mapping %r through %s: the mirror of render_map says %r, rash shows %r (rc=%r)" % (entries, channel, full, got, rc), desc)
            continue
        # the theorem on the implementation: dropping an entry that was omitted changes nothing
        if want is not None:
            gone = [k for k, e in entries if k not in want]
            if gone and len(entries) > 1:      # (an empty mapping is not a valid vars / set_vars value)
                k0 = rng.choice(gone)
                rc2, out2, err2 = rash(omit_script(channel, [(k, e) for k, e in entries if k != k0]))
                nrun += 1
                if rc2 != rc or shown(out2) != got:
                    run.violation("omit: removing the omitted entry %s from %r changes the result: %r vs %r" % (k0, entries, got, shown(out2)), desc)
    # module parameters: the omitted one first, in the middle, last
    import itertools
    marker = os.path.join(root, "d")
    os.makedirs(marker, exist_ok=True)
    base = [("chdir", json.dumps(marker)), ("cmd", '"pwd"'), ("transfer_pid", '"{{ omit }}"'), ("strip_empty_ends", '"{{ nope | default(omit) }}"')]
    for perm in itertools.permutations(base):
        text = "#!/usr/bin/env rash\n- command:\n" + "".join("    %s: %s\n" % kv for kv in perm)
        rc, out, err = rash(text)
        nrun += 1
        if rc != 0 or out.strip() != os.path.realpath(marker):
            run.violation("omit among the parameters of command (%s): rc=%r stdout=%r stderr=%r" % (", ".join(k for k, _ in perm), rc, out, err), dict(script=text))
    basec = [("content", '"payload"'), ("dest", json.dumps(os.path.join(root, "cp"))), ("mode", '"{{ omit }}"'), ("src", '"{{ nope | default(omit) }}"')]
    for perm in itertools.permutations(basec):
        try:
            os.remove(os.path.join(root, "cp"))
        except FileNotFoundError:
            pass
        text = "#!/usr/bin/env rash\n- copy:\n" + "".join("    %s: %s\n" % kv for kv in perm)
        rc, out, err = rash(text)
        nrun += 1
        try:
            b = open(os.path.join(root, "cp"), "rb").read()
        except FileNotFoundError:
            b = None
        if rc != 0 or b != b"payload":
            run.violation("omit among the parameters of copy (%s): rc=%r file=%r stderr=%r" % (", ".join(k for k, _ in perm), rc, b, err), dict(script=text))
    return nrun, dist

PROPS = {"C12": c12}
