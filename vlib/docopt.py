"""docopt family (C07-C10): usage generation, rendering, reference oracle calls,
implementation calls, canonicalisation of bindings."""
import itertools, json
from . import common as C
from .common import hx, sx, parse_sx, unhx

# ---------------------------------------------------------------- option table
# (short, long, takes value, default, placeholder)
OPTS = [("f", "force", False, None), ("o", "out", True, "dd"), ("q", None, False, None), (None, "level", True, None)]
OPT_SECTION = ("# Options:\n"
               "#   -f, --force          Force it.\n"
               "#   -o FILE, --out=FILE  Output file [default: dd]\n"
               "#   -q                   Quiet.\n"
               "#   --level=LEVEL        Level.\n")


# second table: long names that are prefixes of one another, a flag against a valued option, a lone short flag
OPTS2 = [(None, "all", False, None), (None, "all-units", False, None), (None, "allow", True, None), ("a", None, False, None)]
OPT_SECTION2 = ("# Options:\n"
                "#   --all            All.\n"
                "#   --all-units      All units.\n"
                "#   --allow=<x>      Allow x.\n"
                "#   -a               Short a.\n")
# third table: defaults followed by more text, by a full stop, in the middle of the description
OPTS3 = [("s", "speed", True, "10"), ("m", "mode", True, "fast"), ("q", None, False, None), (None, "depth", True, "3")]
OPT_SECTION3 = ("# Options:\n"
                "#   -s, --speed=<kn>      Speed [default: 10] in knots\n"
                "#   -m MODE, --mode=MODE  Mode [default: fast].\n"
                "#   -q                    Quiet.\n"
                "#   --depth=<n>           How deep [default: 3] (levels)\n")
# fourth table: names with dashes (keys get underscores); fifth: a flag meant to be repeated (counted)
OPTS4 = [(None, "dry-run", False, None), ("n", "no-act", False, None), ("d", "out-dir", True, None)]
OPT_SECTION4 = ("# Options:\n"
                "#   --dry-run              Do nothing.\n"
                "#   -n, --no-act           Same.\n"
                "#   -d DIR, --out-dir=DIR  Where.\n")
OPTS5 = [("v", "verbose", False, None), ("q", None, False, None)]
OPT_SECTION5 = ("# Options:\n"
                "#   -v, --verbose  More output (repeatable).\n"
                "#   -q             Quiet.\n")
OPTS6 = [("v", None, False, None), ("q", None, False, None), ("d", None, False, None), ("x", "extra", False, None)]
OPT_SECTION6 = ("# Options:\n"
                "#   -v           v\n"
                "#   -q           q\n"
                "#   -d           d\n"
                "#   -x, --extra  x\n")
# placeholders that contain dots (an IP address, a file name with extension)
OPTS7 = [(None, "ip", True, None), ("o", "out", True, None), ("q", None, False, None)]
OPT_SECTION7 = ("# Options:\n"
                "#   --ip=<a.b.c.d>              Address.\n"
                "#   -o FILE.EXT, --out=FILE.EXT  Output.\n"
                "#   -q                          Quiet.\n")
# defaults that contain brackets themselves
OPTS8 = [("s", "select", True, "items[0]"), (None, "range", True, "[1, 2]"), ("q", None, False, None)]
OPT_SECTION8 = ("# Options:\n"
                "#   -s, --select=<expr>  What to select [default: items[0]]\n"
                "#   --range=<r>          Range [default: [1, 2]]\n"
                "#   -q                   Quiet.\n")
# option names that differ in CASE only: different options, different keys
OPTS9 = [("v", None, False, None), ("V", None, False, None), ("q", None, False, None)]
OPT_SECTION9 = ("# Options:\n"
                "#   -v  Verbose.\n"
                "#   -V  Version.\n"
                "#   -q  Quiet.\n")
TABLES = {"T9": (OPTS9, OPT_SECTION9), "T8": (OPTS8, OPT_SECTION8), "T7": (OPTS7, OPT_SECTION7), "T6": (OPTS6, OPT_SECTION6), True: (OPTS, OPT_SECTION), "T2": (OPTS2, OPT_SECTION2), "T3": (OPTS3, OPT_SECTION3), "T4": (OPTS4, OPT_SECTION4), "T5": (OPTS5, OPT_SECTION5)}


def opts_of(wo):
    return TABLES[wo][0] if wo else []


def section_of(wo):
    return TABLES[wo][1] if wo else ""


# the keyword `usage:` is case-insensitive (syntax.md): table ids H1/H2 are option-free tables with another spelling
HEADERS = {"H1": "usage:", "H2": "USAGE:"}
TABLES["H1"] = ([], "")
TABLES["H2"] = ([], "")
TABLES["H3"] = ([], "")      # first pattern on the `Usage:` line, the others on continuation lines below it
# the same tables with the options section written ABOVE the usage section (docopt reads option descriptions from the
# whole text: any line that starts with a dash)
TABLES["P0"] = (OPTS, OPT_SECTION)
TABLES["P3"] = (OPTS3, OPT_SECTION3)
SECTION_FIRST = ("P0", "P3")


def header_of(wo):
    return HEADERS.get(wo, "Usage:")


def cname(o):
    return o[1] if o[1] else o[0]


def table_sx(opts):
    return ["table"] + [[hx(o[0]) if o[0] else "none", hx(o[1]) if o[1] else "none", bool(o[2])] for o in opts]


# ---------------------------------------------------------------- pattern AST (python tuples)
# ('cmd',n) ('pos',n) ('opt',canonical-name, spelling) ('anyopts',) ('seq',[..]) ('optional',p) ('group',p) ('alt',[..]) ('rep',p)
def show(n, top=True):
    k = n[0]
    if k == 'cmd':
        return n[1]
    if k == 'pos':
        # an upper-case name is the other documented way of writing a positional (FILE, MY-ARG)
        return n[1] if n[1].upper() == n[1] and n[1].lower() != n[1] else '<%s>' % n[1]
    if k == 'opt':
        return n[2]
    if k == 'anyopts':
        return '[options]'
    if k == 'raw':
        return n[1]
    if k == 'seq':
        return ' '.join(show(c, False) for c in n[1])
    if k == 'optional':
        return '[' + show(n[1], True) + ']'
    if k == 'group':
        return '(' + show(n[1], True) + ')'
    if k == 'alt':
        return ' | '.join(show(c, False) for c in n[1])
    if k == 'rep':
        return show(n[1], False) + ('...' if len(n) < 3 else ' ...')     # ('rep', p, 'spaced'): `<x> ...`
    raise ValueError(n)


def pat_sx(n):
    k = n[0]
    if k == 'cmd':
        return ['cmd', hx(n[1])]
    if k == 'pos':
        return ['pos', hx(n[1])]
    if k == 'opt':
        return ['opt', hx(n[1])]
    if k == 'anyopts':
        return 'anyopts'
    if k == 'seq':
        return ['seq'] + [pat_sx(c) for c in n[1]]
    if k == 'optional':
        return ['optional', pat_sx(n[1])]
    if k == 'group':
        # parentheses are kept (a one-element sequence) so that "[(a b)]" is not read as "[a b]"
        return ['seq', pat_sx(n[1])]
    if k == 'alt':
        return ['alt'] + [pat_sx(c) for c in n[1]]
    if k == 'rep':
        return ['rep', pat_sx(n[1])]
    raise ValueError(n)


def walk(n):
    yield n
    k = n[0]
    if k in ('seq', 'alt'):
        for c in n[1]:
            yield from walk(c)
    elif k in ('optional', 'group', 'rep'):
        yield from walk(n[1])


def has_options(lines):
    return any(x[0] in ('opt', 'anyopts') for l in lines for x in walk(l))


def commands_of(lines):
    return sorted({x[1] for l in lines for x in walk(l) if x[0] == 'cmd'})


def script_text(lines, with_opts):
    h = header_of(with_opts)
    if with_opts == "H3":
        u = "# Usage: prog %s\n" % show(lines[0]) + "".join("#        prog %s\n" % show(l) for l in lines[1:])
    elif len(lines) == 1:
        u = "# %s prog %s\n" % (h, show(lines[0]))
    else:
        u = "# %s\n" % h + "".join("#   prog %s\n" % show(l) for l in lines)
    if with_opts in SECTION_FIRST:
        return "#!/usr/bin/env rash\n#\n# A tool.\n#\n" + section_of(with_opts) + "#\n" + u + "#\n- debug:\n    msg: x\n"
    return "#!/usr/bin/env rash\n#\n" + u + "#\n" + section_of(with_opts) + "- debug:\n    msg: x\n"


# ---------------------------------------------------------------- enumeration of usages
CMDS = [('cmd', 'a'), ('cmd', 'b')]
POSS = [('pos', 'x'), ('pos', 'y')]
ATOMS = CMDS + POSS
OPT_ATOMS = [('opt', 'force', '-f'), ('opt', 'force', '--force'), ('opt', 'q', '-q')]
VAL_OPT_ELEMS = [('optional', ('opt', 'out', '-o FILE')), ('optional', ('opt', 'out', '--out=FILE')),
                 ('optional', ('opt', 'level', '--level=LEVEL'))]


def elements(with_opts):
    out = []
    for a in ATOMS:
        out += [a, ('rep', a), ('optional', a), ('rep', ('optional', a)), ('optional', ('rep', a))]
    for a, b in itertools.permutations(ATOMS, 2):
        out += [('group', ('alt', [a, b])), ('optional', ('alt', [a, b])),
                ('rep', ('group', ('seq', [a, b]))), ('optional', ('seq', [a, b])),
                ('optional', ('group', ('seq', [a, b]))), ('optional', ('seq', [a, ('optional', b)])),
                ('rep', ('group', ('alt', [a, b])))]
    if with_opts:
        out2 = [('anyopts',)]
        for o in OPT_ATOMS:
            out2 += [o, ('optional', o)]
        out2 += VAL_OPT_ELEMS
        out2 += [('group', ('alt', [OPT_ATOMS[0], OPT_ATOMS[2]])), ('optional', ('alt', [OPT_ATOMS[0], OPT_ATOMS[2]])),
                 ('rep', ('optional', OPT_ATOMS[2])),
                 ('optional', ('seq', [('cmd', 'a'), ('optional', OPT_ATOMS[0])]))]
        return out, out2
    return out, []


def ok_usage(elems):
    """avoid degenerate usages outside the documented language: the same positional name twice
    unless as `<x> <x>...`"""
    names = []
    for e in elems:
        for x in walk(e):
            if x[0] == 'pos':
                names.append(x[1])
    return True


def enum_usages(tier, rng):
    plain, optel = elements(True)
    usages = []
    # option-free usages: 1 and 2 elements exhaustively, 3 sampled
    for e in plain:
        usages.append(([('seq', [e])], False))
    two = [('seq', [a, b]) for a in plain for b in plain]
    three = [('seq', [a, b, c]) for a in plain[:40] for b in plain[:40] for c in plain[:40]]
    multi = [[('seq', [a]), ('seq', [b])] for a in plain for b in plain]
    n2, n3, nm, no = (250, 60, 60, 200) if tier == "quick" else (1500, 600, 600, 1500)
    for u in rng.sample(two, min(n2, len(two))):
        usages.append(([u], False))
    for u in rng.sample(three, min(n3, len(three))):
        usages.append(([u], False))
    for u in rng.sample(multi, min(nm, len(multi))):
        usages.append((u, False))
    # usages with options
    withopt = []
    for o in optel:
        withopt.append([('seq', [o])])
        for e in plain[:30]:
            withopt.append([('seq', [o, e])])
            withopt.append([('seq', [e, o])])
        for o2 in optel:
            if o2 is not o:
                withopt.append([('seq', [o, o2, ('pos', 'x')])])
    for u in rng.sample(withopt, min(no, len(withopt))):
        usages.append((u, True))
    return usages


def family_usages():
    """targeted families the small-scope enumeration cannot reach: (lines, table, argvs)"""
    out = []
    o = lambda n, sp: ('opt', n, sp)
    opt = lambda e: ('optional', e)
    x, y, a, b = ('pos', 'x'), ('pos', 'y'), ('cmd', 'a'), ('cmd', 'b')
    # F1: option names sharing a prefix, allowed in different places
    t2 = ['--all', '--all-units', '--allow=v', '--allow', 'v', 'a', '-a', 'b']
    av2 = [list(t) for n in range(0, 4) for t in itertools.product(t2, repeat=n)]
    for ls in ([[('seq', [opt(o('all-units', '--all-units')), x])], [('seq', [a, opt(o('all', '--all'))])]],
               [[('seq', [opt(o('all', '--all')), x])], [('seq', [a, opt(o('all-units', '--all-units'))])]],
               [[('seq', [opt(o('allow', '--allow=<x>')), y])], [('seq', [a, opt(o('all', '--all'))])]],
               [[('seq', [opt(o('all', '--all')), x])], [('seq', [b, opt(o('allow', '--allow=<x>')), y])]],
               [[('seq', [opt(o('all-units', '--all-units')), opt(o('a', '-a')), x])]],
               [[('seq', [('group', ('alt', [o('all', '--all'), o('all-units', '--all-units')])), x])]]):
        out.append(([l[0] for l in ls], "T2", av2))
    # F2: repeated groups of two words with options around them, two and three repetitions
    words = ['v', 'w', 'a', '-f', '-q', '--force']
    long_av = []
    for reps in (1, 2, 3):
        body = ['v', 'w'] * reps
        long_av.append(body)
        for optw in ('-f', '--force', '-q'):
            for pos in range(0, len(body) + 1):
                long_av.append(body[:pos] + [optw] + body[pos:])
        long_av.append(body[:-1])
        long_av.append(['-f'] + body + ['v'])
        long_av.append(['a'] + body)
        long_av.append(['a', '-f'] + body)
        long_av.append(['-f', '-q'] + body)
    f = o('force', '-f')
    qf = o('q', '-q')
    for l in ([('seq', [opt(f), ('rep', ('group', ('seq', [x, y])))])], [('seq', [('rep', ('group', ('seq', [x, y]))), opt(qf)])],
              [('seq', [('anyopts',), ('rep', ('group', ('seq', [x, y])))])], [('seq', [a, opt(f), ('rep', ('group', ('seq', [x, y])))])],
              [('seq', [opt(f), opt(qf), ('rep', ('group', ('seq', [x, y])))])], [('seq', [opt(f), ('rep', x)])],
              [('seq', [opt(f), x, ('rep', y)])]):
        out.append((l, True, long_av))
    # F3: several usage lines, `[options]` on one, an option of the options section named explicitly on another
    av3 = [list(t) for n in range(0, 4) for t in itertools.product(['a', 'b', 'v', '-f', '-q', '--force'], repeat=n)]
    for ls in ([('seq', [a, ('anyopts',), x])], [('seq', [b, opt(f)])]), ([('seq', [a, opt(qf), x])], [('seq', [b, ('anyopts',)])]), \
              ([('seq', [a, ('anyopts',)])], [('seq', [b, ('anyopts',), x])]), ([('seq', [a, opt(f)])], [('seq', [b, opt(f), x])], [('seq', [('anyopts',), y])]):
        out.append(([l[0] for l in ls], True, av3))
    # F9: `[options]` and an explicit option on the SAME line, two or three DIFFERENT options of the shortcut given
    # (K41: which order of them was accepted depended on the hash order)
    av9 = [list(t) for n in range(0, 5) for t in itertools.product(['a', '-v', '-q', '-d', '-x', '-vq'], repeat=n) if t.count('a') <= 1 and len(set(t)) == len(t)]
    dv, vv, qv = o('d', '-d'), o('v', '-v'), o('q', '-q')
    for l in ([('seq', [('anyopts',), a, opt(dv)])], [('seq', [a, ('anyopts',), opt(dv)])], [('seq', [('anyopts',), opt(dv), opt(a)])], [('seq', [opt(vv), ('anyopts',), a])]):
        out.append((l, "T6", av9))
    # F4: defaults followed by text; values containing `=`
    t4 = ['a', 'v', '-s', '5', '--speed=5', '-s5', '-q', '--mode', 'slow', '-mk=v', '--depth=k=v', '-m=k=v']
    av4 = [list(t) for n in range(0, 4) for t in itertools.product(t4, repeat=n)]
    sp, md, dp, q3 = o('speed', '--speed=<kn>'), o('mode', '-m MODE'), o('depth', '--depth=<n>'), o('q', '-q')
    for l in ([('seq', [('anyopts',), x])], [('seq', [opt(sp), opt(q3), x])], [('seq', [opt(md), opt(dp), ('optional', x)])], [('seq', [a, ('anyopts',)])]):
        out.append((l, "T3", av4))
    # F8: the `usage:` keyword in other spellings, one and several usage lines
    av8 = [list(t) for n in range(0, 4) for t in itertools.product(['a', 'b', 'v'], repeat=n)]
    for hid in ("H1", "H2", "H3"):
        for ls in ([('seq', [a, opt(x)])],), ([('seq', [a, opt(x)])], [('seq', [b, opt(y)])]), ([('seq', [a])], [('seq', [b])], [('seq', [x, y])]):
            out.append(([l[0] for l in ls], hid, av8))
    # F11: valued options with an EMPTY inline value, long and short form
    t11 = ['--out=', '--out=w', '--out', '-o=', '-o', 'v', 'w', '--level=', '-q']
    av11 = [list(t) for n in range(0, 4) for t in itertools.product(t11, repeat=n) if len(set(t)) == len(t)]
    oo, lv2 = o('out', '--out=FILE'), o('level', '--level=LEVEL')
    for l in ([('seq', [opt(oo), opt(x)])], [('seq', [opt(oo), opt(qf), x])], [('seq', [('anyopts',), opt(x)])], [('seq', [opt(lv2), opt(oo), ('rep', x)])]):
        out.append((l, True, av11))
    # F12: a repeated positional beside two or more separately written optional option groups, most of them unused
    t12 = ['v', 'w', '-f', '-q', '--level=w', 'a']
    av12 = [list(t) for n in range(0, 5) for t in itertools.product(t12, repeat=n) if sum(1 for w in t if w.startswith('-')) <= 2 and len(set(w for w in t if w.startswith('-'))) == sum(1 for w in t if w.startswith('-'))]
    for l in ([('seq', [opt(f), opt(('rep', x)), opt(lv2)])], [('seq', [opt(f), ('rep', x), opt(qf)])], [('seq', [('rep', x), ('group', ('alt', [opt(qf), a, opt(f)]))])],
              [('seq', [('group', ('alt', [opt(f), opt(qf)])), ('rep', x)])], [('seq', [opt(f), opt(qf), opt(lv2), ('rep', x)])]):
        out.append((l, True, av12))
    # F13: a REQUIRED (unbracketed) option inside or beside an alternation of commands, arguments that omit it
    t13 = ['a', 'b', '-f', '--force', 'v', '-q']
    av13 = [list(t) for n in range(0, 4) for t in itertools.product(t13, repeat=n)]
    for ls in ([[('seq', [('group', ('alt', [('seq', [a, f]), b]))])]], [[('seq', [f, ('group', ('alt', [a, b]))])]], [[('seq', [('cmd', 'c')])], [('seq', [('group', ('alt', [('seq', [a, f]), b]))])]],
               [[('seq', [('group', ('alt', [a, ('seq', [b, qf])])), opt(x)])]]):
        out.append(([l[0] for l in ls], True, av13))
    # F14: several usage lines; one with option groups separated by plain words, another with adjacent option groups;
    # the adjacent ones given in another order than written (state carried from line to line in hash order)
    xx = o('extra', '-x')
    t14 = ['a', 'b', 'v', '-v', '-q', '-d', '-x']
    av14 = [list(t) for n in range(0, 5) for t in itertools.product(t14, repeat=n) if len(set(t)) == len(t) and sum(1 for w in t if not w.startswith('-')) <= 2]
    for ls in ([[('seq', [a, opt(vv), x, opt(qv)])], [('seq', [b, opt(dv), opt(xx)])]], [[('seq', [a, opt(vv), x, opt(qv)])], [('seq', [b, ('anyopts',)])]],
               [[('seq', [b, opt(dv), opt(xx)])], [('seq', [a, opt(vv), x, opt(qv)])], [('seq', [('cmd', 'c'), opt(qv), opt(vv), opt(y)])]]):
        out.append(([l[0] for l in ls], "T6", av14))
    # F15: the words `-` and `--` and values that start with a dash
    av15 = [list(t) for n in range(0, 4) for t in itertools.product(['-', '--', 'v', 'a'], repeat=n)]
    for l in ([('seq', [x])], [('seq', [opt(x)])], [('seq', [a, x])], [('seq', [('rep', x)])], [('seq', [a, opt(('rep', x))])]):
        out.append((l, False, av15))
    av15b = [list(t) for n in range(0, 3) for t in itertools.product(['--out=-1', '--out', '-1', '-o-1', '-o', '--level=-x', 'v', '--out=--', '-'], repeat=n)]
    for l in ([('seq', [opt(oo), opt(x)])], [('seq', [('anyopts',), opt(x)])]):
        out.append((l, True, av15b))
    # F16: valued options whose placeholder contains dots
    t16 = ['--ip=1.2.3.4', '--ip', '1.2.3.4', '-o', 'x', '-ox', '-o=x', '--out=x', '-q', 'v']
    av16 = [list(t) for n in range(0, 4) for t in itertools.product(t16, repeat=n) if len(set(t)) == len(t)]
    ipo, outo = o('ip', '--ip=<a.b.c.d>'), o('out', '-o FILE.EXT')
    for l in ([('seq', [opt(ipo), opt(x)])], [('seq', [('anyopts',), opt(x)])], [('seq', [opt(outo), opt(qf), x])], [('seq', [a, opt(ipo), opt(outo)])]):
        out.append((l, "T7", av16))
    # F17: the options section ABOVE the usage section: short/long pairs, defaults, options reachable only through [options]
    for l in ([('seq', [('anyopts',), x])], [('seq', [opt(sp), opt(q3), x])], [('seq', [a, ('anyopts',)])]):
        out.append((l, "P3", av4))
    for l in ([('seq', [opt(oo), opt(x)])], [('seq', [('anyopts',), opt(x)])], [('seq', [opt(f), ('rep', x)])]):
        out.append((l, "P0", av11))
    # F18: option values that are usage metacharacters (K48: `]`, `)` and `|` were also bound as a positional)
    t18 = ['-o', ']', '--out=]', '--out', ')', '-o|', '|', '-o=)', '[', '--out=[', '(', 'v', '-q', '...', '-o...']
    av18 = [list(t) for n in range(0, 4) for t in itertools.product(t18, repeat=n) if sum(1 for w in t if w.startswith('-')) <= 2]
    for l in ([('seq', [opt(oo), opt(x)])], [('seq', [('anyopts',), opt(x)])], [('seq', [opt(oo), opt(qf), ('rep', x)])], [('seq', [a, opt(oo)])]):
        out.append((l, True, av18))
    # F19: an alternation inside a branch of another alternation (groups and optionals nested two deep)
    cc, dd = ('cmd', 'c'), ('cmd', 'd')
    alt = lambda *e: ('alt', list(e))
    sq = lambda *e: ('seq', list(e))
    grp = lambda e: ('group', e)
    av19 = [list(t) for n in range(0, 4) for t in itertools.product(['a', 'b', 'c', 'd', 'v'], repeat=n)]
    for l in ([sq(grp(alt(sq(a, opt(alt(b, cc))), dd)))], [sq(grp(alt(sq(a, grp(alt(b, cc))), dd)))], [sq(opt(alt(sq(a, grp(alt(b, cc))), dd)), x)], [sq(grp(alt(grp(alt(a, b)), cc)))],
              [sq(grp(alt(a, grp(alt(b, cc)))))], [sq(opt(alt(sq(grp(alt(a, b)), x), cc)))], [sq(grp(alt(sq(a, opt(b)), dd)))], [sq(grp(alt(a, sq(b, opt(alt(cc, dd))))), opt(x))]):
        out.append((l, False, av19))
    # F20: defaults that contain `]`
    t20 = ['-s', 'w', '--select=w', '-sw', '--range=w', '--range', '-q', 'v', 'a']
    av20 = [list(t) for n in range(0, 4) for t in itertools.product(t20, repeat=n) if len(set(t)) == len(t)]
    sel, rg = o('select', '--select=<expr>'), o('range', '--range=<r>')
    for l in ([sq(('anyopts',), opt(x))], [sq(opt(sel), opt(rg), opt(x))], [sq(a, ('anyopts',))]):
        out.append((l, "T8", av20))
    # F21: alternations of three and four branches, the later branches of several words
    av21 = [list(t) for n in range(0, 4) for t in itertools.product(['a', 'b', 'c', 'd', 'v', 'w'], repeat=n)]
    for l in ([sq(grp(alt(sq(a, x), sq(b, x), cc)))], [sq(grp(alt(a, sq(b, x), sq(cc, x, y))))], [sq(grp(alt(sq(a, x), b, sq(cc, y), dd)))], [sq(opt(alt(sq(a, x), sq(b, y), cc)))],
              [sq(grp(alt(a, b, sq(cc, opt(x)))))], [sq(grp(alt(a, b, cc)), grp(alt(sq(dd, x), y)))]):
        out.append((l, False, av21))
    # F22: a FLAG written with `=value` (K52: the value used to become a positional) beside valued options
    t22 = ['--force=w', '--force=', '--force', '-q=w', '--out=w', '--out=', 'w', 'v', '--level=--force', '-f=w']
    av22 = [list(t) for n in range(0, 4) for t in itertools.product(t22, repeat=n) if len(set(t)) == len(t) and sum(1 for w in t if w.startswith('-')) <= 2]
    for l in ([sq(opt(f), x)], [sq(('anyopts',), opt(x))], [sq(opt(f), opt(oo), ('rep', x))], [sq(a, opt(f), opt(x))]):
        out.append((l, True, av22))
    # F23: an EMPTY word on the command line ('' is an argument like any other: a positional value, an option value)
    av23 = [list(t) for n in range(0, 4) for t in itertools.product(['', 'v', 'a', '--out', '--out=', '-q'], repeat=n) if t.count('--out') + t.count('--out=') <= 1]
    for l in ([sq(x)], [sq(x, y)], [sq(a, opt(x))], [sq(('rep', x))], [sq(opt(oo), x)], [sq(('anyopts',), opt(x))]):
        out.append((l, True if any(n[0] in ('opt', 'anyopts') for n in walk(l[0])) else False, av23))
    # F24: short options that differ in case only
    t24 = ['-v', '-V', '-q', '-vV', '-Vq', 'w']
    av24 = [list(t) for n in range(0, 4) for t in itertools.product(t24, repeat=n) if len(set(t)) == len(t)]
    lv_, uv_ = o('v', '-v'), o('V', '-V')
    for l in ([sq(('anyopts',), opt(x))], [sq(opt(lv_), opt(uv_), opt(x))], [sq(opt(uv_), x)], [sq(a, ('anyopts',))]):
        out.append((l, "T9", av24))
    # F5: upper-case positionals, `<x> ...` with a blank before the dots
    F, G = ('pos', 'FILE'), ('pos', 'MY-ARG')
    NM, FN = ('pos', 'NAME'), ('pos', 'FILENAME')
    av5 = [list(t) for n in range(0, 5) for t in itertools.product(['a', 'v', 'w'], repeat=n)]
    for l in ([('seq', [F])], [('seq', [a, F, opt(G)])], [('seq', [('rep', F)])], [('seq', [('rep', x, 'spaced')])], [('seq', [a, ('rep', ('optional', F))])],
              [('seq', [F, ('rep', y, 'spaced')])], [('seq', [opt(('rep', G))])], [('seq', [('group', ('alt', [a, F]))])],
              # one upper-case name is the tail of another one, which is repeated
              [('seq', [NM, ('rep', FN)])], [('seq', [('rep', FN), NM])], [('seq', [a, NM, opt(('rep', FN))])]):
        out.append((l, False, av5))
    out.append(([('seq', [a, NM]), ('seq', [b, ('rep', FN)])], False, av5 + [['b'] + w for w in av5[:40]]))
    # F6: names with dashes: commands, positionals, options (keys with underscores)
    mc, ma = ('cmd', 'my-cmd'), ('pos', 'my-arg')
    t6 = ['my-cmd', 'v', '--dry-run', '-n', '--no-act', '--out-dir=w', '-d', 'w', '-dw', 'my_cmd']
    av6 = [list(t) for n in range(0, 4) for t in itertools.product(t6, repeat=n)]
    dr, na, od = o('dry-run', '--dry-run'), o('no-act', '-n'), o('out-dir', '--out-dir=DIR')
    for l in ([('seq', [mc, ma])], [('seq', [opt(mc), ('rep', ma)])], [('seq', [mc, opt(dr), ma])], [('seq', [('anyopts',), opt(ma)])], [('seq', [mc, opt(na), opt(od)])]):
        out.append((l, "T4", av6))
    # F7: a flag that may be repeated: the result is how many times it was given
    vb = o('verbose', '-v')
    t7 = ['-v', '-vv', '--verbose', '-q', 'a', '-vq', '-vvv']
    av7 = [list(t) for n in range(0, 4) for t in itertools.product(t7, repeat=n)]
    for l in ([('seq', [('rep', opt(vb))])], [('seq', [opt(('rep', vb))])], [('seq', [('rep', vb)])], [('seq', [('rep', opt(vb)), a])], [('seq', [opt(('rep', vb)), opt(qf2 := o('q', '-q')), opt(a)])]):
        out.append((l, "T5", av7))
    return out


WORDS = ['a', 'b', 'v', 'w']
OPT_WORDS = ['a', 'v', '-f', '-q', '-o', 'w']
OPT_WORDS2 = ['a', 'v', '--force', '--out=w', '-qf', '--level', '-ow', '-o=']


def argvs_for(with_opts, tier):
    if not with_opts:
        maxlen = 4 if tier == "quick" else 5
        return [list(t) for n in range(0, maxlen + 1) for t in itertools.product(WORDS, repeat=n)]
    maxlen = 3 if tier == "quick" else 4
    out = [list(t) for n in range(0, maxlen + 1) for t in itertools.product(OPT_WORDS, repeat=n)]
    out += [list(t) for n in range(1, 3 + 1) for t in itertools.product(OPT_WORDS2, repeat=n)]
    return out


# ---------------------------------------------------------------- canonical bindings
def key_of(name):
    return name.replace('-', '_')


def canon_ref(binds):
    """reference bindings (parsed sexp list) -> canonical (cmd counts, positional lists, option values)"""
    cm, po, op = {}, {}, {}
    for b in binds:
        if b[0] == 'c':
            n = key_of(unhx(b[1]).decode())
            cm[n] = cm.get(n, 0) + 1
        elif b[0] == 'p':
            po.setdefault(key_of(unhx(b[1]).decode().lower()), []).append(unhx(b[2]).decode())
        else:
            n = key_of(unhx(b[1]).decode())
            v = None if b[2] == 'none' else unhx(b[2]).decode()
            # a flag given k times is k None's (a repeatable flag is a count)
            op.setdefault(n, []).append(v)
    return (tuple(sorted(cm.items())), tuple(sorted((k, tuple(v)) for k, v in po.items())),
            tuple(sorted((k, tuple(v)) for k, v in op.items())))


def canon_impl(js, opts, cmds):
    """implementation JSON -> same canonical form (defaults of options not given are dropped)"""
    cm, po, op = {}, {}, {}
    dfl = {key_of(cname(o)): o[3] for o in opts}
    takes = {key_of(cname(o)): o[2] for o in opts}
    for k, v in js.items():
        if k == "options" and isinstance(v, dict):
            for ok, ov in v.items():
                if isinstance(ov, bool):
                    if ov:
                        op[ok] = (None,)
                elif isinstance(ov, int):
                    if ov:
                        op[ok] = (None,) * ov   # a counted flag: given that many times
                elif ov is None:
                    pass
                elif isinstance(ov, list):
                    if ov:
                        op[ok] = tuple(ov)
                else:
                    op[ok] = (ov,)
        elif isinstance(v, bool):
            if v:
                cm[k] = 1
        elif isinstance(v, int):
            if v:
                cm[k] = v
        elif isinstance(v, list):
            if v:
                po[k] = tuple(v)
        elif isinstance(v, str):
            po[k] = (v,)
    return (tuple(sorted(cm.items())), tuple(sorted(po.items())), tuple(sorted(op.items()))), dfl


def impl_matches_ref(ci, dfl, refs):
    """does the implementation's canonical result equal one of the reference bindings
    (an option left at its default counts as not given)"""
    for r in refs:
        if ci[0] != r[0] or ci[1] != r[1]:
            continue
        iop = dict(ci[2])
        rop = dict(r[2])
        ok = True
        for k in set(iop) | set(rop):
            a, b = iop.get(k), rop.get(k)
            if a == b:
                continue
            if b is None and a == (dfl.get(k),) and dfl.get(k) is not None:
                continue
            ok = False
        if ok:
            return True
    return False


# ---------------------------------------------------------------- runners
def run_reference(usages_argvs):
    """usages_argvs: list of (lines, with_opts, [argv...]) -> list of list of result per argv:
    None (unspellable) or dict(toks=[...], matches=[canonical...])"""
    lines = []
    for ls, wo, avs in usages_argvs:
        lines.append(sx(["docoptm", table_sx(opts_of(wo)), ["lines"] + [pat_sx(l) for l in ls],
                         ["argvs"] + [[hx(w) for w in av] for av in avs]]))
    outs = C.run_oracle(lines)
    res = []
    for o in outs:
        e = parse_sx(o)
        rr = []
        for r in e:
            if r[0] == "unspellable":
                rr.append(None)
            else:
                toks = r[0][1:]
                ms = [canon_ref(m) for m in r[1][1:]]
                rr.append(dict(toks=toks, matches=sorted(set(ms)), raw=r[1][1:]))
        res.append(rr)
    return res


def run_impl(cases, repeat=1, per_case_timeout=20):
    """cases: list of (script text, argv) -> list of outs lists"""
    outs = C.run_harness("docopt", [dict(file=f, args=av, repeat=repeat) for f, av in cases], per_case_timeout=per_case_timeout)
    return [o.get("outs") if not o.get("crash") else [{"crash": True}] for o in outs]
