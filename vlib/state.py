"""C03-C06: state modules (copy, file, template, pacman).
Mirror model (Coq: StateMods.v, Pacman.v) vs. rash_core executed in-process on a sandbox."""
import itertools, json, os
from . import common as C
from .common import hx, sx, parse_sx

UMASK = 0o022
V_VARS = {"v": "val"}

# ---------------------------------------------------------------- case space
DEST_STATES = {
    # name -> (dest path, nodes)
    "absent": ("d", []),
    "absent_noparent": ("np/d", []),
    "file_same": ("d", [dict(t="f", p="d", c=b"hello\n", m=0o644)]),
    "file_diff": ("d", [dict(t="f", p="d", c=b"other", m=0o644)]),
    "file_empty": ("d", [dict(t="f", p="d", c=b"", m=0o600)]),
    "file_ro": ("d", [dict(t="f", p="d", c=b"other", m=0o444)]),
    "file_ro_same": ("d", [dict(t="f", p="d", c=b"hello\n", m=0o444)]),
    "file_0000": ("d", [dict(t="f", p="d", c=b"other", m=0o000)]),
    "file_suid": ("d", [dict(t="f", p="d", c=b"hello\n", m=0o4755)]),
    "file_same_640": ("d", [dict(t="f", p="d", c=b"hello\n", m=0o640)]),
    "dir": ("d", [dict(t="d", p="d", m=0o755)]),
    "dir_sgid_sticky": ("d", [dict(t="d", p="d", m=0o3775)]),
    "file_sgid": ("d", [dict(t="f", p="d", c=b"hello\n", m=0o2644)]),
    "dir_full": ("d", [dict(t="d", p="d", m=0o750), dict(t="f", p="d/inner", c=b"x", m=0o644)]),
    # a directory tree: empty sub-directories (alone and in a chain), files beside them, a link inside
    "dir_tree": ("d", [dict(t="d", p="d", m=0o755), dict(t="d", p="d/empty", m=0o755), dict(t="d", p="d/chain", m=0o700), dict(t="d", p="d/chain/in", m=0o755),
                       dict(t="d", p="d/chain/in/most", m=0o755), dict(t="d", p="d/full", m=0o755), dict(t="f", p="d/full/f", c=b"x", m=0o600), dict(t="l", p="d/ln", to="d/full"),
                       # directories without owner write / search permission (a package cache unpacked read-only)
                       dict(t="d", p="d/ro", m=0o555), dict(t="d", p="d/ro/sub", m=0o500), dict(t="f", p="d/ro/sub/f", c=b"y", m=0o444)]),
    "dir_readonly": ("d", [dict(t="d", p="d", m=0o555), dict(t="d", p="d/sub", m=0o555)]),
    "link_file": ("d", [dict(t="f", p="tf", c=b"other", m=0o640), dict(t="l", p="d", to="tf")]),
    "link_dir": ("d", [dict(t="d", p="td", m=0o755), dict(t="l", p="d", to="td")]),
    "dangling": ("d", [dict(t="l", p="d", to="nowhere")]),
    "deep_absent": ("x/y/d", [dict(t="d", p="x", m=0o755)]),
}
SRC_STATES = {
    "absent": [],
    "file": [dict(t="f", p="s", c=b"hello\n", m=0o640)],
    "file_exec": [dict(t="f", p="s", c=b"#!/bin/sh\n", m=0o755)],
    "file_suid": [dict(t="f", p="s", c=b"hello\n", m=0o4755)],
    "file_044": [dict(t="f", p="s", c=b"hello\n", m=0o044)],
    "binary": [dict(t="f", p="s", c=b"\xff\xfe\x00bin", m=0o644)],
    "empty": [dict(t="f", p="s", c=b"", m=0o644)],
    "big": [dict(t="f", p="s", c=("z" * 8190 + "\u00e9\u00e9\n").encode(), m=0o644)],
    "dir": [dict(t="d", p="s", m=0o755)],
}
TEMPLATE_SRC = {
    # name -> (nodes, rendered)
    "absent": ([], None),
    "plain": ([dict(t="f", p="s", c=b"hello\n", m=0o640)], "hello\n"),
    "expr": ([dict(t="f", p="s", c=b"T {{ v }} end", m=0o755)], "T val end"),
    "expr_suid": ([dict(t="f", p="s", c=b"T {{ v }} end\n", m=0o4755)], "T val end\n"),
    "undefined": ([dict(t="f", p="s", c=b"{{ nope }}", m=0o644)], None),
    "empty": ([dict(t="f", p="s", c=b"", m=0o644)], ""),
    "big": ([dict(t="f", p="s", c=("w" * 8191 + "\u00e9\u00e9 {{ v }}\n").encode(), m=0o644)], "w" * 8191 + "\u00e9\u00e9 val\n"),
    # block tags on lines of their own: the line breaks around them are part of the text (no trim_blocks / lstrip_blocks)
    "blocks": ([dict(t="f", p="s", c=b"# hosts\n{% for h in ['a', 'b'] %}\n{{ h }} ok\n  {% endfor %}\nend {{ v }}\n{% if true %}\n\nlast\n{% endif %}", m=0o644)],
               "# hosts\n\na ok\n  \nb ok\n  \nend val\n\n\nlast\n"),
    "binary": ([dict(t="f", p="s", c=b"\xff\xfe", m=0o644)], None),
    "m044": ([dict(t="f", p="s", c=b"hello\n", m=0o044)], "hello\n"),
    "dir": ([dict(t="d", p="s", m=0o755)], None),
}
CONTENTS = ["hello\n", "hello", "", "no newline", "café ✓\n", "nul\x00inside\n"]
TEMPLATE_NAMES = [".yml", ".yaml.j2", ".json", ".html", ".htm.j2", ".xml", ".js", ".txt.j2"]
TEMPLATE_NAMED_TEXT = b"name: {{ v }}\nmarkup: {{ '<a href=\"x\">&amp;</a>' }}\nquote: {{ \"it's\" }}\n"
TEMPLATE_NAMED_RENDERED = "name: val\nmarkup: <a href=\"x\">&amp;</a>\nquote: it's\n"
BIG_CONTENTS = ["x" * 8191 + "\u00e9\u00e9\u00e9\n", "y" * 65535 + "\u2713 end"]
MODES = [None, "0644", "644", "0600", "0444", "4755", "2750", "1777", "7777", "0000", "000",
         "preserve", "abc", "99", "07777", "é75", "+644", "8644"]
FILE_MODES = [m for m in MODES if m != "preserve"]
MODES_Q = [None, "0644", "0600", "0444", "4755", "1777", "0666", "preserve", "abc", "755"]
FILE_MODES_Q = [None, "0644", "0600", "4755", "2750", "99", "0664", "1777", "755", "644"]
FILE_STATES = ["absent", "directory", "file", "touch", None]


def all_tasks(tier):
    """yield (world-nodes, task) over the product space"""
    modes = MODES if tier == "thorough" else MODES_Q
    fmodes = FILE_MODES if tier == "thorough" else FILE_MODES_Q
    for dn, (dest, dnodes) in DEST_STATES.items():
        for c in CONTENTS:
            for m in modes:
                yield dnodes, dict(kind="copy", content=c, dest=dest, mode=m)
        # contents longer than one read buffer (8 KiB, 64 KiB) with a multi-byte character across the boundary
        for c in BIG_CONTENTS:
            yield dnodes, dict(kind="copy", content=c, dest=dest, mode=None)
        for sn, snodes in SRC_STATES.items():
            for m in modes:
                yield dnodes + snodes, dict(kind="copy", src="s", dest=dest, mode=m)
        for tn, (tnodes, rendered) in TEMPLATE_SRC.items():
            for m in modes:
                yield dnodes + tnodes, dict(kind="template", src="s", dest=dest, mode=m, rendered=rendered)
        for st in FILE_STATES:
            for m in fmodes:
                yield dnodes, dict(kind="file", path=dest, state=st, mode=m)
        # template sources whose NAME ends in an extension (.yml, .html.j2 ...): the text is rendered as it is, whatever the name
        for ext in TEMPLATE_NAMES:
            yield dnodes + [dict(t="f", p="s" + ext, c=TEMPLATE_NAMED_TEXT, m=0o644)], dict(kind="template", src="s" + ext, dest=dest, mode=None, rendered=TEMPLATE_NAMED_RENDERED)


def octal_sweep_tasks():
    """every 3- and 4-digit octal mode on one representative state (C04 quantifier)"""
    for n in (3, 4):
        for digits in itertools.product("01234567", repeat=n):
            yield "".join(digits)


# ---------------------------------------------------------------- encodings
def task_yaml(t, check_kw):
    def q(s):
        return json.dumps(s)
    if t["kind"] == "copy":
        lines = ["copy:"]
        if "content" in t:
            lines.append("  content: " + q(t["content"]))
        else:
            lines.append("  src: " + q("ROOT/" + t["src"]))
        lines.append("  dest: " + q("ROOT/" + t["dest"]))
        if t["mode"] is not None:
            lines.append("  mode: " + q(t["mode"]))
    elif t["kind"] == "template":
        lines = ["template:", "  src: " + q("ROOT/" + t["src"]), "  dest: " + q("ROOT/" + t["dest"])]
        if t["mode"] is not None:
            lines.append("  mode: " + q(t["mode"]))
    elif t["kind"] == "file":
        lines = ["file:", "  path: " + q("ROOT/" + t["path"])]
        if t["state"] is not None:
            lines.append("  state: " + t["state"])
        if t["mode"] is not None:
            lines.append("  mode: " + q(t["mode"]))
    elif t["kind"] == "pacman":
        lines = ["pacman:", "  executable: " + q("ROOT/fakepacman")]
        lines.append("  name: " + json.dumps(t["names"]))
        lines.append("  state: " + t["state"])
        if t["update_cache"]:
            lines.append("  update_cache: true")
        if t["upgrade"]:
            lines.append("  upgrade: true")
        if t.get("force"):
            lines.append("  force: true")
        if t.get("extra_args"):
            lines.append("  extra_args: " + json.dumps(t["extra_args"]))
        lines.append("register: reg")
    if check_kw == "false":
        lines.append("check_mode: false")      # with --check on the command line the task is STILL in check mode
    elif check_kw:
        lines.append("check_mode: true")
    return "\n".join(lines) + "\n"


def mpath(p):
    return [x for x in p.split("/") if x]


def node_sx(n):
    if n["t"] == "f":
        return ["f", mpath(n["p"]), hx(n["c"]), n["m"]]
    if n["t"] == "d":
        return ["d", mpath(n["p"]), n["m"]]
    return ["l", mpath(n["p"]), mpath(n["to"])]


def mode_sx(m):
    if m is None:
        return "none"
    if m == "preserve":
        return "preserve"
    return ["m", hx(m)]


def fmode_sx(m):
    return "none" if m is None else ["m", hx(m)]


def task_sx(t):
    if t["kind"] == "copy":
        inp = ["content", hx(t["content"])] if "content" in t else ["src", mpath(t["src"])]
        return ["copy", inp, mpath(t["dest"]), mode_sx(t["mode"])]
    if t["kind"] == "template":
        r = "none" if t["rendered"] is None else ["some", hx(t["rendered"])]
        return ["template", mpath(t["src"]), mpath(t["dest"]), mode_sx(t["mode"]), r]
    return ["file", mpath(t["path"]), t["state"] or "file", fmode_sx(t["mode"])]


ROOTNODE = ["d", [], 0o755]


def obs_paths(nodes, tasks):
    ps = set()
    for n in nodes:
        ps.add(n["p"])
        if n["t"] == "l":
            ps.add(n["to"])
    for t in tasks:
        for k in ("dest", "src", "path"):
            if k in t:
                ps.add(t[k])
    out = set()
    for p in ps:
        comps = mpath(p)
        for i in range(1, len(comps) + 1):
            out.add("/".join(comps[:i]))
    return sorted(out)


def fs_case_sx(nodes, tasks_checks, obs, umask, tmpmode):
    return sx(["fs", ["env", umask, tmpmode], ["world", ROOTNODE] + [node_sx(n) for n in nodes],
               ["obs"] + [mpath(p) for p in obs],
               ["tasks"] + [[task_sx(t), bool(c)] for t, c in tasks_checks]])


def impl_case(nodes, tasks, check, stamps):
    """check in none|global|task"""
    world = []
    for n in nodes:
        d = dict(n)
        if "c" in d:
            d["c"] = d["c"].hex()
        world.append(d)
    # check in none | global | task | global_kwfalse (command-line check mode AND the task keyword `check_mode: false`)
    return dict(world=world, umask=UMASK, global_check=(check in ("global", "global_kwfalse")),
                tasks=[task_yaml(t, "false" if check == "global_kwfalse" else check == "task") for t in tasks], vars=V_VARS,
                sleep_ms=(6 if stamps else 0))


def prep(c, shard_id):
    c["root"] = os.path.join(C.SANDBOX, "s%d" % shard_id)


def impl_node(n):
    """canonical node from an impl snapshot entry"""
    if n is None or n["t"] == "none":
        return "none"
    if n["t"] == "f":
        return ("f", n["c"], n["m"])
    if n["t"] == "d":
        return ("d", n["m"])
    if n["t"] == "l":
        return ("l", n["to"])
    return ("other",)


def model_node(e, root):
    if e == "none":
        return "none"
    if e[0] == "f":
        return ("f", e[1][1:], int(e[2]))
    if e[0] == "d":
        return ("d", int(e[1]))
    return ("l", "/".join(e[1]))


def status_of(s):
    if s.startswith("err") or s == "panic":
        return "err" if s != "panic" else "panic"
    return s


def world_sx_from_impl(snap):
    """impl snapshot (dict rel -> node) as model world nodes"""
    out = [ROOTNODE]
    for rel in sorted(snap.keys()):
        if rel == "":
            continue
        n = snap[rel]
        if n["t"] == "f":
            out.append(["f", mpath(rel), "x" + n["c"], n["m"]])
        elif n["t"] == "d":
            out.append(["d", mpath(rel), n["m"]])
        elif n["t"] == "l":
            out.append(["l", mpath(rel), mpath(n["to"])])
    return out


# ---------------------------------------------------------------- the run
def describe(nodes, t, check):
    return dict(world=[{k: (v.hex() if isinstance(v, bytes) else v) for k, v in n.items()} for n in nodes],
                task=t, check=check)


def run_fs_cases(run, cases, stamps):
    """cases: list of (nodes, [task...], check) -> list of dict(model=..., impl=...)"""
    tm = C.probe(UMASK)["tmpmode"]
    lines, icases, obss = [], [], []
    for nodes, tasks, check in cases:
        obs = obs_paths(nodes, tasks)
        obss.append(obs)
        lines.append(fs_case_sx(nodes, [(t, check != "none") for t in tasks], obs, UMASK, tm))
        icases.append(impl_case(nodes, tasks, check, stamps))
    mouts = C.run_oracle(lines)
    iouts = C.run_harness("state", icases, prepare=prep)
    res = []
    for (nodes, tasks, check), obs, mo, io, line in zip(cases, obss, mouts, iouts, lines):
        res.append(dict(nodes=nodes, tasks=tasks, check=check, obs=obs, model=parse_sx(mo) if mo.startswith("((") else mo,
                        impl=io, line=line))
    return res


def compare_model_impl(r):
    """returns None if the mirror and the implementation agree on the observables, else text"""
    if isinstance(r["model"], str):
        return "model could not run the case: " + r["model"]
    io = r["impl"]
    if io.get("crash"):
        return "implementation harness crashed/hung"
    mres = r["model"][0][1:]
    mobs = r["model"][1][1:]
    root = "ROOT"
    for i, (mr, ir) in enumerate(zip(mres, io["results"])):
        ms, mn = mr[0], int(mr[1])
        ist = status_of(ir["status"])
        if ms != ist:
            return "task %d: model says %s, implementation says %s" % (i, ms, ir["status"])
        if (mn > 0) != (len(ir["touched"]) > 0):
            return "task %d: model performs %d managed action(s), implementation touched %r" % (i, mn, ir["touched"])
    fin = io["final"]
    for p, me in zip(r["obs"], mobs):
        a = model_node(me, root)
        b = impl_node(fin.get(p))
        if a != b:
            return "path %s: model %r, implementation %r" % (p, a, b)
    extra = [p for p in fin.keys() if p != "" and p not in r["obs"]]
    if extra:
        return "implementation left unexpected paths %r" % extra
    return None


def noninterf_queries(cases):
    """cases: list of (nodes, [task...]) -> list of bool: does the FIRST pass over the tasks meet the hypothesis
    of the sequence theorem (Sequences.second_pass_is_noop / SeqSpec.noninterf_b)?"""
    tm = C.probe(UMASK)["tmpmode"]
    lines = [sx(["noninterf", ["env", UMASK, tm], ["world", ROOTNODE] + [node_sx(n) for n in nodes], ["tasks"] + [task_sx(t) for t in tasks]])
             for nodes, tasks in cases]
    return [o.strip() == "t" for o in C.run_oracle(lines)]


def declared_queries(results):
    """ask the Coq spec whether the declared state of each (single-task) case holds in the
    IMPLEMENTATION's final state, and which known classes the case is in"""
    lines = []
    tm = C.probe(UMASK)["tmpmode"]
    for r in results:
        io = r["impl"]
        before = world_sx_from_impl(io["first"])
        after = world_sx_from_impl(io["final"])
        lines.append(sx(["declared", ["env", UMASK, tm], task_sx(r["tasks"][0]), ["world"] + after, ["before"] + before]))
    outs = C.run_oracle(lines)
    res = []
    for o in outs:
        e = parse_sx(o)
        res.append(dict(declared=e[0] == "t", k8=e[1] == "t", k9a=e[2] == "t", k9b=e[3] == "t", tmp_like_create=e[4] == "t"))
    return res
