"""C14 (transfer_pid) and C15 (become) checks on the real binary."""
import json, os, shutil, subprocess, threading, pwd
from . import common as C
from . import engine as E
from .engine import task, lit
from .common import hx, sx, parse_sx, unhx

TB14 = [
    "Coq 8.16.1 kernel; no axioms",
    "Exec.v: mirror of exec_transferring_pid's request construction (split_whitespace for cmd, argv as given, chdir) and of 'a successful exec ends the task list'",
    "Become.v: mirror of the become branch of task/mod.rs::exec_module (user lookup by name, then by u32 number; same-uid shortcut; transfer_pid drops in the main process instead of forking); expected credentials and 'no such user' come from it, evaluated on this machine's passwd database",
    "kernel contracts: execve keeps the PID; setgid/setuid drop privileges; observed through a helper process (vh execdump) that records its own pid, argv, cwd, environment, uid and gid",
    "python generator, real `rash` binary started with Popen (so the PID is known before exec)",
]
TB15 = [
    "Coq 8.16.1 kernel; no axioms",
    "JsonVal.v: value layer of serde_json::to_string(&Value) / from_str + Value::from_serialize as used for the child->parent store transfer (the JSON text layer, ipc-channel, fork and waitpid are trusted)",
    "Become.v: mirror of the become branch of exec_module: which passwd entry (uid AND primary gid) a become_user text denotes, which texts denote no user, what the main process keeps",
    "Engine.v (C01/C02) predicts nothing here: each program is run twice on the real binary, with and without become to `nobody`, and the two observations are compared",
    "harness runs as root; the sandbox directory is world-writable so that the unprivileged child can append to the marker log",
]


def nobody():
    try:
        p = pwd.getpwnam("nobody")
        return p.pw_uid, p.pw_gid
    except KeyError:
        return None


def become_texts():
    """become_user texts: nobody by name and by number, a user whose primary gid differs from its uid by name and by
    number (with `+` and leading zeros, which u32 parsing accepts), unknown names and numbers, out-of-range numbers"""
    out = []
    try:
        p = pwd.getpwnam("nobody")
        out += ["nobody", str(p.pw_uid)]
    except KeyError:
        pass
    odd = [u for u in pwd.getpwall() if u.pw_uid != u.pw_gid and u.pw_uid not in (0, 65534)]
    if odd:
        u = sorted(odd, key=lambda u: u.pw_uid)[0]
        out += [u.pw_name, str(u.pw_uid), "+%d" % u.pw_uid, "00%d" % u.pw_uid]
    return out + ["no_such_user_xyz", "54321", "4294967296", "-1", ""]


_BECOME_CACHE = {}


def model_become(user, is_command, transfer, gbecome=False, guser="root", tbecome=True):
    """what Become.v (mirror of get_task's parameter resolution and of exec_module's become branch) says for this
    passwd database and caller: (path, module creds or None, main creds).  user=None: the task has no become_user"""
    key = (user, is_command, transfer, gbecome, guser, tbecome)
    if key not in _BECOME_CACHE:
        pw = [[hx(u.pw_name), u.pw_uid, u.pw_gid] for u in pwd.getpwall()]
        o = C.run_oracle([sx(["become", ["passwd"] + pw, ["cur", os.getuid(), os.getgid()], ["global", bool(gbecome), hx(guser)],
                              ["task", bool(tbecome), "none" if user is None else hx(user), bool(is_command), bool(transfer)]])])[0]
        e = parse_sx(o)
        _BECOME_CACHE[key] = (e[0], None if e[1] == "none" else (int(e[1][1]), int(e[1][2])), (int(e[2][1]), int(e[2][2])))
    return _BECOME_CACHE[key]


def become_users():
    """(text, uid, gid) for the texts the MODEL resolves to a user other than the caller"""
    out = []
    for t in become_texts():
        path, mc, _ = model_become(t, True, True)
        if path == "drop-then-exec":
            out.append((t, mc[0], mc[1]))
    return out


def run_transfer(root, pre, argv_or_cmd, chdir, become, vh_exit, rash_env_args, post=True, missing=False, ignore=False):
    shutil.rmtree(root, ignore_errors=True)
    os.makedirs(os.path.join(root, "wd sub"))
    for extra in ("wd sub ", " wd sub", "wd sub\n"):       # directories whose names differ from it by a blank or a line feed only
        os.makedirs(os.path.join(root, extra))
        os.chmod(os.path.join(root, extra), 0o777)
    os.chmod(root, 0o777)
    open(os.path.join(root, "log"), "w").close()
    os.chmod(os.path.join(root, "log"), 0o666)
    L = ["#!/usr/bin/env rash"]
    for i in range(pre):
        L += ["- command:", "    cmd: \"echo pre%d >> %s/log\"" % (i, root)]
    L += ["- command:"]
    if isinstance(argv_or_cmd, list):
        L += ["    argv: " + json.dumps(argv_or_cmd)]
    else:
        L += ["    cmd: " + json.dumps(argv_or_cmd)]
    if chdir:
        L += ["    chdir: " + json.dumps(chdir)]
    L += ["    transfer_pid: true"]
    if become is not False and become is not None:
        L += ["  become: true", "  become_user: %s" % json.dumps(become if isinstance(become, str) else "nobody")]
    if ignore:
        L += ["  ignore_errors: true"]
    if post:
        L += ["- command:", "    cmd: \"echo post >> %s/log\"" % root]
    open(os.path.join(root, "main.rh"), "w").write("\n".join(L) + "\n")
    os.chmod(os.path.join(root, "main.rh"), 0o644)
    dump = os.path.join(root, "dump.json")
    env = dict(os.environ, VH_DUMP=dump, VH_EXIT=str(vh_exit), HOME="/root", USER="root", LOGNAME="root", VP_KEEP="kept")
    p = subprocess.Popen([C.RASH] + rash_env_args + ["--output", "raw", os.path.join(root, "main.rh")], stdout=subprocess.PIPE, stderr=subprocess.PIPE,
                         env=env, cwd=root, start_new_session=True)
    try:
        so, se = p.communicate(timeout=15)
        rc = p.returncode
    except subprocess.TimeoutExpired:
        p.kill()
        so, se, rc = b"", b"", "timeout"
    try:
        d = json.load(open(dump))
    except Exception:
        d = None
    log = open(os.path.join(root, "log")).read().split()
    return dict(pid=p.pid, rc=rc, dump=d, log=log, stderr=se.decode("utf-8", "replace")[-300:], env_given=env)


ARGS = [[], ["plain"], ["two words", ""], ["'q'", '"dq"', "$HOME", "a;b"], ["  lead", "trail  ", "\t"], ["é✓", "-x", "--"]]


def c14(run, replay=None):
    rng = run.rng
    nb = nobody()
    cases = []
    for args in ARGS:
        for chdir in (None, "wd sub", "wd sub ", " wd sub", "wd sub\n"):
            for become in ([False] + [u[0] for u in become_users()] if nb and os.geteuid() == 0 else [False]):
                for pre in (0, 2):
                    cases.append(dict(args=args, chdir=chdir, become=become, pre=pre, vh_exit=rng.choice([0, 1, 7, 42, 255]), ignore=(rng.random() < 0.3)))
    if run.tier == "quick":
        cases = rng.sample(cases, min(len(cases), 40)) + cases[:10]
    for st in range(0, 256, (51 if run.tier == "quick" else 1)):
        cases.append(dict(args=["st"], chdir=None, become=False, pre=1, vh_exit=st))
    res = [None] * len(cases)
    parts = C.shard(list(enumerate(cases)), C.NPROC)

    def work(si):
        root = os.path.join(C.SANDBOX, "x%d" % si)
        for idx, c in parts[si]:
            chdir = os.path.join(root, c["chdir"]) if c["chdir"] else None
            res[idx] = run_transfer(root, c["pre"], [C.VH, "execdump"] + c["args"], chdir, c["become"], c["vh_exit"], ["-e", "VP_FROM_E=e v=w=x", "-e", "HOME=/custom/home"],
                                    ignore=c.get("ignore", False))
            res[idx]["root"] = root
    ths = [threading.Thread(target=work, args=(i,)) for i in range(len(parts))]
    [t.start() for t in ths]
    [t.join() for t in ths]
    nontrivial = set()
    for c, o in zip(cases, res):
        desc = dict(case=c, observed={k: v for k, v in o.items() if k not in ("root", "env_given")})
        d = o["dump"]
        if d is None:
            run.violation("transfer_pid: the command did not run (rc=%s, stderr=%s)" % (o["rc"], o["stderr"]), desc)
            continue
        nontrivial.add(json.dumps(c, sort_keys=True))
        want_argv = [a.encode().hex() for a in c["args"]]
        problems = []
        if d["pid"] != o["pid"]:
            problems.append("pid %s != rash pid %s" % (d["pid"], o["pid"]))
        if d["argv"] != want_argv:
            problems.append("argv %r != %r" % (d["argv"], want_argv))
        want_cwd = os.path.realpath(os.path.join(o["root"], c["chdir"])) if c["chdir"] else os.path.realpath(o["root"])
        if os.path.realpath(d["cwd"]) != want_cwd:
            problems.append("cwd %r != %r" % (d["cwd"], want_cwd))
        if d["env"].get("VP_FROM_E") != "e v=w=x".encode().hex():
            problems.append("-e variable missing in the environment: %r" % d["env"])
        # the whole environment: what rash was started with, plus the -e pairs (which win), nothing else touched
        want_env = dict(o["env_given"], VP_FROM_E="e v=w=x", HOME="/custom/home")
        got_env = {k: bytes.fromhex(v).decode("utf-8", "replace") for k, v in d["env"].items()}
        diff = {k: (want_env.get(k), got_env.get(k)) for k in set(want_env) | set(got_env) if want_env.get(k) != got_env.get(k)}
        if diff:
            problems.append("environment differs (expected, got): %r" % diff)
        if c["become"]:
            bu = [u for u in become_users() if u[0] == c["become"]][0]
            if (d["uid"], d["gid"], d["euid"]) != (bu[1], bu[2], bu[1]):
                problems.append("credentials uid/gid %r != %r of become_user %s" % ((d["uid"], d["gid"]), (bu[1], bu[2]), bu[0]))
        if not c["become"] and d["uid"] != os.getuid():
            problems.append("uid changed without become: %r" % d["uid"])
        if o["rc"] != c["vh_exit"]:
            problems.append("exit status %r != command's %r" % (o["rc"], c["vh_exit"]))
        if o["log"] != ["pre%d" % i for i in range(c["pre"])]:
            problems.append("marker log %r: a later task ran or an earlier one did not" % o["log"])
        if problems:
            run.violation("transfer_pid: " + "; ".join(problems), desc)
    # cmd form: whitespace splitting as the model says
    cmds = ["%s execdump a b" % C.VH, "  %s   execdump\tx   y  " % C.VH, "%s execdump 'q w'" % C.VH]
    mo = C.run_oracle([sx(["splitws", hx(c)]) for c in cmds])
    root = os.path.join(C.SANDBOX, "xc")
    for c, m in zip(cmds, mo):
        words = [unhx(a).decode() for a in parse_sx(m)]
        o = run_transfer(root, 0, c, None, False, 0, [])
        got = None if o["dump"] is None else [bytes.fromhex(a).decode() for a in o["dump"]["argv"]]
        if got != words[2:]:
            run.violation("transfer_pid cmd form: arguments %r, model split_whitespace gives %r" % (got, words[2:]), dict(cmd=c, observed=o))
    # become_user that the model does not resolve: the task fails, the command is never executed, nothing later runs
    if nb and os.geteuid() == 0:
        for t in become_texts():
            path, mc, _ = model_become(t, True, True)
            if path != "user-not-found":
                continue
            o = run_transfer(root, 1, [C.VH, "execdump", "x"], None, t, 0, [])
            if o["dump"] is not None or o["rc"] in (0, "timeout") or o["log"] != ["pre0"]:
                run.violation("transfer_pid with become_user %r (no such user by the model of the lookup): rc=%r, command ran=%s, log=%r" % (t, o["rc"], o["dump"] is not None, o["log"]),
                              dict(become_user=t, observed={k: v for k, v in o.items() if k != "env_given"}))
    # the command cannot be executed: error, non-zero exit, nothing later runs
    o = run_transfer(root, 1, ["/nonexistent/prog", "x"], None, False, 0, [])
    if o["rc"] in (0, "timeout") or o["log"] != ["pre0"]:
        run.violation("transfer_pid with a missing executable: rc=%r log=%r" % (o["rc"], o["log"]), dict(observed=o))
    # a RELATIVE chdir is applied exactly once (relative to where rash was started)
    for rel, sub in (("..", ".."), ("wd sub", "wd sub"), ("./wd sub/../wd sub", "wd sub"), (".", ".")):
        rr = os.path.join(C.SANDBOX, "xrel", "start")
        o = run_transfer(rr, 0, [C.VH, "execdump", "x"], rel, False, 7, [])
        want = os.path.realpath(os.path.join(rr, sub))
        d = o["dump"]
        if d is None or os.path.realpath(d["cwd"]) != want or o["rc"] != 7:
            run.violation("transfer_pid with the relative chdir %r: expected the command to run in %s with exit 7, got cwd=%r rc=%r" % (rel, want, None if d is None else d["cwd"], o["rc"]),
                          dict(chdir=rel, observed={k: v for k, v in o.items() if k != "env_given"}))
    # a RELATIVE program with a directory part and `chdir`: the directory is changed first, the program is looked up
    # from there - even when a file of the same relative name exists where rash was started
    rroot = os.path.join(C.SANDBOX, "xr")
    shutil.rmtree(rroot, ignore_errors=True)
    os.makedirs(os.path.join(rroot, "tools"))
    os.makedirs(os.path.join(rroot, "work", "tools"))
    decoy = os.path.join(rroot, "tools", "run")
    open(decoy, "w").write("#!/bin/sh\necho '{\"decoy\": true}' > \"$VH_DUMP\"\nexit 9\n")
    os.chmod(decoy, 0o755)
    os.symlink(C.VH, os.path.join(rroot, "work", "tools", "run"))
    sc = ("#!/usr/bin/env rash\n- command:\n    argv: [./tools/run, execdump, x]\n    chdir: %s/work\n    transfer_pid: true\n" % rroot)
    open(os.path.join(rroot, "main.rh"), "w").write(sc)
    dump = os.path.join(rroot, "dump.json")
    pr = subprocess.run([C.RASH, "--output", "raw", os.path.join(rroot, "main.rh")], capture_output=True, timeout=15, cwd=rroot,
                        env=dict(os.environ, VH_DUMP=dump, VH_EXIT="42"))
    try:
        d = json.load(open(dump))
    except Exception:
        d = None
    if d is None or d.get("decoy") or pr.returncode != 42 or os.path.realpath(d["cwd"]) != os.path.realpath(os.path.join(rroot, "work")):
        run.violation("transfer_pid with chdir and a relative program ./tools/run: expected the program under the chdir directory (exit 42, cwd work), got rc=%r dump=%r" % (pr.returncode, d),
                      dict(script=sc, observed=dict(rc=pr.returncode, dump=d, stderr=pr.stderr.decode("utf-8", "replace")[-200:])))
    # argv[0]: the program is handed over under the NAME that was given - a bare name found through PATH stays that name,
    # a relative path stays relative (multi-call binaries and `$0` depend on it)
    broot = os.path.join(C.SANDBOX, "xb")
    shutil.rmtree(broot, ignore_errors=True)
    os.makedirs(os.path.join(broot, "bin"))
    os.symlink(C.VH, os.path.join(broot, "bin", "vhbare"))
    for prog, cmdform in (("vhbare", False), ("vhbare", True), ("./bin/vhbare", False), (os.path.join(broot, "bin", "vhbare"), False)):
        if cmdform:
            sc = "#!/usr/bin/env rash\n- command:\n    cmd: \"%s execdump one two\"\n    transfer_pid: true\n" % prog
        else:
            sc = "#!/usr/bin/env rash\n- command:\n    argv: [%s, execdump, one, two]\n    transfer_pid: true\n" % json.dumps(prog)
        open(os.path.join(broot, "main.rh"), "w").write(sc)
        dump = os.path.join(broot, "dump.json")
        if os.path.exists(dump):
            os.remove(dump)
        pr = subprocess.run([C.RASH, "--output", "raw", os.path.join(broot, "main.rh")], capture_output=True, timeout=15, cwd=broot,
                            env=dict(os.environ, VH_DUMP=dump, VH_EXIT="5", PATH=os.path.join(broot, "bin") + ":" + os.environ.get("PATH", "")))
        try:
            d = json.load(open(dump))
        except Exception:
            d = None
        a0 = None if d is None else bytes.fromhex(d.get("argv0", "")).decode("utf-8", "replace")
        if d is None or pr.returncode != 5 or a0 != prog or [bytes.fromhex(x).decode() for x in d["argv"]] != ["one", "two"]:
            run.violation("transfer_pid: the program given as %r (%s form) is handed over with argv[0] = %r, arguments %r, exit %r" %
                          (prog, "cmd" if cmdform else "argv", a0, None if d is None else d.get("argv"), pr.returncode),
                          dict(script=sc, observed=dict(rc=pr.returncode, dump=d, stderr=pr.stderr.decode("utf-8", "replace")[-200:])))
    # K39: transfer_pid inside a file that is included by a task with become: the include runs in the forked child, so
    # the command replaces the CHILD - another PID, and the exit status reaches rash's parent wrapped
    if nb and os.geteuid() == 0:
        kroot = os.path.join(C.SANDBOX, "xk")
        shutil.rmtree(kroot, ignore_errors=True)
        os.makedirs(kroot)
        os.chmod(kroot, 0o777)
        open(os.path.join(kroot, "sub.rh"), "w").write("#!/usr/bin/env rash\n- command:\n    argv: [%s, execdump, x]\n    transfer_pid: true\n" % C.VH)
        open(os.path.join(kroot, "main.rh"), "w").write("#!/usr/bin/env rash\n- include: %s/sub.rh\n  become: true\n  become_user: nobody\n" % kroot)
        for f in ("sub.rh", "main.rh"):
            os.chmod(os.path.join(kroot, f), 0o644)
        dump = os.path.join(kroot, "dump.json")
        p = subprocess.Popen([C.RASH, "--output", "raw", os.path.join(kroot, "main.rh")], stdout=subprocess.PIPE, stderr=subprocess.PIPE, cwd=kroot,
                             env=dict(os.environ, VH_DUMP=dump, VH_EXIT="7"))
        try:
            p.communicate(timeout=15)
        except subprocess.TimeoutExpired:
            p.kill()
        try:
            d = json.load(open(dump))
        except Exception:
            d = None
        if d is not None and d["pid"] == p.pid and p.returncode == 7:
            pass
        elif d is not None and d["pid"] != p.pid:
            run.known("K39-transfer-pid-inside-become-include", "")
        else:
            run.violation("transfer_pid inside an include run under become: rc=%r dump=%r" % (p.returncode, d), dict(observed=dict(rc=p.returncode, dump=d)))
    # K32: the hand-over fails AFTER the main process has dropped its credentials (become + transfer_pid + a program
    # that cannot be executed) and the failure is ignored: the rest of the script runs as the other user
    if nb and os.geteuid() == 0:
        sc = ("#!/usr/bin/env rash\n- command:\n    argv: [/nonexistent/prog]\n    transfer_pid: true\n  become: true\n  become_user: nobody\n  ignore_errors: true\n"
              "- command: id -u\n")
        o = E.run_impls([dict(files={"main.rh": dict(raw=sc)}, world_writable=True)], timeout=15)[0]
        if o["stdout"].strip().endswith(str(nb[0])):
            run.known("K32-credentials-lost-after-failed-handover", "")
        elif not o["stdout"].strip().endswith(str(os.getuid())):
            run.violation("become + transfer_pid + missing program + ignore_errors: unexpected behaviour %r" % o, dict(script=sc, observed=o))
    run.coverage.update(evaluations=len(cases) + len(cmds) + 1, distinct_nontrivial=len(nontrivial),
                        rule="argv contents (empty list, blanks, quotes, shell metacharacters, empty strings, UTF-8, dash words) x chdir x become (nobody and a user whose gid differs from its uid, each by name and by number) x position of the task x exit statuses "
                             "(all 0-255 in thorough); each run: PID of the helper == PID of the rash process, argv, cwd, the whole environment (-e pairs win over inherited values, nothing else differs), uid/gid, wait status, marker log; cmd form vs the model's split_whitespace; missing executable; "
                             "non-trivial = distinct cases in which the helper actually ran",
                        samples=cases[:3], traces_validated_against_impl=len(cases), trusted_base=TB14, exhaustive=False)
    run.assumptions = ["harness runs as root (needed for become)", "supplementary groups are not part of the property"]


# ---------------------------------------------------------------- C15
def with_become(files):
    out = {}
    for n, f in files.items():
        g = dict(f)
        ts = []
        for t in f["tasks"]:
            t = dict(t)
            if t["mod"][0] != 'include':
                t["become"] = True
            ts.append(t)
        g["tasks"] = ts
        out[n] = g
    return out


def c15(run, replay=None):
    from . import p_engine as PE
    rng = run.rng
    nb = nobody()
    if not nb or os.geteuid() != 0:
        run.violation("harness: become needs root and the user nobody", dict(), no_input=True)
        return
    n = 120 if run.tier == "quick" else 2000
    cases = []
    for s in range(n):
        k = rng.randint(2, 5)
        kinds = [rng.choice([0, 1, 2, 3, 4, 6, 8, 9, 10, 11, 12, 13]) for _ in range(k)]
        base = [PE.INIT] + [PE.normal_slot(kk, i + 1) for i, kk in enumerate(kinds)]
        if rng.random() < 0.5:
            pos = rng.randint(1, k)
            fk = rng.choice([0, 1, 5, 6, 9])
            base[pos] = PE.failing_slot(fk, pos, rng.choice([None, True, False]))
        # values that must survive the trip: nested / unicode / numeric / boolean come from registered results
        base.append(task(('debug', lit("<<end>> a=") + [('v', ['a'])] + lit(" b=") + [('v', ['b'])])))
        cases.append(dict(files={"main.rh": dict(tasks=base)}, desc=dict(skeleton=kinds)))
    # the histories of the C02 generator: task vars (also shadowing a store variable), loop items and registered
    # results next to probe tasks that print what is visible AFTERWARDS - a task's own vars must not outlive the task
    # under become either
    for s in range(n // 2):
        cases.append(dict(files={"main.rh": dict(tasks=PE.c02_history(rng, rng.randint(2, 6)))}, desc=dict(history=s)))
    plain = E.run_impls(cases, timeout=15)
    bec = E.run_impls([dict(c, files=with_become(c["files"]), world_writable=True) for c in cases], timeout=15)
    nontrivial = set()
    for c, a, b in zip(cases, plain, bec):
        desc = dict(script=E.file_text(c["files"]["main.rh"], "ROOT"), without_become=a, with_become=b)
        if len(a["log"]) > 0 or a["stdout"].count("\n") > 2:
            nontrivial.add(desc["script"])
        if (a["rc"], a["stdout"], a["log"], a["out"]) != (b["rc"], b["stdout"], b["log"], b["out"]):
            run.violation("become changes the result: without become rc=%r stdout=%r log=%r; with become rc=%r stdout=%r log=%r" %
                          (a["rc"], a["stdout"][-200:], a["log"], b["rc"], b["stdout"][-200:], b["log"]), desc)
    # credentials: the module runs as nobody, the main process keeps its own
    script = ("#!/usr/bin/env rash\n- command: id -u\n  become: true\n  become_user: nobody\n  register: r\n- command: id -u\n"
              "- set_vars:\n    nested: \"x\"\n- command:\n    argv: [sh, -c, \"printf '%s' 'é✓ 12 true'\"]\n  become: true\n  become_user: nobody\n  register: u\n"
              "- debug:\n    msg: \"<<u>> {{ u.output }} {{ u.extra.rc }} {{ u.changed }} {{ rash.user.uid }}\"\n")
    o = E.run_impls([dict(files={"main.rh": dict(raw=script)}, world_writable=True)], timeout=15)[0]
    want = "%d\n\n%d\n\n\n" % (nb[0], os.getuid())
    if o["rc"] != 0 or not o["stdout"].startswith(want) or ("<<u>> é✓ 12 true 0 true %d" % os.getuid()) not in o["stdout"]:
        run.violation("become credentials / registered result: %r" % o, dict(script=script, observed=o))
    # different become users in ONE run (each task names its own user, by name and by number), back and forth
    bus = become_users()
    if len(set((u, g) for _, u, g in bus)) > 1:
        order = [bus[0]] + [b for b in bus if (b[1], b[2]) != (bus[0][1], bus[0][2])][:2] + [bus[0]]
        sc = "#!/usr/bin/env rash\n" + "".join("- command: \"sh -c 'echo $(id -u):$(id -g)'\"\n  become: true\n  become_user: %s\n" % json.dumps(b[0]) for b in order) + "- command: \"sh -c 'echo $(id -u):$(id -g)'\"\n"
        o = E.run_impls([dict(files={"main.rh": dict(raw=sc)}, world_writable=True)], timeout=20)[0]
        got = [l for l in o["stdout"].split("\n") if l]
        want = ["%d:%d" % (b[1], b[2]) for b in order] + ["%d:%d" % (os.getuid(), os.getgid())]
        if o["rc"] != 0 or got != want:
            run.violation("several become users in one run (%s): expected %r, got %r (rc %r)" % (", ".join(b[0] for b in order), want, got, o["rc"]), dict(script=sc, observed=o))
    # strings with control characters and unusual code points (NEL, DEL, C1 controls, U+2028, BOM, NUL-free C0) in the
    # store and in a registered result: they cross the process boundary unchanged
    odd = ["a\u0085b", "d\u007fe", "c1\u0080\u009fz", "ls\u2028ps\u2029", "\ufeffbom", "t\tb\rc", "e\u001b[0m", "k: v # {x}", "q\"uo'te\\", "\u00e9" * 600]
    sc = "#!/usr/bin/env rash\n"
    for i, v in enumerate(odd):
        # registered outputs are not re-read as YAML (set_vars would be: K7), so the values are in the store as they are
        sc += "- command:\n    argv: [printenv, VPO%d]\n  register: o%d\n" % (i, i)
    sc += "- command:\n    argv: [printenv, VPO0]\n%s  register: r\n"
    sc += "- debug:\n    msg: \"<<odd>> {{ [%s, r.output] | tojson }}\"\n" % ", ".join("o%d.output" % i for i in range(len(odd)))
    envv = {"VPO%d" % i: v for i, v in enumerate(odd)}
    po = E.run_impls([dict(files={"main.rh": dict(raw=sc % "")}, env=envv, world_writable=True)], timeout=15)[0]
    bo = E.run_impls([dict(files={"main.rh": dict(raw=sc % "  become: true\n  become_user: nobody\n")}, env=envv, world_writable=True)], timeout=15)[0]
    lp = [l for l in po["stdout"].split("\n") if l.startswith("<<odd>>")]
    lb = [l for l in bo["stdout"].split("\n") if l.startswith("<<odd>>")]
    if po["rc"] != 0 or not lp:
        run.violation("harness: the control-character script does not run without become: %r" % po, dict(script=sc % ""), no_input=True)
    elif bo["rc"] != po["rc"] or lb != lp:
        run.violation("become changes strings with control characters: without become %r, with become rc=%r %r %s" % (lp, bo["rc"], lb, bo["stderr"][-200:]),
                      dict(script=sc % "  become: true\n  become_user: nobody\n", without_become=po, with_become=bo))
    # every way of naming the user: uid AND primary gid of the passwd entry, inside; the caller's own, after
    # the same user id written as a YAML NUMBER (K47: it used to be ignored and the task ran as root)
    for bu, uid, gid in become_users():
        if bu.isdigit():
            sc = "#!/usr/bin/env rash\n- command: id -u\n  become: true\n  become_user: %s\n- command: id -g\n  become: true\n  become_user: %s\n" % (bu, bu)
            o = E.run_impls([dict(files={"main.rh": dict(raw=sc)}, world_writable=True)], timeout=15)[0]
            if o["rc"] != 0 or o["stdout"] != "%d\n\n%d\n\n" % (uid, gid):
                run.violation("become_user: %s (unquoted number): expected uid/gid %d/%d, got stdout %r (rc %r)" % (bu, uid, gid, o["stdout"], o["rc"]), dict(script=sc, observed=o))
    for bu in become_texts():
        path, mc, mainc = model_become(bu, True, False)
        if path == "user-not-found":
            sc = "#!/usr/bin/env rash\n- command: id -u\n  become: true\n  become_user: %s\n- command: id -u\n" % json.dumps(bu)
            o = E.run_impls([dict(files={"main.rh": dict(raw=sc)}, world_writable=True)], timeout=15)[0]
            if o["rc"] in (0, "timeout") or o["stdout"].strip() != "":
                run.violation("become_user %r is not a user (by the model of the lookup) but the task did not fail cleanly: rc=%r stdout=%r" % (bu, o["rc"], o["stdout"]),
                              dict(script=sc, observed=o))
            continue
        uid, gid = mc
        if mainc != (os.getuid(), os.getgid()):
            run.violation("model: main credentials change without transfer_pid", dict(model=(path, mc, mainc)), no_input=True)
        sc = ("#!/usr/bin/env rash\n- command: id -u\n  become: true\n  become_user: %s\n- command: id -g\n  become: true\n  become_user: %s\n- command: id -u\n- command: id -g\n"
              % (json.dumps(bu), json.dumps(bu)))
        o = E.run_impls([dict(files={"main.rh": dict(raw=sc)}, world_writable=True)], timeout=15)[0]
        want = "%d\n\n%d\n\n%d\n\n%d\n\n" % (uid, gid, os.getuid(), os.getgid())
        if o["rc"] != 0 or o["stdout"] != want:
            run.violation("become_user %s: expected uid/gid %d/%d inside and %d/%d afterwards, got stdout %r (rc %r)" % (bu, uid, gid, os.getuid(), os.getgid(), o["stdout"], o["rc"]),
                          dict(script=sc, observed=o))
    # a become task that overwrites variables with values that are EQUAL IN JINJA'S LOOSE SENSE but not the same
    # (1 -> 1.0, 2.0 -> 2, 1 -> true, 0 -> false, flat and nested): the writes must arrive like without become
    wr = ("- set_vars:\n    count: 1\n    ratio: 2.0\n    flag: 1\n    off: 0\n    ports: [1, 2]\n    conf: {retries: 1}\n"
          "- set_vars:\n    count: 1.0\n    ratio: 2\n    flag: true\n    off: false\n    ports: [1.0, 2]\n    conf: {retries: true}\n%s"
          "- debug:\n    msg: \"<<w>> {{ count | tojson }} {{ ratio | tojson }} {{ flag | tojson }} {{ off | tojson }} {{ ports | tojson }} {{ conf | tojson }}\"\n")
    plain_o = E.run_impls([dict(files={"main.rh": dict(raw="#!/usr/bin/env rash\n" + wr % "")}, world_writable=True)], timeout=15)[0]
    bec_o = E.run_impls([dict(files={"main.rh": dict(raw="#!/usr/bin/env rash\n" + wr % "  become: true\n  become_user: nobody\n")}, world_writable=True)], timeout=15)[0]
    if plain_o["rc"] != 0 or (plain_o["rc"], plain_o["stdout"]) != (bec_o["rc"], bec_o["stdout"]):
        run.violation("become changes the result of loosely-equal overwrites: without become %r, with become %r" % (plain_o["stdout"][-160:], bec_o["stdout"][-160:]),
                      dict(script=wr, without_become=plain_o, with_become=bec_o))
    # a module that simply takes a while (longer than any plausible transfer timeout) under become
    slow = ("#!/usr/bin/env rash\n- command: \"sh -c 'sleep %d; echo done-sleeping'\"\n  become: true\n  become_user: nobody\n  register: r\n"
            "- debug:\n    msg: \"<<slow>> {{ r.output | trim }} {{ r.extra.rc }}\"\n") % (7 if run.tier == "quick" else 35)
    o = E.run_impls([dict(files={"main.rh": dict(raw=slow)}, world_writable=True)], timeout=90)[0]
    if o["rc"] != 0 or "<<slow>> done-sleeping 0" not in o["stdout"]:
        run.violation("a become task that runs for several seconds: rc=%r stdout tail %r stderr %r" % (o["rc"], o["stdout"][-120:], o["stderr"][-120:]), dict(script=slow, observed=o))
    # K38: a non-finite number in the store does not survive the JSON trip of a become task
    sc = ("#!/usr/bin/env rash\n- set_vars:\n    x: .inf\n    y: 1.5\n- debug:\n    msg: \"before {{ x }} {{ y }}\"\n- command: \"true\"\n  become: true\n  become_user: nobody\n"
          "- debug:\n    msg: \"after {{ x }} {{ y }}\"\n")
    o = E.run_impls([dict(files={"main.rh": dict(raw=sc)}, world_writable=True)], timeout=15)[0]
    if "before inf 1.5" in o["stdout"] and "after inf 1.5" not in o["stdout"]:
        if "after none 1.5" in o["stdout"]:
            run.known("K38-non-finite-number-lost-under-become", "")
        else:
            run.violation("become changes a variable it does not touch: %r" % o["stdout"], dict(script=sc, observed=o))
    elif o["rc"] != 0:
        run.violation("become with a non-finite number in the store: rc %r stdout %r" % (o["rc"], o["stdout"]), dict(script=sc, observed=o))
    # a large variable store crossing the process boundary (K31: about 1 MB used to deadlock): under a deadline
    # K51: a mapping with a non-string key in the store: JSON object keys are strings, the key arrives as "1"
    sc = ("#!/usr/bin/env rash\n- set_vars:\n    m: \"{{ {1: 'a'} }}\"\n- debug:\n    msg: \"before {{ m[1] | default('UNDEF') }}\"\n- command: \"true\"\n  become: true\n  become_user: nobody\n"
          "- debug:\n    msg: \"after {{ m[1] | default('UNDEF') }}\"\n")
    o = E.run_impls([dict(files={"main.rh": dict(raw=sc)}, world_writable=True)], timeout=15)[0]
    if "before a" in o["stdout"] and "after a" not in o["stdout"]:
        if "after UNDEF" in o["stdout"]:
            run.known("K51-non-string-keys-stringified-under-become", "")
        else:
            run.violation("become changes a variable it does not touch (mapping with a numeric key): %r" % o["stdout"], dict(script=sc, observed=o))
    elif o["rc"] != 0 or "before a" not in o["stdout"]:
        run.violation("become with a numeric-key mapping in the store: rc %r stdout %r" % (o["rc"], o["stdout"]), dict(script=sc, observed=o))
    big = ("#!/usr/bin/env rash\n- set_vars:\n    big: \"{{ 'x' * 2000000 }}\"\n- command: id -u\n  become: true\n  become_user: nobody\n  register: r\n"
           "- debug:\n    msg: \"<<big>> {{ big | length }} {{ r.output }}\"\n")
    o = E.run_impls([dict(files={"main.rh": dict(raw=big)}, world_writable=True)], timeout=30)[0]
    if o["rc"] != 0 or ("<<big>> 2000000 %d" % nb[0]) not in o["stdout"]:
        run.violation("become with a 2 MB variable in the store: rc=%r (timeout = hang), stdout tail %r" % (o["rc"], o["stdout"][-120:]), dict(script=big, observed=dict(rc=o["rc"], stderr=o["stderr"])))
    # command line x task keywords: --become applies to every task, a task's own become_user wins over -u
    daemon = None
    try:
        daemon = pwd.getpwnam("daemon")
    except KeyError:
        pass
    # check mode does not change WHO runs the module: `command` (which runs in check mode too) must still see the target user
    for gargs, kw in ((["--check"], False), ([], True), (["-c"], True)):
        sc = ("#!/usr/bin/env rash\n- command: id -u\n  become: true\n  become_user: nobody\n" + ("  check_mode: true\n" if kw else "") +
              "- command: id -g\n  become: true\n  become_user: nobody\n" + ("  check_mode: true\n" if kw else ""))
        o = E.run_impls([dict(files={"main.rh": dict(raw=sc)}, world_writable=True, rash_args=gargs)], timeout=15)[0]
        if o["rc"] != 0 or o["stdout"] != "%d\n\n%d\n\n" % (nb[0], nb[1]):
            run.violation("become in check mode (%s%s): the command did not run as nobody: stdout %r rc %r" % (" ".join(gargs), " check_mode: true" if kw else "", o["stdout"], o["rc"]),
                          dict(script=sc, rash_args=gargs, observed=o))
    combos = [([], False, "root"), (["-b"], True, "root")]
    if daemon:
        combos += [(["-b", "-u", "daemon"], True, "daemon"), (["-u", "daemon"], False, "daemon")]
    for gargs, gb, gu in combos:
        for tb, tu in ((True, "nobody"), (False, "nobody"), (True, None), (False, None)):
            path, mc, mainc = model_become(tu, True, False, gbecome=gb, guser=gu, tbecome=tb)
            L = ["#!/usr/bin/env rash", "- command: id -u"] + (["  become: true"] if tb else []) + (["  become_user: %s" % tu] if tu else []) + \
                ["- command: id -g"] + (["  become: true"] if tb else []) + (["  become_user: %s" % tu] if tu else [])
            sc = "\n".join(L) + "\n"
            o = E.run_impls([dict(files={"main.rh": dict(raw=sc)}, world_writable=True, rash_args=gargs)], timeout=15)[0]
            if mc is None:
                continue
            want = "%d\n\n%d\n\n" % mc
            if o["rc"] != 0 or o["stdout"] != want:
                run.violation("rash %s with task become=%s become_user=%s: the model of the parameter resolution says uid/gid %r, got stdout %r (rc %r)" %
                              (" ".join(gargs), tb, tu, mc, o["stdout"], o["rc"]), dict(script=sc, rash_args=gargs, observed=o))
    # become on an INCLUDE task: the tasks of the included file run as that user (uid and gid), what they write reaches the
    # tasks after the include, which run with the main process's own credentials again
    incb = "#!/usr/bin/env rash\n- command: id -u\n- command: id -g\n- set_vars:\n    fromInc: \"h\u00e9llo\"\n"
    for bu, uid, gid in become_users():
        mainb = ("#!/usr/bin/env rash\n- include: ROOT/incb.rh\n  become: true\n  become_user: %s\n- command: id -u\n- debug:\n    msg: \"seen {{ fromInc | default('LOST') }}\"\n" % json.dumps(bu))
        o = E.run_impls([dict(files={"main.rh": dict(raw=mainb), "incb.rh": dict(raw=incb)}, world_writable=True)], timeout=15)[0]
        lines = [l for l in o["stdout"].split("\n") if l]
        if o["rc"] != 0 or lines[:3] != [str(uid), str(gid), str(os.getuid())]:
            run.violation("include with become_user %s: expected uid/gid %d/%d inside the included file and %d afterwards, got %r (rc %r)" % (bu, uid, gid, os.getuid(), lines, o["rc"]),
                          dict(main=mainb, included=incb, observed=o))
        elif not any(l.startswith("seen ") for l in lines):
            run.violation("include with become: the run did not reach the task after the include: %r" % lines, dict(main=mainb, included=incb, observed=o))
    # K17: a failing become task inside an include that has ignore_errors
    inc = "#!/usr/bin/env rash\n- command: \"false\"\n  become: true\n  become_user: nobody\n- command: \"echo incafter >> ROOT/log\"\n"
    main = "#!/usr/bin/env rash\n- include: ROOT/inc.rh\n  ignore_errors: true\n- command: \"id -u >> ROOT/log\"\n"
    o = E.run_impls([dict(files={"main.rh": dict(raw=main), "inc.rh": dict(raw=inc)}, world_writable=True)], timeout=6)[0]
    if o["rc"] == "timeout" or str(nb[0]) in o["log"]:
        run.known("K17-become-child-escapes", "")
    elif o["log"] != [str(os.getuid())]:
        run.violation("become + include + ignore_errors: unexpected behaviour %r" % o, dict(main=main, inc=inc, observed=o))
    run.coverage.update(evaluations=2 * len(cases) + 2, distinct_nontrivial=len(nontrivial),
                        rule="programs of the C01/C02 generators (loops, when, set_vars, register, vars, ignored and unignored failures at random positions) run twice on the real binary: as is, and with become: true (user nobody) on every task; "
                             "stdout, exit status, marker log and created files must be identical; plus uid inside/outside become, a registered unicode/numeric/boolean result crossing the process boundary, and the K17 witness; "
                             "non-trivial = distinct programs with at least one effect or three output records",
                        samples=[E.file_text(c["files"]["main.rh"], "ROOT") for c in cases[:2]], traces_validated_against_impl=2 * len(cases),
                        trusted_base=TB15, exhaustive=False)
    run.assumptions = ["harness runs as root; target user nobody", "every run under a deadline (K17 hangs)"]


PROPS = {"C14": c14, "C15": c15}
