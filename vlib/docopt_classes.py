"""Syntactic classes of usages on which rash's docopt is known to deviate from the
documented language (recorded findings K12/K13)."""
from .docopt import walk


def classes_of(lines):
    cl = set()
    for l in lines:
        for n in walk(l):
            if n[0] == 'rep':
                inner = list(walk(n[1]))
                if any(x[0] == 'cmd' for x in inner):
                    cl.add("rep-has-command")
                if any(x[0] == 'alt' for x in inner):
                    cl.add("rep-has-alt")
                if any(x[0] in ('opt', 'anyopts') for x in inner):
                    cl.add("rep-has-option")
            if n[0] == 'alt' and any(x[0] == 'opt' for c in n[1] for x in walk(c)):
                cl.add("option-alternation")
            # an alternation one of whose branches contains another alternation (inside a group or an optional): the
            # parenthesised text is split at every `|`, whatever its depth
            if n[0] == 'alt' and any(x[0] == 'alt' for c in n[1] for x in walk(c) if x is not n):
                cl.add("nested-alternation")
            # `[a <x> | b]`: inside brackets (without parentheses) the bar only alternates the two words next to it
            if n[0] == 'optional' and n[1][0] == 'alt' and any(c[0] == 'seq' and len(c[1]) > 1 for c in n[1][1]):
                cl.add("optional-alternation-of-sequences")
        nodes = list(walk(l))
        has_opt = any(x[0] in ('opt', 'anyopts') for x in nodes)
        if has_opt and any(x[0] == 'rep' for x in nodes):
            cl.add("repeat-with-options")
        for n in nodes:
            if n[0] == 'optional' and n[1][0] in ('seq', 'group', 'alt'):
                inner = list(walk(n[1]))
                if any(x[0] == 'opt' for x in inner) and len([x for x in inner if x[0] in ('cmd', 'pos', 'opt')]) > 1:
                    cl.add("option-in-compound-optional")
        for n in nodes:
            if n[0] == 'rep':
                body = [x for x in walk(n[1]) if x[0] in ('cmd', 'pos')]
                others = [x for x in nodes if x[0] in ('optional', 'rep') and x is not n and x not in list(walk(n))]
                if len(body) > 1 and others:
                    cl.add("group-repeat-beside-optional")
        # two repeated elements in one pattern (neither inside the other): both are sized from the same count, so argument
        # vectors in which both repeat more than once are rejected (`prog <y>... a <x>...` rejects `b a b b`)
        reps = [n for n in nodes if n[0] == 'rep']
        if any(r1 is not r2 and not any(z is r2 for z in walk(r1)) and not any(z is r1 for z in walk(r2)) for r1 in reps for r2 in reps):
            cl.add("two-repeated-elements")
        names = [x[1] for x in walk(l) if x[0] == 'pos']
        if len(names) != len(set(names)):
            cl.add("same-positional-twice")
    # `[options]` on one line while another (or the same) line names an option of the section explicitly: like docopt,
    # rash then removes that option from EVERY `[options]`, which the documentation does not say
    allnodes = [n for l in lines for n in walk(l)]
    if any(n[0] == 'anyopts' for n in allnodes) and any(n[0] == 'opt' for n in allnodes):
        cl.add("options-shortcut-beside-explicit-option")
    return sorted(cl)


VALUED_SPELLINGS = ("-o", "--out", "--level", "-s", "--speed", "-m", "--mode", "--depth", "--allow", "-d", "--out-dir", "--ip", "--select", "--range")


def k12_dangling_value(argv):
    """a valued option given without inline value whose next word is missing or looks like an option"""
    for i, w in enumerate(argv):
        # `-o=` (short form, `=`, no value) is treated like a bare `-o`: the value is taken from the next word
        bare = w[:-1] if (len(w) == 3 and w[0] == "-" and w[1] != "-" and w.endswith("=")) else w
        if bare in VALUED_SPELLINGS and (bare != w or i + 1 == len(argv) or argv[i + 1].startswith("-")):
            return True
    return False


def k45_bare_dash(argv):
    """the words `-` and `--` (docopt: a positional / the options terminator; rash drops or rejects them)"""
    return any(w in ("-", "--") for w in argv)


def k46_dash_value(argv):
    """an inline option value that itself starts with a dash (`--out=-1`, `-o-1`): split off and read as an option"""
    for w in argv:
        if w.startswith("--") and "=" in w and w.split("=", 1)[1].startswith("-"):
            return True
        if len(w) > 2 and w[0] == "-" and w[1] != "-" and ("-" + w[1]) in VALUED_SPELLINGS and w[2:].lstrip("=").startswith("-"):
            return True
    return False


def k20_dash_positional(js):
    """the implementation bound a positional to a word that starts with a dash"""
    for k, v in js.items():
        if k == "options":
            continue
        for x in (v if isinstance(v, list) else [v]):
            if isinstance(x, str) and x.startswith("-"):
                return True
    return False
