#!/bin/bash
# usage: tools/pin_docopt.sh [<commit>]   -- vendors /repo's docopt module at <commit> (default HEAD) into the harness as
# `pinned_docopt`: the version on which the docopt known findings (K12, K13-*, K20) were recorded.  A failing pair inside
# a known class counts as that finding only if this frozen version fails it in the same way.
c=${1:-HEAD}
d=/verif/harness/src/pinned_docopt
mkdir -p $d
for f in mod options utils; do
  git -C /repo show $c:rash_core/src/docopt/$f.rs | python3 -c '
import sys,re
s=sys.stdin.read()
i=s.find("#[cfg(test)]\nmod tests")
if i>=0: s=s[:i]
s=s.replace("crate::docopt::utils","super::utils").replace("crate::error","rash_core::error").replace("crate::utils::merge_json","rash_core::utils::merge_json")
hdr="// VENDORED by tools/pin_docopt.sh - do not edit.\n#![allow(dead_code, unused_imports, clippy::all)]\nuse log::trace;\nuse serde_json::json;\n"
sys.stdout.write(hdr+s)
' > $d/$f.rs
done
git -C /repo rev-parse --short $c > $d/COMMIT
echo "pinned docopt at $(cat $d/COMMIT)"
