#!/bin/bash
# usage: tools/seedtest.sh <worktree> <mutant-dir> <prop> [<prop>...]
# confirms a seeded change (tests pass, demo fails with / passes without), then runs our checks against it in /repo
wt=$1; m=$2; shift 2
export CARGO_TARGET_DIR=$wt/target CARGO_NET_OFFLINE=true
cd $wt && git checkout -q -- . && git apply $m/patch.diff || { echo "PATCH DOES NOT APPLY"; exit 2; }
for f in $m/seed_demo_*.rs; do [ -f "$f" ] && cp $f rash_core/tests/; done
echo "== existing tests with patch"; cargo test --workspace --offline 2>&1 | grep -E "^test result|FAILED|failed" | grep -v "seed_demo" | sort | uniq -c | head
cargo build --offline -p rash_core --bin rash 2>&1 | tail -1
echo "== demo with patch"
if [ -f $m/demo.sh ]; then RASH=$wt/target/debug/rash bash $m/demo.sh >/dev/null 2>&1; echo "demo exit=$?"; fi
for f in $m/seed_demo_*.rs; do [ -f "$f" ] && { t=$(basename $f .rs); cargo test --offline -p rash_core --test $t 2>&1 | grep -E "^test result" ; }; done
git checkout -q -- . ; rm -f rash_core/tests/seed_demo_*.rs
for f in $m/seed_demo_*.rs; do [ -f "$f" ] && cp $f rash_core/tests/; done
cargo build --offline -p rash_core --bin rash 2>&1 | tail -1
echo "== demo without patch"
if [ -f $m/demo.sh ]; then RASH=$wt/target/debug/rash bash $m/demo.sh >/dev/null 2>&1; echo "demo exit=$?"; fi
for f in $m/seed_demo_*.rs; do [ -f "$f" ] && { t=$(basename $f .rs); cargo test --offline -p rash_core --test $t 2>&1 | grep -E "^test result" ; }; done
rm -f rash_core/tests/seed_demo_*.rs
echo "== our checks against the patch in /repo"
cd /repo && git apply $m/patch.diff || { echo "PATCH DOES NOT APPLY TO /repo"; exit 2; }
for p in "$@"; do (cd /verif && ./check $p 2>&1 | grep -v conda | grep -E "VIOLATION|quick:|KNOWN" | cut -c1-300); done
git -C /repo checkout -- .
echo "== /repo restored: $(git -C /repo status --short | wc -l) modified files"
