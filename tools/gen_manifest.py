#!/usr/bin/env python3
"""Regenerates MANIFEST.json from the table below (kept in one place so that it stays valid)."""
import json, os
V = os.path.dirname(os.path.dirname(os.path.abspath(__file__)))
ALL = ["C%02d" % i for i in range(1, 18)]
NOTE_COMMON = ("Trusted: Coq 8.16.1 kernel incl. vm_compute (no native_compute), no axioms (Print Assumptions of every pinned theorem: "
               "closed under the global context), extraction with ExtrOcamlBasic+ExtrOcamlString only, ocaml/main.ml, the Rust harness and python "
               "generators/canonicalisation. The Coq models are hand-written; what ties them to /repo is the correspondence run of every check. ")
CHECKS = {
 "C03": dict(
   text="Theorems (all parameters, all worlds, all outcomes): in check mode the mirror of copy/template/file performs no managed file-system action and returns the identical world; "
        "the pacman mirror issues only read-only queries; both ways of enabling check mode give check=true. Tie to the code: the mirror and rash_core are run on the product of "
        "module x mode x destination state x source state x both check-mode switches (and pacman db states x params) and must agree on status, final tree and whether anything was touched; "
        "independently every implementation run is judged directly (deep lstat snapshot incl. mtime/ctime before/after, fakepacman request log).",
   note=NOTE_COMMON + "Modelled not verified: StateMods.v, Pacman.v, Fs.v (kernel file semantics as root, no EACCES). fakepacman stands for pacman.",
   technique="Coq proof over a mirror model (no-action-in-check-mode theorems) + differential correspondence against rash_core in-process",
   design="5/C03"),
}
REASONS = {p: "not yet built in this revision (see DESIGN.md section 9b build order)" for p in ALL}

def main():
    checks = []
    for pid in ALL:
        if pid not in CHECKS:
            continue
        c = CHECKS[pid]
        checks.append(dict(
            property_id=pid,
            quick_cmd="./check %s --tier quick" % pid,
            thorough_cmd="./check %s --tier thorough" % pid,
            evidence_file="/verif/evidence/%s.json" % pid,
            replay_cmd_template="./check %s --replay {path}" % pid,
            engine="coq-mirror+correspondence",
            level_claimed=dict(category="proof", text=c["text"], design_ref=c["design"]),
            level_note=c["note"],
            technique=c["technique"]))
    hooks = json.load(open(os.path.join(V, "tools", "hooks.json")))
    m = dict(
        version=1,
        setup_cmd="./check setup",
        hooks=hooks,
        engines=[dict(name="coq-mirror+correspondence", path="/verif/coq, /verif/ocaml, /verif/harness, /verif/vlib",
                      serves_properties=[c["property_id"] for c in checks],
                      kind_free_text="Coq 8.16 development (models + theorems), extracted OCaml oracle, Rust harness linking /repo/rash_core by path, python driver ./check")],
        checks=checks,
        notes="Known findings are listed in /verif/known_findings.json (never written at run time). Fixes made to /repo are 'fix:' commits recorded there as status=fixed.",
        not_applicable=[dict(property_id=p, reason=REASONS[p]) for p in ALL if p not in CHECKS])
    json.dump(m, open(os.path.join(V, "MANIFEST.json"), "w"), indent=1)

if __name__ == "__main__":
    main()
