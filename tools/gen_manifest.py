#!/usr/bin/env python3
"""Regenerates MANIFEST.json from the table below (kept in one place so that it stays valid)."""
import json, os
V = os.path.dirname(os.path.dirname(os.path.abspath(__file__)))
ALL = ["C%02d" % i for i in range(1, 18)]
NOTE_COMMON = ("Trusted: Coq 8.16.1 kernel incl. vm_compute (no native_compute), no axioms (Print Assumptions of every pinned theorem: "
               "closed under the global context), extraction with ExtrOcamlBasic+ExtrOcamlString only, ocaml/main.ml, the Rust harness and python "
               "generators/canonicalisation. The Coq models are hand-written; what ties them to /repo is the correspondence run of every check. ")
CHECKS = {
 "C03": dict(
   text="Theorems (all parameters, all worlds, all outcomes): in check mode the mirror of copy/template/file performs no managed file-system action and returns the identical world; "
        "the pacman mirror issues only read-only queries; both ways of enabling check mode give check=true. Tie to the code: the mirror and rash_core are run on the product of "
        "module x mode x destination state x source state x both check-mode switches (and pacman db states x params) and must agree on status, final tree and whether anything was touched; "
        "independently every implementation run is judged directly (deep lstat snapshot incl. mtime/ctime before/after, fakepacman request log).",
   note=NOTE_COMMON + "Modelled not verified: StateMods.v, Pacman.v, Fs.v (kernel file semantics as root, no EACCES). fakepacman stands for pacman.",
   technique="Coq proof over a mirror model (no-action-in-check-mode theorems) + differential correspondence against rash_core in-process",
   design="5/C03"),
}
CHECKS.update({
 "C04": dict(
   text="Theorems, for all contents (any byte string), modes, parameters and worlds: a successful real run of the copy/template/file mirror leaves the declared state (exact content, exact permission bits, absent / directory / regular file) - outside the recorded classes K9; `ok` means no action at all (outside K8) and `changed` means the target observably differs; "
        "every 3- and 4-digit octal string denotes exactly its value (finite sweep lifted by forallb_forall); pacman reaches the declared package sets and reports changed iff the database changes (outside K19). _refuted witnesses for K8/K9/K19 are proved by vm_compute. "
        "Tie: mirror vs rash_core on the product space + every octal mode (sampled in quick), and the Coq predicate declared_b is evaluated on the implementation's own before/after snapshots.",
   note=NOTE_COMMON + "Scope restrictions of the theorems: source and destination are different files (no_alias), file paths non-empty. Modelled not verified: StateMods.v, Pacman.v, Fs.v. Known findings K8, K9, K19 are suppressed by class only.",
   technique="Coq proof (declared-state, changed-iff, octal sweep) over a mirror model + differential correspondence; Coq spec predicate judged on implementation snapshots",
   design="5/C04"),
 "C05": dict(
   text="Theorems: after any successful real run the identical copy/template/file task, run on the world it left, returns ok with the action log untouched (so no write, chmod, create or unlink and hence no timestamp change); pacman has nothing left to install/remove (outside K19); a pass over tasks that are stable in the reached world is a no-op. "
        "Tie: every product case applied twice and random sequences applied twice on the real file system with mtime/ctime snapshots; mirror must agree step by step.",
   note=NOTE_COMMON + "Sequences: Frame.v proves that a task's outcome depends only on the nodes at the prefixes of its target and source (no symbolic link among them); Sequences.v proves that the second pass over ANY task list is a no-op reported ok whenever the first pass meets the decidable condition noninterf_b (every task succeeds and the rest of the pass leaves what it reads untouched) - a sequence whose tasks undo each other genuinely does not converge (seq_bad). The oracle evaluates noninterf_b on every generated sequence; a sequence is judged exactly when it holds.",
   technique="Coq proof (idempotence via declared-state fixed point) over a mirror model + differential correspondence with timestamp snapshots",
   design="5/C05"),
 "C06": dict(
   text="Theorems: whenever the check-mode run and the real run of the copy/template/file mirror both succeed they report the same changed flag (outside K8), check-mode ok implies the real run performs no action; the pacman mirror reports identical changed/installed/removed/upgraded in both modes (after the fix of K10). "
        "Tie: each product case is run twice on identical sandboxes (check vs real) against rash_core and the mirror.",
   note=NOTE_COMMON + "Hypothesis tmp_like_create (the anonymous file check mode opens gets the creation mode) is probed per umask and checked by the run. A run where check mode reports a status and the real run FAILS is a misprediction too: known (K28) exactly where the mirror of the pinned code says the same, a violation otherwise. pacman: K24 (check mode cannot refresh). Named-pipe destinations are judged on the implementation alone (Fs.v has no such node).",
   technique="Coq proof (check/real decision equivalence) over a mirror model + paired differential runs",
   design="5/C06"),
})
NOTE_DOC = (NOTE_COMMON + "Tail.v is a MIRROR of the last stage of docopt::parse (word classification, `+` propagation, seeding, first matching usage in sorted order, per-word binding, merge_json, help check), fed through the rash_verif hook with the normalised argv, the sorted expanded usages and the option descriptors the code itself computed; on ~6000 sampled pairs per C07 run its JSON must equal the implementation's exactly. "
            "Usage.v is a REFERENCE model written from rash_book/src/syntax.md and parser.md, not a mirror of the regex-rewriting parser (parse_usage/parse_doc/expand_usages/extend_usages are not modelled; parse_help is, HelpDoc.v): "
            "the theorems certify the oracle; the code is tied to it by the bounded sweep (usage sections of 1-3 elements, 1-2 lines; argv length <= 4/5) plus targeted families (option names sharing a prefix, long repeated groups with options, [options] beside explicit options, defaults followed by text, values containing `=`; three option tables). "
            "Known docopt findings (usage-level classes K13-*, argv-level K12, result-level K20) are delimited by the FROZEN version of the module on which they were recorded (harness/src/pinned_docopt): a failing pair inside a class is that finding only if the frozen version fails it identically; any other wrong outcome is a new violation. ")
CHECKS.update({
 "C07": dict(
   text="Theorems: the executable reference matcher accepts with bindings b iff the inductive relation Matches (documented language) holds (soundness and completeness, by induction on pattern/derivation, no bound on pattern or argv size); every derivation accounts for every token exactly once and in order; the rearrangement check is sound; on the tail mirror a matching usage binds every argument once, positionals verbatim. "
        "Tie: tail mirror = implementation (exact JSON) on sampled pairs; and for every enumerated (usage, argv) pair the implementation accepts, its variables must equal one of the reference bindings of argv or of a Coq-validated rearrangement of its option tokens.",
   note=NOTE_DOC, technique="Coq-verified reference matcher (sound+complete) + bounded exhaustive differential sweep against docopt::parse", design="5/C07"),
 "C08": dict(
   text="Theorems: soundness and completeness of the reference matcher (a reported rejection is a real member of the documented language, none is missed) and the language laws Repeat-unroll, zero-or-more two ways, usage lines = alternation. "
        "Tie: every pair the reference accepts must be accepted by the implementation, outside the recorded usage classes.",
   note=NOTE_DOC + "This is the property where the proof says least about the code itself.", technique="Coq-verified reference matcher + bounded exhaustive differential sweep", design="5/C08"),
 "C09": dict(
   text="Theorem: choosing the first matching usage of the SORTED expanded usages is independent of the order the hash set yields them (insertion sort is canonical on permutations: total antisymmetric transitive byte order, proved for Coq strings), with the pre-fix first-match-in-iteration-order refuted by witness (K11, fixed); the same for the whole tail mirror (acceptance and variables). The order the code tries the usages in (hook) must equal Coq's sort of the same strings. "
        "OptLookup.v: the repaired Options::find is the minimum of the matching descriptions in the derived order of OptionArg, which is proved to be a total order; the lookup is invariant under every permutation of the description set (K49, fixed: the first match was not) and equals the Tail mirror's lookup when no name is shared. "
        "Tie: every accepted pair (and a sample of rejected ones) is re-parsed 8/16 times in one process and in a different process; any two differing outcomes are a violation; 1350 document/argv pairs whose option descriptions SHARE names are re-parsed as well, and the description the code answers with must be the model's.",
   note=NOTE_DOC + "That std's RandomState really produces different iteration orders is runtime behaviour (observed before the fix: 23/17 split in 40 calls). The model `choose` is not executed against the code (the matcher it abstracts over is the code's own).",
   technique="Coq proof of order-independence of sorted choice + repeated-parse determinism sweep", design="5/C09"),
 "C10": dict(
   text="Theorem: every documented spelling of a token sequence (short/long, --opt=V, --opt V, -oV, -o V, -o=V, stacked flags) canonicalises to that sequence for every well-formed option table (the sweep's table is proved well-formed), hence equivalent spellings denote the same tokens; on the tail mirror every declared option key is present in the initial variables. "
        "Tie: every accepted pair with options is re-spelled in all documented ways; a re-spelling is judged only if Coq's canon gives the same tokens; the implementation's variables must be identical, and every accepted result must contain every declared option key and every command key.",
   note=NOTE_DOC, technique="Coq proof (canonicalisation of spellings) + differential re-spelling sweep and shape check", design="5/C10"),
})
NOTE_ENG = (NOTE_COMMON + "Engine.v is a hand-written mirror of Context::exec / Task::exec / exec_module / exec_module_rendered / render_map / set_vars / include / main with the recorded deviations K2-K5 as boolean switches "
            "(all on = the current code, all off = the property text); every case is run on the mirror, on the property-text switches and on the real `rash --output raw` binary. "
            "The expression/template fragment (==, !=, not, and, or, is defined, {{ var }}) stands for minijinja and serde_yaml: trusted only on the generated fragment. ")
CHECKS.update({
 "C01": dict(
   text="Theorems (all programs, stores, quirk settings, include runners): the first failing task ends the list - nothing after it contributes an event; a successful run is the chain of its tasks each run once in order from its predecessor's store; loops run one module execution per item in order and stop at the failing item; a false `when` has no effect; an ignored failure logs one record and keeps the store; exit status = outcome. K5 is refuted by witness. "
        "Tie: ~1600 (quick) generated programs with every failure kind at every position x ignore_errors, stdout records, marker log, created files and exit status of the real binary vs the mirror, and vs the property-text switches to decide violations.",
   note=NOTE_ENG, technique="Coq proof over an engine mirror (structural theorems) + differential runs of the real binary against mirror and property-text semantics", design="5/C01"),
 "C02": dict(
   text="Theorems: set_vars - latest write wins, other names untouched; modules other than set_vars/include return the store they got (task vars and rendered parameters never persist); register visible afterwards under its name only; skipped and ignored-failed tasks leave the store syntactically unchanged; with the property-text switches a loop restores the store. K2, K3, K4 refuted by witnesses. "
        "Tie: random write/read histories with a probe after every step, -e overrides and child environment judged on the real binary.",
   note=NOTE_ENG + "`name` and changed_when's effect on the ok/changed word are not observable in raw mode and are not checked; env handling is judged on the implementation only (not modelled).",
   technique="Coq proof over an engine mirror (store lemmas) + differential history runs", design="5/C02"),
 "C11": dict(
   text="Theorems over the mirror of main: rejected arguments -> no event, non-zero exit; help -> only the help text, exit 0; a file with an invalid task at any position -> no event at all (parse_file validates the whole file first). "
        "HelpDoc.v mirrors docopt::parse_help: a documentation block written the documented way is printed verbatim followed by the two note lines, and nothing after the first line without `#` (the tasks) reaches the help text. "
        "Valid.v mirrors validate_attrs + get_module_name: a task is accepted iff it is a mapping with string keys made of exactly one module name and known keywords; one unknown key invalidates the task, one invalid entry the file. "
        "Tie: files of generated entries (random sets of module names, keywords, near-miss spellings, internal field names, non-string keys, non-mappings) accepted by the binary exactly when the extracted mirror accepts them, a marker task proving that nothing ran otherwise; "
        "scripts with an invalid task of each kind (unknown string key, near-miss keyword spellings, non-string keys, internal field names, no module, two modules, non-mapping, null, sequence) at every position, top-level mappings / strings / numbers, non-sequence and syntactically broken files, rejected / help / valid argument vectors, on the real binary (marker log, stdout, exit status); the printed help text must equal the mirror's output exactly, also for blocks written in undocumented ways.",
   note=NOTE_ENG + "docopt's decision itself is an input of the model (C07-C10 cover it); clap's handling of rash's own options is outside the property.",
   technique="Coq proof over a mirror of main's control flow + fault placement runs on the real binary", design="5/C11"),
 "C17": dict(
   text="Theorems: inside an include the store is the caller's with rash.* naming the included file, afterwards rash.* is the caller's again; a failure inside fails the include task (then C01 applies); an invalid included file runs none of its tasks. K4 (writes inside are dropped) refuted by witness. "
        "Tie: include chains of depth 1-3 through different directories, under loop/when/ignore_errors, with failures, invalid tasks and variable writes injected, rash.path/rash.dir printed at the start and end of every file.",
   note=NOTE_ENG, technique="Coq proof over an engine mirror (include lemmas) + differential include-tree runs", design="5/C17"),
})
CHECKS.update({
 "C16": dict(
   text="Theorems over the mirror of find: an entry is listed iff it is reachable under a root within the depth limit, not below a hidden name (unless hidden), and satisfies type, size, patterns and excludes on the base name; each path is listed once when sibling names are distinct; permuting a directory's listing permutes the result. "
        "Tie: random trees (dot names, symlinks, sizes around the limit, 1-2 roots) x random parameter combinations run through MODULES[\"find\"] and the find() lookup on a real directory tree, compared as sorted lists with the mirror; relative roots must be rejected; trees with a .ignore file probe K18.",
   note=NOTE_COMMON + "Find.v mirrors the `ignore` walker as configured by find.rs (trusted: ignore 0.4, regex for the generated pattern family, byte_unit for plain byte counts). follow: true and size x symlink are not judged; nested roots are not generated (a multi-root walk lists shared paths once per root). K18 (ignore files honoured when hidden: false) is suppressed only when every missing entry matches the planted glob.",
   technique="Coq proof over a mirror walker (iff / NoDup / permutation) + differential runs on real directory trees", design="5/C16"),
})
CHECKS.update({
 "C12": dict(
   text="Theorems over the pipelines of jinja::_render and set_vars, for EVERY evaluator satisfying three stated laws (text without opening delimiters renders to itself; `{{ x }}` renders to the string x holds; Coq's conservative plain_string implies the YAML reader returns that string): a literal parameter and a substituted value reach a force-string parameter byte for byte; vars / set_vars keep every plain string; K6 (second render) and K7 (YAML re-typing) are refuted by witnesses on a law-abiding evaluator. "
        "Tie: ~400 (quick) metacharacter-weighted strings x 5 channels, one real rash process each, the file written by copy and the argv received by a helper compared byte for byte; command stdout/stderr/rc. "
        "Omit.v mirrors jinja::render_map: an entry that yields the omit placeholder is exactly as if it had not been written (for the rendered mapping and for the variables seen afterwards), nothing is invented, a mapping without omit is untouched; "
        "tied by random mappings (text, references to earlier entries, `{{ omit }}`, `default(omit)`) as task vars / set_vars / mapping loop items compared with the extracted mirror, re-run without an omitted entry, and command / copy parameters with two omitted ones in every order.",
   note=NOTE_COMMON + "minijinja and serde_yaml are NOT modelled: they are Section variables; the three laws are the trusted statements about them and are exactly what the run validates on the generated strings. Class predicates (plain_string, has_open) are evaluated by the extracted Coq functions.",
   technique="Coq proof over the render pipelines with the template engine as an abstract oracle + byte-exact differential probes on the real binary", design="5/C12"),
 "C14": dict(
   text="PARTIAL (the kernel's execve/setuid contract cannot be modelled): theorems on the mirror of exec_transferring_pid - argv form passes program and every argument exactly as given, the cmd form's words are non-empty and whitespace-free, after a successful transfer no later step runs, a failing exec is an error; and on Become.v (mirror of the become branch of exec_module: user lookup by name then by u32 number, same-uid shortcut): under become a transfer_pid command does not fork - the exec'ing process is the main one, with the uid and primary gid of the looked-up passwd entry. "
        "Tie: the real binary execs a helper that records pid, argv, cwd, the WHOLE environment, uid/gid and exits with a chosen status (0-255); compared with the Popen PID, the given arguments, chdir, the environment rash was started with plus the -e pairs, the credentials Become.v predicts on this machine's passwd database (names, numbers, +N, 00N, unknown users must fail without executing), the wait status and the marker log. K32 (credentials dropped before a failing exec) is a known finding with a Coq witness.",
   note=NOTE_COMMON + "Trusted: execve keeps the PID, setgid/setuid drop privileges (kernel); supplementary groups out of scope.",
   technique="Coq proof over the exec-request mirror + process-level observation of the real exec", design="5/C14"),
 "C15": dict(
   text="PARTIAL (fork, ipc-channel and waitpid are trusted): theorems on the value codec that carries the child's store to the parent - of_json (to_json v) = v for every value without an undefined inside (nested, unicode, numeric, boolean, none), hence the parent's store equals the child's; undefined does not survive (refuted); on Become.v: the module runs with uid AND primary gid of one passwd entry (named or numbered), the main process keeps its credentials unless it hands the process over (K32 refuted witness), no become => nothing differs, unknown user => the task fails, a task's own become_user wins over the command line. "
        "Tie: programs of the C01/C02 generators run twice on the real binary, with and without become to nobody on every task: stdout, exit status, marker log, created files must be identical; id -u / id -g inside and after a become task for every become_user text and every combination of --become / -u with task keywords, against Become.v; a 2 MB store crossing the process boundary under a deadline (K31, fixed); the K17 witness (fixed).",
   note=NOTE_COMMON + "fork, ipc-channel and waitpid are trusted; the continuation-duplicating fork model of the first draft was not built (K17 and K31 were found by runs and repaired in /repo).",
   technique="Coq proof of the store codec round trip + paired become/plain runs of the real binary", design="5/C15"),
})
CHECKS.update({
 "C13": dict(
   text="PARTIAL. A Gallina function is total by construction, so a theorem cannot show that Rust code never panics; proved are: the mirrors of the modelled panic sites return a value or an error for every input after the fixes (help check, parse_octal) with the pre-fix code refuted by witness (K14a, K1), and the growth law behind K15 (one store layer per loop item in the mirror, none with the property-text switches). "
        "The rest is deadline-supervised exploration, labelled as such: mutated scripts, usage docs, argv, environments (incl. non-UTF-8), wrong-typed and boundary parameter values on the real binary and in-process docopt::parse; outcome enum {exit, panic, signal, timeout}; size ramps for loops, task counts and optional usage elements with measured times.",
   note=NOTE_COMMON + "Fuzzing is not a proof: it supports the model and searches for failing inputs. Panics inside minijinja/serde_yaml/clap/regex, stack depth in bytes and wall-clock bounds cannot be expressed in the model. K15/K16 (and K17's hang) are recorded findings.",
   technique="Coq proof for the modelled panic sites and the store-growth law + deadline-supervised mutation runs and size ramps", design="5/C13"),
})
REASONS = {p: "not yet built in this revision (see DESIGN.md section 9b build order)" for p in ALL}

def main():
    checks = []
    for pid in ALL:
        if pid not in CHECKS:
            continue
        c = CHECKS[pid]
        checks.append(dict(
            property_id=pid,
            quick_cmd="./check %s --tier quick" % pid,
            thorough_cmd="./check %s --tier thorough" % pid,
            evidence_file="/verif/evidence/%s.json" % pid,
            replay_cmd_template="./check %s --replay {path}" % pid,
            engine="coq-mirror+correspondence",
            level_claimed=dict(category="proof", text=c["text"], design_ref=c["design"]),
            level_note=c["note"],
            technique=c["technique"]))
    hooks = json.load(open(os.path.join(V, "tools", "hooks.json")))
    m = dict(
        version=1,
        setup_cmd="./check setup",
        hooks=hooks,
        engines=[dict(name="coq-mirror+correspondence", path="/verif/coq, /verif/ocaml, /verif/harness, /verif/vlib",
                      serves_properties=[c["property_id"] for c in checks],
                      kind_free_text="Coq 8.16 development (models + theorems), extracted OCaml oracle, Rust harness linking /repo/rash_core by path, python driver ./check")],
        checks=checks,
        notes="Known findings are listed in /verif/known_findings.json (never written at run time). Fixes made to /repo are 'fix:' commits recorded there as status=fixed.",
        not_applicable=[dict(property_id=p, reason=REASONS[p]) for p in ALL if p not in CHECKS])
    json.dump(m, open(os.path.join(V, "MANIFEST.json"), "w"), indent=1)

if __name__ == "__main__":
    main()
