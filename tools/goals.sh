#!/bin/sh
# usage: tools/goals.sh theories/X.v LINE   -- shows the goals after LINE lines of the file
f=$1; n=$2
head -n $n /verif/coq/$f > /tmp/_goals.v
printf '\nShow. Abort.\n' >> /tmp/_goals.v
cd /verif/coq && coqc -Q theories RashV /tmp/_goals.v 2>&1 | grep -v conda | head -${3:-80}
