#!/usr/bin/env python3
"""tools/keepseed.py <id> <src-dir> <props-broken> <caught-by> "<needs>" "<ran>"  -- stores a confirmed seeded change"""
import sys, os, shutil, json, glob
sid, src, props, caught, needs, ran = sys.argv[1:7]
d = os.path.join("/verif/seeded", sid)
os.makedirs(d, exist_ok=True)
for f in glob.glob(os.path.join(src, "*")):
    shutil.copy(f, d)
json.dump(dict(id=sid, breaks=props.split(","), needs_to_manifest=needs, confirmed=ran,
               caught_by=[c for c in caught.split(",") if c], origin="independent sub-agent given only the property text and a scratch worktree"),
          open(os.path.join(d, "meta.json"), "w"), indent=1)
print("kept", d)
