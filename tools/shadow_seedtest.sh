#!/bin/bash
# usage: tools/shadow_seedtest.sh <patch.diff> <prop> [<prop>...]
# Runs the quick checks against a seeded change WITHOUT touching /repo: the change is applied to a scratch worktree of
# /repo and the checks run from a scratch copy of /verif whose harness is linked to that worktree. Used for rounds 11-12
# (DESIGN.md section 10) while a long thorough run occupied /repo. Everything it creates lives under /tmp and is removed.
set -e
patch=$1; shift
S=/tmp/shadow-$$
git -C /repo worktree add --detach $S/repo HEAD >/dev/null 2>&1
mkdir -p $S/verif
rsync -a --exclude .build --exclude replays --exclude .git /verif/ $S/verif/
sed -i "s#/repo/rash_core#$S/repo/rash_core#g" $S/verif/harness/Cargo.toml
( cd $S/repo && git apply "$patch" )
export VERIF_REPO=$S/repo
for p in "$@"; do ( cd $S/verif && ./check $p 2>&1 | grep -E "VIOLATION|quick:" | cut -c1-300 ); done
git -C /repo worktree remove --force $S/repo; git -C /repo worktree prune
rm -rf $S
