import sys, os, json, random, collections, time, pickle
sys.path.insert(0, os.path.dirname(os.path.dirname(os.path.abspath(__file__))))
from vlib import common as C, docopt as D
cache = "/root/scratch/docopt_sweep.pkl"
if not os.path.exists(cache) or "--fresh" in sys.argv:
    rng = random.Random(1)
    us = D.enum_usages("quick", rng)
    ua = [(ls, wo, D.argvs_for(wo, "quick")) for ls, wo in us]
    ref = D.run_reference(ua)
    cases = [(D.script_text(ls, wo), av) for (ls, wo, avs) in ua for av in avs]
    impl = D.run_impl(cases, repeat=1)
    pickle.dump((ua, ref, impl), open(cache, "wb"))
ua, ref, impl = pickle.load(open(cache, "rb"))
from vlib.docopt_classes import classes_of, k12_dangling_value, k20_dash_positional
i = 0
fails = {}
for (ls, wo, avs), rr in zip(ua, ref):
    cnt = collections.Counter(); ex = {}; exs = []
    for av, r in zip(avs, rr):
        o = impl[i][0]; i += 1
        racc = r is not None and len(r["matches"]) > 0
        if "panic" in o or "crash" in o: k = "panic"
        elif "help" in o: k = "help"
        elif "ok" in o:
            if racc:
                ci, dfl = D.canon_impl(o["ok"], D.OPTS if wo else [], [])
                k = "ok" if D.impl_matches_ref(ci, dfl, r["matches"]) or k20_dash_positional(o["ok"]) or k12_dangling_value(av) else "C07_binding"
            else:
                if k20_dash_positional(o["ok"]) or k12_dangling_value(av): k = "ok"
                else: k = "C07_accept"
        else: k = "C08_reject" if racc and not k12_dangling_value(av) else "ok"
        if k != "ok":
            cnt[k] += 1; ex.setdefault(k, (av, o, r["matches"][:2] if r else None)); exs.append((k, av, o))
    fails[" || ".join(D.show(l) for l in ls)] = (ls, wo, cnt, exs)
unexplained = []
bycls = collections.Counter()
clean_in_class = 0
for u, (ls, wo, cnt, ex) in fails.items():
    cl = classes_of(ls)
    if cnt:
        if not cl: unexplained.append((u, cnt, ex))
        for c in cl: bycls[c] += 1
    elif cl: clean_in_class += 1
print("usages", len(fails), "failing", sum(1 for f in fails.values() if f[2]), "unexplained", len(unexplained), "in-class-but-clean", clean_in_class)
print(bycls)
for u, cnt, ex in unexplained[:40]:
    print(dict(cnt), "|", u)
    for e in ex[:6]: print("      ", e)
