import sys, os, json, random, collections, time
sys.path.insert(0, os.path.dirname(os.path.dirname(os.path.abspath(__file__))))
from vlib import common as C, docopt as D
rng = random.Random(int(sys.argv[1]) if len(sys.argv) > 1 else 1)
tier = sys.argv[2] if len(sys.argv) > 2 else "quick"
us = D.enum_usages(tier, rng)
print("usages", len(us))
t0 = time.time()
ua = [(ls, wo, D.argvs_for(wo, tier)) for ls, wo in us]
ref = D.run_reference(ua)
print("reference done", time.time() - t0, sum(len(x[2]) for x in ua))
t0 = time.time()
cases = []
for (ls, wo, avs) in ua:
    f = D.script_text(ls, wo)
    for av in avs:
        cases.append((f, av))
impl = D.run_impl(cases, repeat=1)
print("impl done", time.time() - t0, len(cases))
i = 0
stats = collections.Counter()
per_usage = collections.defaultdict(collections.Counter)
ex = {}
for (ls, wo, avs), rr in zip(ua, ref):
    utxt = " || ".join(D.show(l) for l in ls)
    for av, r in zip(avs, rr):
        o = impl[i][0]; i += 1
        racc = r is not None and len(r["matches"]) > 0
        if "panic" in o or "crash" in o:
            k = "panic"
        elif "ok" in o or "help" in o:
            if "help" in o:
                k = "help"
            elif racc:
                ci, dfl = D.canon_impl(o["ok"], D.OPTS if wo else [], [])
                k = "agree_acc" if D.impl_matches_ref(ci, dfl, r["matches"]) else "C07_binding"
            else:
                k = "C07_accept" if r is not None else "C07_unspellable"
        else:
            k = "C08_reject" if racc else "agree_rej"
        stats[k] += 1
        if k not in ("agree_acc", "agree_rej"):
            per_usage[utxt][k] += 1
            ex.setdefault((utxt, k), (av, o, r["matches"][:2] if r else None))
print(stats)
bad = sorted(per_usage.items(), key=lambda x: -sum(x[1].values()))
print("usages with divergence", len(bad), "of", len(us))
for u, c in bad[:int(sys.argv[3]) if len(sys.argv) > 3 else 60]:
    k = list(c.keys())[0]
    print(dict(c), "|", u, "| e.g.", ex[(u, k)])
