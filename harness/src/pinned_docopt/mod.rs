// VENDORED by tools/pin_docopt.sh - do not edit.
#![allow(dead_code, unused_imports, clippy::all)]
use log::trace;
use serde_json::json;
mod options;
mod utils;

use utils::{RegexMatch, UsageCandidate, WORDS_REGEX, WORDS_UPPERCASE_REGEX, usage_regex_match};

use rash_core::error::{Error, ErrorKind, Result};
use rash_core::utils::merge_json;
use serde_json::Value;

use std::collections::{HashSet, VecDeque};

use regex::{Regex, RegexSet};

#[cfg(rash_verif)]
thread_local! {
    /// Verification hook: the expanded usages of the last `parse` call, in the order they are tried.
    pub static VERIF_EXPANDED_USAGES: std::cell::RefCell<Vec<String>> =
        const { std::cell::RefCell::new(Vec::new()) };
}

#[cfg(rash_verif)]
thread_local! {
    /// Verification hook: the usage patterns `parse_usage` read from the help text (None: no usage section).
    pub static VERIF_USAGES: std::cell::RefCell<Option<Vec<String>>> =
        const { std::cell::RefCell::new(None) };
}

#[cfg(rash_verif)]
thread_local! {
    /// Verification hook: normalised arguments and option descriptors (kind, short, long, default)
    /// of the last `parse` call: the inputs of its final matching stage.
    #[allow(clippy::type_complexity)]
    pub static VERIF_TAIL_INPUTS: std::cell::RefCell<(
        Vec<String>,
        Vec<(String, Option<String>, Option<String>, Option<String>)>,
    )> = const { std::cell::RefCell::new((Vec::new(), Vec::new())) };
}

/// Parse file doc and args to return docopts variables.
/// Supports help subcommand to print help and exit.
pub fn parse(file: &str, args: &[&str]) -> Result<Value> {
    let help_msg = parse_help(file);
    #[cfg(rash_verif)]
    VERIF_USAGES.with(|t| *t.borrow_mut() = parse_usage(&help_msg));
    let usages = match parse_usage(&help_msg) {
        Some(usages) => usages,
        None => return Ok(json!({})),
    };

    let options = options::Options::parse_doc(&help_msg, &usages)?;
    trace!("options: {options:?}");

    let args_with_normalized_options =
        options.normalize_options(&args.iter().copied().map(String::from).collect::<Vec<_>>())?;

    let usage_set = HashSet::from_iter(usages.iter().cloned());

    let opts = args_with_normalized_options
        .iter()
        .filter(|x| x.starts_with('-'))
        .map(std::ops::Deref::deref)
        .collect::<Vec<_>>();
    let extended_usages = options.extend_usages(usage_set).ok_or_else(|| {
        Error::new(
            ErrorKind::InvalidData,
            format!("Invalid usage: {}", &help_msg),
        )
    })?;

    // `expand_usages` returns a `HashSet`, whose iteration order changes from one run to the
    // next: sort it so that the usage chosen when several of them match is always the same
    // (descending, which prefers literal commands to positional placeholders).
    let mut expanded_usages: Vec<String> =
        expand_usages(extended_usages, args_with_normalized_options.len(), &opts)
            .into_iter()
            .collect();
    expanded_usages.sort_by(|a, b| b.cmp(a));
    #[cfg(rash_verif)]
    VERIF_EXPANDED_USAGES.with(|t| *t.borrow_mut() = expanded_usages.clone());
    #[cfg(rash_verif)]
    VERIF_TAIL_INPUTS.with(|t| {
        *t.borrow_mut() = (args_with_normalized_options.clone(), options.verif_dump())
    });
    trace!("expanded usages: {expanded_usages:?}");

    let arg_kind_set = RegexSet::new([
        format!(r"^{WORDS_REGEX}\+?$"),
        format!(r"^<{WORDS_REGEX}>|{WORDS_UPPERCASE_REGEX}\+?$"),
        // options: must be between `{}`
        format!(r"(\{{[^\[]+?\}}|^\-\-?{WORDS_REGEX})$"),
    ])
    .unwrap();

    let args_defs: Vec<Vec<String>> = expanded_usages
        .iter()
        .map(|usage| {
            usage
                .split_whitespace()
                // skip arg 0 (script name)
                .skip(1)
                .map(String::from)
                .collect::<Vec<String>>()
        })
        .collect();

    let args_kinds = args_defs
        .iter()
        .map(|args_def| {
            args_def
                .clone()
                .iter()
                .map(|w| {
                    let matches: Vec<_> = arg_kind_set.matches(w).into_iter().collect();
                    match matches.len() {
                        1 => Some(matches[0]),
                        _ => None,
                    }
                })
                .collect::<Option<Vec<usize>>>()
        })
        .collect::<Option<Vec<Vec<usize>>>>()
        .ok_or_else(|| {
            trace!("args: {args:?}");
            trace!("args_defs: {args_defs:?}");
            Error::new(ErrorKind::InvalidData, format!("Invalid usage: {help_msg}"))
        })?;

    let args_defs_expand_repeatable: Vec<Vec<String>> = args_defs
        .iter()
        .map(|args_def| {
            args_def
                .iter()
                .map(|arg_def| {
                    let repeatable_arg = format!("{arg_def}+");
                    if !arg_def.ends_with('+')
                        && args_defs.iter().any(|x| x.contains(&repeatable_arg))
                    {
                        repeatable_arg
                    } else {
                        arg_def.to_owned()
                    }
                })
                .collect()
        })
        .collect();

    let mut vars = options.initial_vars();

    args_defs_expand_repeatable
        .clone()
        .iter()
        .enumerate()
        .flat_map(|(usage_idx, args_def)| {
            args_def
                .iter()
                .enumerate()
                .filter_map(|(idx, arg_def)| match args_kinds[usage_idx].get(idx) {
                    Some(0) => Some({
                        let arg_def_normalized = arg_def.replace('-', "_");
                        match args_defs_expand_repeatable
                            .iter()
                            .any(|args_def| args_def.iter().filter(|&x| x == arg_def).count() > 1)
                        {
                            true => [(arg_def_normalized, 0)].into_iter().collect(),
                            false => [(arg_def_normalized, false)].into_iter().collect(),
                        }
                    }),
                    Some(1) | Some(2) => None,
                    _ => unreachable!(),
                })
                .collect::<Vec<Value>>()
        })
        .for_each(|x| merge_json(&mut vars, x));

    let vars_vec = args_defs_expand_repeatable
        .iter()
        .enumerate()
        .find_map(|(usage_idx, args_def)| {
            if args_with_normalized_options.len() != args_kinds[usage_idx].len() {
                return None;
            };
            args_with_normalized_options
                .iter()
                .enumerate()
                .map(|(idx, arg)| match args_kinds[usage_idx][idx] {
                    // order matters
                    0 => parse_required(arg, &args_def[idx], args_def),
                    // order matters
                    1 => {
                        if arg == "--help" || arg == "-h" {
                            options.parse(arg, arg)
                        } else if arg.starts_with("--") {
                            None
                        } else {
                            Some(parse_positional(arg, &args_def[idx]))
                        }
                    }
                    2 => options.parse(arg, &args_def[idx]),
                    _ => unreachable!(),
                })
                .collect::<Option<Vec<Value>>>()
        })
        .ok_or_else(|| {
            trace!("args: {args:?}");
            trace!("args_defs_expand_repeatable: {args_defs_expand_repeatable:?}");
            Error::new(ErrorKind::InvalidData, help_msg.clone())
        })?;

    let mut new_vars = json! {vars.clone()};
    vars_vec
        .into_iter()
        .map(|x| json! {x})
        .for_each(|x| merge_json(&mut new_vars, x));

    match new_vars.get("help") {
        // `help` is a boolean unless the usage declares a positional called `<help>`
        Some(y) if y.as_bool().unwrap_or(false) => {
            Err(Error::new(ErrorKind::GracefulExit, help_msg))
        }
        _ => match new_vars.get("options") {
            Some(options) => match options.get("help") {
                Some(z) if z.as_bool().unwrap_or(false) => {
                    Err(Error::new(ErrorKind::GracefulExit, help_msg))
                }
                _ => Ok(new_vars),
            },
            _ => Ok(new_vars),
        },
    }
}

fn parse_help(file: &str) -> String {
    let re = Regex::new(r"#(.*)").unwrap();
    file.split('\n')
        // skip first empty line cause split
        .skip(1)
        .map_while(|line| re.captures(line))
        .filter(|cap| !cap[1].starts_with('!'))
        .map(|cap| cap[1].to_owned().replacen(' ', "", 1))
        .chain(vec![
            "Note: Options must be preceded by `--`. If not, you are passing options directly to rash.".to_owned(),
            "For more information check rash options with `rash --help`.".to_owned(),
            "".to_owned(),
        ])
        .collect::<Vec<String>>()
        .join("\n")
}

fn parse_usage_multiline(doc: &str) -> Option<Vec<String>> {
    let re = Regex::new(r"(?mi)Usage:\n((.|\n)*?(^[a-z\n]|\z))").unwrap();
    let re_rm_indentation = Regex::new(r"\s+(.*)").unwrap();
    let cap = re.captures_iter(doc).next()?;
    Some(
        cap[1]
            .split('\n')
            .map_while(|line| re_rm_indentation.captures(line))
            .map(|cap| cap[1].to_owned())
            .collect::<Vec<String>>(),
    )
}

fn parse_usage_one_line(doc: &str) -> Option<Vec<String>> {
    let re = Regex::new(r"(?i)Usage:\s+(.*)\n").unwrap();
    let cap = re.captures_iter(doc).next()?;
    Some(vec![cap[1].to_owned()])
}

fn parse_usage(doc: &str) -> Option<Vec<String>> {
    parse_usage_multiline(doc).or_else(|| parse_usage_one_line(doc))
}

fn repeat_until_fill(
    usage: &str,
    replace: &str,
    pattern: &str,
    args_len: usize,
    opts_len: usize,
) -> String {
    let args_without_this = usage.replace(replace, "").replace("[]", "");
    let args = args_without_this.split_whitespace().skip(1);
    let args_in_pattern = pattern.split_whitespace().count();
    if pattern.starts_with('{') {
        let pattern_repetitions = opts_len;
        let pattern_repeatable = pattern.split_whitespace().collect::<Vec<_>>().join(" ") + " ";
        usage.replace(
            replace,
            pattern_repeatable.repeat(pattern_repetitions).trim(),
        )
    } else {
        let current_args = args.filter(|x| !x.starts_with('{')).count();
        let repetitions = args_len
            .saturating_sub(current_args)
            .saturating_sub(opts_len)
            / args_in_pattern;
        let pattern_repetitions = if repetitions > 0 { repetitions } else { 1 };
        let pattern_repeatable = format!(
            "{}{}",
            if pattern.starts_with(' ') { " " } else { "" },
            pattern.split_whitespace().collect::<Vec<_>>().join("+ ") + "+ "
        );
        usage.replace(
            replace,
            pattern_repeatable.repeat(pattern_repetitions).trim_end(),
        )
    }
}

fn is_usage(possible_usage: &str, opts: &[&str]) -> bool {
    let possible_usage_opts = possible_usage
        .split(' ')
        .filter(|x| !x.contains(['(', '[', ']', ')']))
        .filter(|x| x.starts_with('-'))
        .collect::<Vec<_>>();

    possible_usage_opts.len() <= opts.len() && possible_usage_opts.iter().all(|x| opts.contains(x))
}

/// Expands docopt usage patterns to include all valid combinations.
///
/// This function processes usage patterns containing docopt syntax elements like
/// alternatives `(a | b)`, optional elements `[c]`, and repeatable sections `...`
/// to generate all possible concrete usage patterns.
///
/// The function filters out impossible usages based on the provided `args_len`,
/// ensuring that only patterns that can match the actual number of arguments
/// are included in the result. It also uses the `opts` parameter to validate
/// potential matches against the actual command-line options provided by the user,
/// discarding patterns that couldn't possibly match the input.
///
/// # Examples
///
/// "foo (a | b)" expands to ["foo a", "foo b"]
/// "bar [--verbose]" expands to ["bar", "bar --verbose"]
/// "baz <file>..." accommodates multiple arguments
fn expand_usages(usages: HashSet<String>, args_len: usize, opts: &[&str]) -> HashSet<String> {
    let mut new_usages = HashSet::new();
    let mut queue: VecDeque<UsageCandidate> =
        usages.into_iter().map(UsageCandidate::from_usage).collect();

    let opts_len = opts.len();
    let mut analyzed_candidates = HashSet::new();
    while let Some(candidate) = queue.pop_front() {
        // Skip already analyzed candidates
        if !analyzed_candidates.insert(candidate.calculate_hash()) {
            continue;
        }
        match usage_regex_match(&candidate.usage.clone(), candidate.ignore_curly_braces) {
            Some((RegexMatch::InnerParenthesis, cap)) => match cap.get(2) {
                // repeat sequence until fill usage
                Some(_) => {
                    queue.push_back(UsageCandidate::from_usage(repeat_until_fill(
                        &candidate.usage,
                        &cap[0],
                        &cap[1],
                        args_len,
                        opts_len,
                    )));
                }
                None => {
                    // Add all split variants to the queue
                    for w in cap[1].split('|') {
                        let new_usage =
                            candidate
                                .usage
                                .clone()
                                .replacen(&cap[0].to_owned(), w.trim(), 1);
                        queue.push_back(UsageCandidate::from_usage(new_usage));
                    }
                }
            },
            Some((RegexMatch::InnerBrackets, cap)) => {
                // Add usage without the optional part
                queue.push_back(UsageCandidate::from_usage(
                    candidate
                        .usage
                        .replacen(&cap[0].to_owned(), "", 1)
                        .split_whitespace()
                        .collect::<Vec<_>>()
                        .join(" "),
                ));

                // if captured repeatable(`...`): add usage with that repeatable case
                if cap.len() == 3 {
                    queue.push_back(UsageCandidate::from_usage(candidate.usage.replacen(
                        &cap[0].to_owned(),
                        &format!("{}{}", &cap[1], &cap[2]),
                        1,
                    )));
                }

                let possible_usage = candidate.usage.replacen(&cap[0].to_owned(), &cap[1], 1);
                if is_usage(&possible_usage, opts) {
                    queue.push_back(UsageCandidate::from_usage(possible_usage));
                }
            }
            Some((RegexMatch::Repeatable, cap)) => {
                let repeated_usage =
                    repeat_until_fill(&candidate.usage, &cap[0], &cap[1], args_len, opts_len);
                let remove_empty_repeatable = repeated_usage
                    .split_whitespace()
                    .filter(|w| *w != "[]")
                    .collect::<Vec<_>>()
                    .join(" ");
                queue.push_back(UsageCandidate::from_usage(remove_empty_repeatable));
            }
            None if candidate.usage.contains('|') => {
                // safe unwrap: usage contains `|`
                let splitted = candidate.usage.split_once('|').unwrap();

                let left_w = splitted.0.trim_end().rsplit(' ').next().unwrap();
                let right_w = splitted.1.trim_start().split(' ').next().unwrap();

                let left_end = splitted.0.replace(splitted.0.trim_end(), "");
                let right_start = splitted.1.replace(splitted.1.trim_start(), "");

                let get_usage = |x: String| {
                    candidate.usage.clone().replacen(
                        &format!("{left_w}{left_end}|{right_start}{right_w}"),
                        &x,
                        1,
                    )
                };

                queue.push_back(UsageCandidate::from_usage(get_usage(left_w.to_owned())));
                queue.push_back(UsageCandidate::from_usage(get_usage(right_w.to_owned())));
            }
            Some((RegexMatch::InnerCurlyBraces, cap)) => {
                let opts_len = opts.len();
                let usage_without_cap = candidate
                    .usage
                    .replacen(&cap[0], "", 1)
                    .split_whitespace()
                    .collect::<Vec<_>>()
                    .join(" ");

                let mut check_and_push = |usage: &str| {
                    let usage_opts = usage.split('{').count() - 1;
                    // a usage line without a program name (`Usage: [options]`) has no word left here
                    let usage_args = usage.split_whitespace().count().saturating_sub(1);

                    if usage_args == args_len
                        || (opts_len > usage_opts && usage.contains("..."))
                        || (args_len > opts_len && usage.contains('+'))
                    {
                        queue.push_back(UsageCandidate::from_usage(usage.to_owned()));
                    }
                };

                check_and_push(&usage_without_cap);

                if let Some((RegexMatch::InnerCurlyBraces, second_cap)) =
                    usage_regex_match(&usage_without_cap, false)
                {
                    let usage_without_second_cap = candidate
                        .usage
                        .replacen(&second_cap[0], "", 1)
                        .split_whitespace()
                        .collect::<Vec<_>>()
                        .join(" ");

                    check_and_push(&usage_without_second_cap);
                }

                match cap.get(2) {
                    // repeat sequence until fill usage
                    Some(_) => {
                        queue.push_back(UsageCandidate::from_usage(repeat_until_fill(
                            &candidate.usage,
                            &cap[0],
                            &cap[1],
                            args_len,
                            opts_len,
                        )));
                    }
                    None => {
                        // Fix: we have to iterate avoiding `InnerCurlyBraces` matches
                        queue.push_back(UsageCandidate::new(candidate.usage, true));
                    }
                }
            }
            None => {
                new_usages.insert(candidate.usage);
            }
        };
    }
    new_usages
}

fn parse_required(arg: &str, def: &str, defs: &[String]) -> Option<Value> {
    let arg_normalized = arg.replace('-', "_");
    if arg == def {
        let value = if defs.iter().filter(|&x| *x == def).count() > 1 {
            [(arg_normalized, 1)].into_iter().collect()
        } else {
            [(arg_normalized, true)].into_iter().collect()
        };
        Some(value)
    } else {
        None
    }
}

fn parse_positional(arg: &str, def: &str) -> Value {
    // a definition such as `<fooBAR` is classified as positional by its uppercase tail although
    // it has no closing `>`: treat it like an uppercase positional instead of panicking
    let key = match def.strip_prefix('<').and_then(|d| d.split_once('>')) {
        Some((name, _)) => name.to_owned(),
        None => def.strip_suffix('+').unwrap_or(def).to_lowercase(),
    }
    .replace('-', "_");

    if def.ends_with('+') {
        [(key, vec![arg])].into_iter().collect()
    } else {
        [(key, arg)].into_iter().collect()
    }
}

