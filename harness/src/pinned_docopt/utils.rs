// VENDORED by tools/pin_docopt.sh - do not edit.
#![allow(dead_code, unused_imports, clippy::all)]
use log::trace;
use serde_json::json;
use itertools::Itertools;
use regex::{Captures, Regex};

use std::collections::hash_map::DefaultHasher;
use std::hash::{Hash, Hasher};
use std::sync::LazyLock;

pub const WORDS_REGEX: &str = r"[a-z]+(?:[_\-][a-z]+)*";
pub const WORDS_UPPERCASE_REGEX: &str = r"[A-Z]+(?:[_\-][A-Z]+)*";

static RE_INNER_PARENTHESIS: LazyLock<Regex> =
    LazyLock::new(|| Regex::new(r"\(([^\(]+?)\)(\.\.\.)?").unwrap());
static RE_INNER_BRACKETS: LazyLock<Regex> =
    LazyLock::new(|| Regex::new(r"\[([^\[]+?)\](\.\.\.)?").unwrap());
static RE_INNER_CURLY_BRACES: LazyLock<Regex> =
    LazyLock::new(|| Regex::new(r"(\{[^\[]+?\})(\.\.\.)?").unwrap());
static RE_REPEATABLE: LazyLock<Regex> = LazyLock::new(|| {
    Regex::new(&format!(
        r"(<{WORDS_REGEX}>|{WORDS_UPPERCASE_REGEX})\x20?(\.\.\.)"
    ))
    .unwrap()
});

#[derive(Debug, Clone, Copy)]
pub enum RegexMatch {
    InnerParenthesis,
    InnerBrackets,
    InnerCurlyBraces,
    Repeatable,
}

#[derive(Clone, Debug, PartialEq, Eq, Hash)]
pub struct UsageCandidate {
    /// The usage string pattern being processed
    pub usage: String,
    /// Flag to control whether curly braces should be ignored during regex matching
    pub ignore_curly_braces: bool,
}

impl UsageCandidate {
    pub fn new(usage: String, ignore_curly_braces: bool) -> Self {
        Self {
            usage,
            ignore_curly_braces,
        }
    }

    pub fn from_usage(usage: String) -> Self {
        Self::new(usage, false)
    }

    pub fn calculate_hash(&self) -> u64 {
        let mut hasher = DefaultHasher::new();
        self.hash(&mut hasher);
        hasher.finish()
    }
}

fn get_vec_from_cap(cap: &Captures) -> Vec<String> {
    cap.iter()
        .filter_map(|option_match| Some(option_match?.as_str().to_owned()))
        .collect::<Vec<String>>()
}

pub fn expand_brackets(s: &str) -> String {
    let mut re_vec = RE_INNER_BRACKETS
        .captures_iter(s)
        .map(|cap| get_vec_from_cap(&cap))
        .filter(|cap| {
            cap[1]
                .split_whitespace()
                .filter(|x| !x.starts_with("<-"))
                .count()
                > 1
        })
        .collect::<Vec<_>>();
    re_vec.sort_by_key(|x| x[0].len());
    re_vec
        .iter()
        .find_map(|cap| {
            if cap[1].contains('|')
                || cap[1].ends_with("...")
                || RE_INNER_PARENTHESIS.captures(&cap[1]).is_some()
            {
                None
            } else {
                Some(expand_brackets(
                    &s.replacen(
                        &format!("[{}]", cap[1]),
                        &cap[1]
                            .split_whitespace()
                            .collect::<Vec<_>>()
                            .iter()
                            .circular_tuple_windows()
                            // <-o>, if - and then <, same group
                            .map(|(w, next)| {
                                if w.starts_with("<-") {
                                    format!("{w}]")
                                } else if next.starts_with("<-") {
                                    format!("[{w}")
                                } else {
                                    format!("[{w}]")
                                }
                            })
                            .collect::<Vec<String>>()
                            .join(" "),
                        1,
                    ),
                ))
            }
        })
        .unwrap_or_else(|| s.to_owned())
}

pub fn usage_regex_match(
    usage: &str,
    ignore_curly_braces: bool,
) -> Option<(RegexMatch, Vec<String>)> {
    if let Some(captures) = RE_INNER_PARENTHESIS.captures(usage) {
        return Some((RegexMatch::InnerParenthesis, get_vec_from_cap(&captures)));
    }

    if let Some(captures) = RE_INNER_BRACKETS.captures(usage) {
        return Some((RegexMatch::InnerBrackets, get_vec_from_cap(&captures)));
    }

    if let Some(captures) = RE_REPEATABLE.captures(usage) {
        return Some((RegexMatch::Repeatable, get_vec_from_cap(&captures)));
    }

    if !ignore_curly_braces {
        if let Some(captures) = RE_INNER_CURLY_BRACES.captures(usage) {
            return Some((RegexMatch::InnerCurlyBraces, get_vec_from_cap(&captures)));
        }
    }

    None
}

pub fn split_keeping_separators(text: &str, split_chars: &[char]) -> Vec<String> {
    let mut result: Vec<String> = Vec::new();
    let mut last = 0;

    for (index, matched) in text.match_indices(|c: char| split_chars.contains(&c)) {
        if last != index {
            result.push(text[last..index].to_owned());
        }
        result.push(matched.to_owned());
        last = index + matched.len();
    }
    if last < text.len() {
        result.push(text[last..].to_owned());
    }
    result
}

