// VENDORED by tools/pin_docopt.sh - do not edit.
#![allow(dead_code, unused_imports, clippy::all)]
use log::trace;
use serde_json::json;
use super::utils::{expand_brackets, split_keeping_separators};
use rash_core::error::{Error, ErrorKind, Result};
use rash_core::utils::merge_json;

use std::collections::HashSet;
use std::sync::LazyLock;

use itertools::Itertools;
use regex::Regex;
use serde_json::Value;

const OPTIONS_MARK: &str = "[options]";

static RE_DEFAULT_VALUE: LazyLock<Regex> =
    LazyLock::new(|| Regex::new(r"\[default: (.*)\]").unwrap());

#[derive(Clone, Debug, Hash, Eq, PartialEq, Ord, PartialOrd)]
pub enum OptionArg {
    Simple {
        short: Option<String>,
        long: Option<String>,
    },
    Repeatable {
        short: Option<String>,
        long: Option<String>,
    },
    WithParam {
        short: Option<String>,
        long: Option<String>,
        default_value: Option<String>,
    },
}

impl OptionArg {
    pub fn get_short(&self) -> Option<String> {
        match self {
            OptionArg::Simple { short, .. } => short.clone(),
            OptionArg::Repeatable { short, .. } => short.clone(),
            OptionArg::WithParam { short, .. } => short.clone(),
        }
    }

    pub fn get_long(&self) -> Option<String> {
        match self {
            OptionArg::Simple { long, .. } => long.clone(),
            OptionArg::Repeatable { long, .. } => long.clone(),
            OptionArg::WithParam { long, .. } => long.clone(),
        }
    }

    pub fn get_simple_representation(&self) -> String {
        self.get_long()
            // safe unwrap: if it long is None, short should be Some
            .unwrap_or_else(|| self.get_short().unwrap())
    }

    pub fn get_key_representation(&self) -> String {
        self.get_simple_representation()
            .replacen('-', "", 2)
            .replace('-', "_")
    }

    pub fn get_representation(&self) -> String {
        let repr = self.get_simple_representation();
        match self {
            OptionArg::Simple { .. } => repr,
            OptionArg::Repeatable { .. } => repr,
            OptionArg::WithParam { .. } => format!("{repr}=<{repr}>"),
        }
    }

    pub fn merge(&self, option: &Self) -> Result<Self> {
        if option == self {
            return Ok(self.clone());
        }

        let compare_attr = |a: Option<String>, b: Option<String>| -> Result<Option<String>> {
            match (a, b) {
                (Some(x), Some(y)) => {
                    if x != y {
                        Err(Error::new(
                            ErrorKind::InvalidData,
                            format!("Not mergeable options: {x} {y}"),
                        ))
                    } else {
                        Ok(Some(x))
                    }
                }
                (None, Some(y)) => Ok(Some(y)),
                (Some(x), None) => Ok(Some(x)),
                (None, None) => Ok(None),
            }
        };

        let long = compare_attr(self.get_long(), option.get_long())?;
        let short = compare_attr(self.get_short(), option.get_short())?;

        // compare types
        match (self, option) {
            (OptionArg::Simple { .. }, OptionArg::Simple { .. }) => {
                Ok(OptionArg::Simple { short, long })
            }
            (OptionArg::Simple { .. }, OptionArg::Repeatable { .. }) => {
                Ok(OptionArg::Repeatable { short, long })
            }
            (OptionArg::Simple { .. }, OptionArg::WithParam { default_value, .. }) => {
                Ok(OptionArg::WithParam {
                    short,
                    long,
                    default_value: default_value.clone(),
                })
            }
            (OptionArg::Repeatable { .. }, OptionArg::Simple { .. }) => {
                Ok(OptionArg::Repeatable { short, long })
            }
            (OptionArg::Repeatable { .. }, OptionArg::Repeatable { .. }) => {
                Ok(OptionArg::Repeatable { short, long })
            }
            (OptionArg::Repeatable { .. }, OptionArg::WithParam { .. })
            | (OptionArg::WithParam { .. }, OptionArg::Repeatable { .. }) => Err(Error::new(
                ErrorKind::InvalidData,
                format!("Not mergeable options: {self:?} {option:?}"),
            )),
            (OptionArg::WithParam { default_value, .. }, OptionArg::Simple { .. }) => {
                Ok(OptionArg::WithParam {
                    short,
                    long,
                    default_value: default_value.clone(),
                })
            }
            (
                OptionArg::WithParam { default_value, .. },
                OptionArg::WithParam {
                    default_value: option_default_value,
                    ..
                },
            ) => Ok(OptionArg::WithParam {
                short,
                long,
                default_value: compare_attr(default_value.clone(), option_default_value.clone())?,
            }),
        }
    }
}

#[derive(Debug, PartialEq, Clone)]
pub struct Options {
    hash_set: HashSet<OptionArg>,
}

impl Options {
    fn new(hash_set: HashSet<OptionArg>) -> Self {
        Options { hash_set }
    }

    fn get_option_arg(option_line: &str) -> OptionArg {
        let (option, description) =
            if let Some((option, description)) = option_line.split_once("  ") {
                (option, description)
            } else {
                (option_line, "")
            };

        let mut short: Option<String> = None;
        let mut long: Option<String> = None;
        let mut is_repeatable = false;
        let mut is_with_param = false;

        for w in option
            .replace([',', '='], " ")
            .replace('.', " repeatable ")
            .split_whitespace()
        {
            if w.starts_with("--") {
                long = Some(w.to_owned());
            } else if w.starts_with('-') {
                short = Some(w.to_owned());
            } else if w == "repeatable" {
                is_repeatable = true;
            } else {
                is_with_param = true;
            }
        }

        if is_with_param {
            let default_value = if let Some(cap) = RE_DEFAULT_VALUE.captures(description) {
                cap.get(1).map(|x| x.as_str().to_owned())
            } else {
                None
            };
            OptionArg::WithParam {
                short,
                long,
                default_value,
            }
        } else if is_repeatable {
            OptionArg::Repeatable { short, long }
        } else {
            OptionArg::Simple { short, long }
        }
    }

    fn find(&self, arg_usage: &str) -> Option<OptionArg> {
        // `hash_set` is iterated in a different order in every process: when two descriptions
        // share a name, always answer with the same one
        if arg_usage.starts_with("--") {
            self.hash_set
                .iter()
                .filter(|option_arg| option_arg.get_long().as_deref() == Some(arg_usage))
                .min()
                .cloned()
        } else if arg_usage.starts_with('-') {
            self.hash_set
                .iter()
                .filter(|option_arg| option_arg.get_short().as_deref() == Some(arg_usage))
                .min()
                .cloned()
        } else {
            None
        }
    }

    fn extend(&mut self, options: Options) -> Result<Self> {
        options.hash_set.iter().try_for_each(|option| {
            match self.find(&option.get_simple_representation()) {
                Some(duplicated_option) => {
                    if option != &duplicated_option {
                        self.hash_set.remove(&duplicated_option);
                        self.hash_set.insert(duplicated_option.merge(option)?);
                    }
                }
                None => {
                    self.hash_set.insert(option.clone());
                }
            };
            Ok::<(), Error>(())
        })?;
        Ok(self.clone())
    }

    pub fn parse_doc(doc: &str, usages: &[String]) -> Result<Self> {
        let mut description_options = Options::new(
            doc.split('\n')
                .filter_map(|line| {
                    let trimmed = line.trim_start();
                    if trimmed.starts_with('-') {
                        Some(trimmed)
                    } else {
                        None
                    }
                })
                .map(Self::get_option_arg)
                .collect::<HashSet<OptionArg>>(),
        );
        let usage_options = usages
            .iter()
            .flat_map(|usage| {
                usage
                    .clone()
                    .replace('|', " | ")
                    .replace('[', " [ ")
                    //mark repeatable options
                    .replace("]...", ". ] ")
                    .replace(']', " ] ")
                    .split_whitespace()
                    // skip arg 0 (script name)
                    .skip(1)
                    .flat_map(|arg| {
                        let is_option = arg.starts_with('-');
                        if is_option && !arg.starts_with("--") {
                            let mut is_end_args_in_chars = false;
                            arg.chars()
                                // skip `-`
                                .skip(1)
                                .filter_map(|arg_char| {
                                    if is_end_args_in_chars {
                                        None
                                    } else {
                                        match description_options.find(&format!("-{arg_char}")) {
                                            Some(OptionArg::WithParam { .. }) => {
                                                is_end_args_in_chars = true;
                                                Some(format!("-{arg_char}={arg_char}"))
                                            }
                                            _ => {
                                                // repeatable options
                                                if arg_char == '.' {
                                                    Some(arg_char.to_string())
                                                } else {
                                                    Some(format!("-{arg_char}"))
                                                }
                                            }
                                        }
                                    }
                                })
                                .collect::<Vec<String>>()
                        } else if is_option {
                            vec![arg.to_owned()]
                        } else {
                            vec![]
                        }
                    })
                    .collect::<Vec<_>>()
                    .iter()
                    .circular_tuple_windows()
                    .filter_map(|(previous_arg, arg)| {
                        let is_previous_option = previous_arg.starts_with('-');
                        let is_option = arg.starts_with('-');
                        if is_previous_option && is_option {
                            Some(Self::get_option_arg(previous_arg))
                        } else if is_previous_option && (arg == ".") {
                            Some(Self::get_option_arg(&format!("{previous_arg}.")))
                        } else if is_previous_option && !is_option {
                            Some(Self::get_option_arg(&format!("{previous_arg}={arg}")))
                        } else {
                            None
                        }
                    })
                    .collect::<Vec<_>>()
            })
            .collect::<HashSet<_>>();

        description_options.extend(Options::new(usage_options))
    }

    /// Verification hook: the option descriptors as (kind, short, long, default).
    #[cfg(rash_verif)]
    pub fn verif_dump(&self) -> Vec<(String, Option<String>, Option<String>, Option<String>)> {
        self.hash_set
            .iter()
            .map(|o| match o {
                OptionArg::Simple { short, long } => {
                    ("simple".to_owned(), short.clone(), long.clone(), None)
                }
                OptionArg::Repeatable { short, long } => {
                    ("repeatable".to_owned(), short.clone(), long.clone(), None)
                }
                OptionArg::WithParam {
                    short,
                    long,
                    default_value,
                } => (
                    "withparam".to_owned(),
                    short.clone(),
                    long.clone(),
                    default_value.clone(),
                ),
            })
            .collect()
    }

    pub fn parse(&self, arg: &str, def: &str) -> Option<Value> {
        let (arg_key, arg_value_option) = match arg.split_once('=') {
            Some((k, v)) => (k, Some(v)),
            None => (arg, None),
        };
        let option_arg = self.find(arg_key)?;

        // check arg is in def
        def.replace(['{', '}'], "")
            .split('#')
            .find(|arg_def| &option_arg.get_representation() == arg_def)?;

        let value = match option_arg {
            // safe unwrap: WithParams always has `=` in the representation
            OptionArg::WithParam { .. } => json!(arg_value_option.unwrap()),
            OptionArg::Repeatable { .. } => json!(1),
            OptionArg::Simple { .. } => json!(true),
        };

        Some(json!({
            "options": {
                option_arg.get_key_representation(): value
            }
        }))
    }

    pub fn initial_vars(&self) -> Value {
        // TODO: refactor to more functional way and remove JSON. Look for a better structure to
        // store state
        let mut new_vars_json = json!({});

        self.hash_set
            .clone()
            .into_iter()
            // two descriptions can share a key: merge them in the same order in every process
            .sorted()
            .map(|option_arg| {
                let value = match option_arg.clone() {
                    OptionArg::Simple { .. } => {
                        json!(false)
                    }
                    OptionArg::Repeatable { .. } => {
                        json!(0)
                    }
                    OptionArg::WithParam { default_value, .. } => {
                        if default_value.is_some() {
                            json!(default_value.unwrap())
                        } else {
                            json!(null)
                        }
                    }
                };
                json!(
                { "options":
                    { option_arg.get_key_representation(): value
                    }
                })
            })
            .for_each(|x| merge_json(&mut new_vars_json, x));
        new_vars_json
    }

    /// Normalize command-line options according to docopt conventions.
    ///
    /// This function performs the following transformations:
    /// - Unstacks short options (e.g., `-abc` → `-a -b -c`)
    /// - Expands short options to their long form when available (e.g., `-q` → `--quiet`)
    /// - Normalizes option-parameter formats (e.g., `-o FILE` → `-o=FILE`)
    /// - Handles attached parameters (e.g., `-oFILE` → `-o=FILE`)
    pub fn normalize_options(&self, args: &[String]) -> Result<Vec<String>> {
        self.normalize(args, false)
    }

    /// `normalize_options` for the words of a usage pattern when `keep_separators` is set: there a
    /// `)`, `]` or `|` after an option with a parameter is syntax, on the command line it is the
    /// parameter and nothing else.
    fn normalize(&self, args: &[String], keep_separators: bool) -> Result<Vec<String>> {
        let mut is_antepenultimate_with_param = false;
        args.iter()
            .flat_map(|arg| {
                if arg.starts_with('-') && !arg.starts_with("--") {
                    let mut is_previously_added = false;
                    arg.chars()
                        // skip `-`
                        .skip(1)
                        .flat_map(|arg_char| {
                            if is_previously_added {
                                return vec![];
                            }
                            let short = format!("-{arg_char}");
                            match self.find(&short) {
                                Some(option_arg) => {
                                    let mut result = vec![option_arg.get_simple_representation()];
                                    if matches!(option_arg, OptionArg::WithParam { .. }) {
                                        // the value is what follows the option letter, less one
                                        // `=` directly after it: a value may itself contain `=`
                                        let rest = arg.split_once(arg_char).unwrap().1;
                                        let param = rest.strip_prefix('=').unwrap_or(rest);
                                        if !param.is_empty() {
                                            result.push(param.to_owned());
                                        }
                                        is_previously_added = true;
                                    }
                                    result
                                }
                                None => {
                                    vec![short]
                                }
                            }
                        })
                        .collect::<Vec<String>>()
                } else {
                    match (arg.starts_with('-'), arg.split_once('=')) {
                        // only an option with a parameter has a `=VALUE` part: `--flag=x` is not a
                        // spelling of `--flag` followed by the positional `x`
                        (true, Some((a, b)))
                            if matches!(self.find(a), Some(OptionArg::WithParam { .. })) =>
                        {
                            vec![a.to_owned(), b.to_owned()]
                        }
                        _ => vec![arg.to_owned()],
                    }
                }
            })
            .collect::<Vec<_>>()
            .iter()
            .circular_tuple_windows()
            // transform options with params to --{option}={value}
            .filter_map(|(previous_arg, arg)| {
                if previous_arg.starts_with('-') {
                    self.find(previous_arg)
                        .map(|option_arg| {
                            let repr = option_arg.get_simple_representation();
                            match option_arg {
                                OptionArg::WithParam { .. } => {
                                    is_antepenultimate_with_param = true;
                                    Ok(format!("{repr}={arg}"))
                                }
                                OptionArg::Simple { .. } | OptionArg::Repeatable { .. } => Ok(repr),
                            }
                        })
                        .or_else(|| {
                            Some(Err(Error::new(
                                ErrorKind::InvalidData,
                                format!("Unknown option: {previous_arg}"),
                            )))
                        })
                } else if is_antepenultimate_with_param {
                    is_antepenultimate_with_param = false;
                    match previous_arg.as_str() {
                        ")" | "]" | "|" if keep_separators => Some(Ok(previous_arg.to_owned())),
                        _ => None,
                    }
                } else {
                    Some(Ok(previous_arg.to_owned()))
                }
            })
            .collect()
    }

    /// Extend usages with the normalized representation of all available options.
    ///
    /// Transforms patterns containing `[options]` by substituting a compact syntax that combines all options
    /// within curly braces separated by # characters. This creates an internal format the parser uses to
    /// efficiently match command-line arguments against patterns with options.
    pub fn extend_usages(&self, usages: HashSet<String>) -> Option<HashSet<String>> {
        let mut options_in_usage = Vec::new();

        let represented_usages = usages
            .iter()
            .map(|usage| {
                match self.normalize(
                    &usage
                        .replace('|', " | ")
                        .split_whitespace()
                        .flat_map(|w| split_keeping_separators(w, &['[', ']', '(', ')']))
                        .collect::<Vec<_>>(),
                    true,
                ) {
                    Ok(expanded_usage) => Some(
                        expanded_usage
                            .iter()
                            .map(|arg| {
                                if arg.starts_with('-') {
                                    // safe unwrap: split always return at least one field
                                    if let Some(option_arg) =
                                        self.find(arg.split('=').next().unwrap())
                                    {
                                        options_in_usage.push(option_arg.clone());
                                        Some(option_arg.get_representation())
                                    } else {
                                        None
                                    }
                                } else {
                                    Some(arg.to_owned())
                                }
                            })
                            .collect::<Option<Vec<String>>>()?
                            .join(" ")
                            .replace("[ ", "[")
                            .replace(" ]", "]")
                            .replace("( ", "(")
                            .replace(" )", ")")
                            .replace(" ...", "...")
                            .replace(" |", "|")
                            .replace("| ", "|"),
                    ),
                    Err(_) => None,
                }
            })
            .collect::<Option<HashSet<String>>>()?;

        let replaced_options_usages = represented_usages.iter().map(|usage| {
            if usage.contains(OPTIONS_MARK) {
                // `hash_set` yields the options in a different order in every process: sort
                // them, or the same arguments are accepted in one run and rejected in the next
                let mut remaining_options: Vec<_> = self
                    .hash_set
                    .clone()
                    .into_iter()
                    .filter(|o| !options_in_usage.contains(o))
                    .map(|o| o.get_representation())
                    .collect();
                remaining_options.sort();
                usage.replace(OPTIONS_MARK, &format!("[{}]", remaining_options.join(" ")))
            } else {
                usage.to_owned()
            }
        });

        let expanded_brackets_usages = replaced_options_usages.map(|usage| expand_brackets(&usage));

        let mut option_groups: Vec<String> = Vec::new();
        Some(
            expanded_brackets_usages
                .map(|usage| {
                    let mut new_usage = usage.clone();
                    let mut bracket_groups = usage
                        .split('[')
                        .flat_map(|group| group.split('('))
                        // first group is non bracket group
                        .skip(1)
                        // remove empty strings
                        .filter(|v| !v.is_empty())
                        .peekable();
                    while let Some(bracket_group) = bracket_groups.next() {
                        let is_last = bracket_groups.peek().is_none();
                        let is_same_group_of_options = bracket_group.starts_with('-')
                            && bracket_group.split_once(']').is_some()
                            && !bracket_group.contains('|');
                        if bracket_group.starts_with('-')
                            && bracket_group.contains('|')
                            && bracket_group.split_once(']').is_some()
                        {
                            new_usage = new_usage
                                .replace(
                                    &format!("[{bracket_group}"),
                                    &format!(
                                        "{{{}}}",
                                        bracket_group.replace(['[', ']'], "").replace('|', "#")
                                    ),
                                )
                                .replace(" }", "} ")
                        }
                        if is_same_group_of_options {
                            option_groups
                                // safe unwrap: checked because is_option
                                .push(bracket_group.split_once(']').unwrap().0.to_owned());
                        }
                        if (is_same_group_of_options && is_last)
                            || (!is_same_group_of_options && !option_groups.is_empty())
                        {
                            new_usage = new_usage.replace(
                                &option_groups.iter().map(|s| format!("[{s}]")).join(" "),
                                &format!(
                                    "{{{}}}{}",
                                    option_groups.clone().join("#"),
                                    if option_groups.len() > 1 { "..." } else { "" }
                                ),
                            );
                            option_groups = Vec::new();
                        }
                    }
                    new_usage
                })
                .collect::<HashSet<String>>(),
        )
    }
}

