// Implementation-side harness: runs rash_core (linked by path from /repo's working tree)
// on cases read as JSON lines from stdin and prints one JSON observation per line.
// Sub-commands: state | docopt | probe
use std::collections::BTreeMap;
use std::io::{self, BufRead, Write};
use std::os::unix::fs::{MetadataExt, PermissionsExt};
use std::path::Path;
use std::sync::Mutex;

use serde_json::{json, Value as J};

mod docopt_h;
#[path = "pinned_docopt/mod.rs"]
mod pinned_docopt;
mod find_h;
mod fakepacman;

// ---------------------------------------------------------------- log capture
static RECORDS: Mutex<Vec<(String, String, String)>> = Mutex::new(Vec::new());
struct Cap;
impl log::Log for Cap {
    fn enabled(&self, m: &log::Metadata) -> bool {
        m.level() <= log::Level::Info && m.target() != "diff"
    }
    fn log(&self, r: &log::Record) {
        if self.enabled(r.metadata()) {
            RECORDS.lock().unwrap().push((
                r.level().to_string(),
                r.target().to_string(),
                format!("{}", r.args()),
            ));
        }
    }
    fn flush(&self) {}
}
static CAP: Cap = Cap;

pub fn hex(b: &[u8]) -> String {
    b.iter().map(|x| format!("{:02x}", x)).collect()
}
pub fn unhex(s: &str) -> Vec<u8> {
    (0..s.len() / 2)
        .map(|i| u8::from_str_radix(&s[2 * i..2 * i + 2], 16).unwrap())
        .collect()
}

// ---------------------------------------------------------------- snapshots
fn snap_one(root: &Path, p: &Path) -> J {
    match std::fs::symlink_metadata(p) {
        Err(_) => json!({"t": "none"}),
        Ok(m) => {
            let ft = m.file_type();
            let stamps = json!([m.mtime(), m.mtime_nsec(), m.ctime(), m.ctime_nsec()]);
            if ft.is_symlink() {
                let to = std::fs::read_link(p).map(|x| x.to_string_lossy().into_owned()).unwrap_or_default();
                let pre = format!("{}/", root.to_string_lossy());
                let to = to.strip_prefix(&pre).map(|x| x.to_owned()).unwrap_or(to);
                json!({"t": "l", "to": to, "st": stamps})
            } else if ft.is_dir() {
                json!({"t": "d", "m": m.permissions().mode() & 0o7777, "st": stamps})
            } else if ft.is_file() {
                let c = std::fs::read(p).unwrap_or_default();
                json!({"t": "f", "m": m.permissions().mode() & 0o7777, "c": hex(&c), "st": stamps})
            } else {
                json!({"t": "other", "m": m.permissions().mode() & 0o7777, "st": stamps})
            }
        }
    }
}

fn snap_tree(root: &Path, rel: &str, out: &mut BTreeMap<String, J>) {
    let p = if rel.is_empty() { root.to_path_buf() } else { root.join(rel) };
    let s = snap_one(root, &p);
    let is_dir = s["t"] == "d";
    out.insert(rel.to_string(), s);
    if is_dir {
        let mut names: Vec<String> = match std::fs::read_dir(&p) {
            Ok(rd) => rd.filter_map(|e| e.ok()).map(|e| e.file_name().to_string_lossy().into_owned()).collect(),
            Err(_) => vec![],
        };
        names.sort();
        for n in names {
            let r = if rel.is_empty() { n } else { format!("{}/{}", rel, n) };
            snap_tree(root, &r, out);
        }
    }
}

fn snapshot(root: &Path) -> BTreeMap<String, J> {
    let mut m = BTreeMap::new();
    snap_tree(root, "", &mut m);
    m
}

fn old_time(p: &Path) {
    // mtime/atime := 2001-01-01 without following links
    let c = std::ffi::CString::new(p.to_str().unwrap()).unwrap();
    let ts = [
        libc::timespec { tv_sec: 978307200, tv_nsec: 0 },
        libc::timespec { tv_sec: 978307200, tv_nsec: 0 },
    ];
    unsafe {
        libc::utimensat(libc::AT_FDCWD, c.as_ptr(), ts.as_ptr(), libc::AT_SYMLINK_NOFOLLOW);
    }
}

pub fn build_world(root: &Path, world: &J) {
    let _ = std::fs::remove_dir_all(root);
    std::fs::create_dir_all(root).unwrap();
    let nodes = world.as_array().unwrap();
    for n in nodes {
        let p = root.join(n["p"].as_str().unwrap());
        match n["t"].as_str().unwrap() {
            "d" => std::fs::create_dir_all(&p).unwrap(),
            "f" => {
                if let Some(par) = p.parent() {
                    std::fs::create_dir_all(par).unwrap();
                }
                std::fs::write(&p, unhex(n["c"].as_str().unwrap())).unwrap();
            }
            "l" => {
                let to = n["to"].as_str().unwrap();
                let target = if to.starts_with('/') { Path::new(to).to_path_buf() } else { root.join(to) };
                std::os::unix::fs::symlink(target, &p).unwrap();
            }
            "h" => {
                // a hard link: a second name of an existing file
                let to = root.join(n["to"].as_str().unwrap());
                if let Some(par) = p.parent() {
                    std::fs::create_dir_all(par).unwrap();
                }
                std::fs::hard_link(to, &p).unwrap();
            }
            "p" => {
                // a named pipe: a path that exists and is neither file, directory nor link
                let c = std::ffi::CString::new(p.to_string_lossy().as_bytes()).unwrap();
                assert_eq!(unsafe { libc::mkfifo(c.as_ptr(), 0o644) }, 0);
            }
            _ => panic!("bad node"),
        }
    }
    // modes after content (deepest first so that restrictive dir modes cannot get in the way)
    for n in nodes.iter().rev() {
        if let Some(m) = n["m"].as_u64() {
            let p = root.join(n["p"].as_str().unwrap());
            std::fs::set_permissions(&p, std::fs::Permissions::from_mode(m as u32)).unwrap();
        }
    }
    let snap = snapshot(root);
    for rel in snap.keys().rev() {
        let p = if rel.is_empty() { root.to_path_buf() } else { root.join(rel) };
        old_time(&p);
    }
}

fn err_kind(e: &rash_core::error::Error) -> String {
    format!("{:?}", e.kind())
}

// ---------------------------------------------------------------- state family
// case: {root, umask, world:[...], global_check, tasks:[yaml,...], vars:{...}, env:{K:V}, sleep_ms}
fn run_state(case: &J) -> J {
    let root = Path::new(case["root"].as_str().unwrap());
    let um = case["umask"].as_u64().unwrap_or(0o022) as libc::mode_t;
    unsafe { libc::umask(0) };
    build_world(root, &case["world"]);
    unsafe { libc::umask(um) };
    if let Some(envs) = case["env"].as_object() {
        for (k, v) in envs {
            unsafe { std::env::set_var(k, v.as_str().unwrap().replace("ROOT", root.to_str().unwrap())) };
        }
    }
    if let Some(files) = case["extra_files"].as_object() {
        for (k, v) in files {
            std::fs::write(root.join(k), v.as_str().unwrap()).unwrap();
        }
    }
    let sleep_ms = case["sleep_ms"].as_u64().unwrap_or(0);
    let gp = rash_core::context::GlobalParams {
        r#become: false,
        become_user: "root",
        check_mode: case["global_check"].as_bool().unwrap_or(false),
    };
    let vars = minijinja::Value::from_serialize(&case["vars"]);
    let mut results = Vec::new();
    let mut before = snapshot(root);
    let first = before.clone();
    for t in case["tasks"].as_array().unwrap() {
        if sleep_ms > 0 {
            std::thread::sleep(std::time::Duration::from_millis(sleep_ms));
        }
        let text = t.as_str().unwrap().replace("ROOT", root.to_str().unwrap());
        RECORDS.lock().unwrap().clear();
        let r = std::panic::catch_unwind(std::panic::AssertUnwindSafe(|| {
            let yaml: serde_yaml::Value = serde_yaml::from_str(&text).map_err(|e| format!("yaml:{e}"))?;
            let task = rash_core::task::Task::new(&yaml, &gp).map_err(|e| format!("new:{}", err_kind(&e)))?;
            task.exec(vars.clone()).map_err(|e| format!("exec:{}", err_kind(&e)))
        }));
        let recs = RECORDS.lock().unwrap().clone();
        let status = match &r {
            Err(_) => "panic".to_string(),
            Ok(Err(e)) => format!("err:{e}"),
            Ok(Ok(_)) => {
                let mut s = "none".to_string();
                for (_, target, _) in &recs {
                    if target.starts_with("changed") {
                        s = "changed".into();
                    } else if target.starts_with("ok") {
                        s = "ok".into();
                    }
                }
                s
            }
        };
        let after = snapshot(root);
        // paths whose existence/type/content/mode/link or mtime/ctime differ
        let mut touched = Vec::new();
        for k in before.keys().chain(after.keys()) {
            if before.get(k) != after.get(k) && !touched.contains(k) {
                touched.push(k.clone());
            }
        }
        let registered = match &r {
            Ok(Ok(v)) => v.get_attr("reg").ok().map(|x| serde_json::to_value(&x).unwrap_or(J::Null)).unwrap_or(J::Null),
            _ => J::Null,
        };
        let mut tread = serde_json::Map::new();
        if let Some(reads) = case["read_after"].as_array() {
            for f in reads {
                let name = f.as_str().unwrap();
                tread.insert(name.to_string(), json!(std::fs::read_to_string(root.join(name)).unwrap_or_default()));
            }
        }
        results.push(json!({"status": status, "touched": touched, "reg": registered, "read": tread,
                            "log": recs.iter().map(|(l,t,m)| json!([l,t,m])).collect::<Vec<_>>()}));
        before = after;
    }
    let strip = |m: &BTreeMap<String, J>| -> J {
        let mut o = serde_json::Map::new();
        for (k, v) in m {
            let mut v = v.clone();
            v.as_object_mut().unwrap().remove("st");
            o.insert(k.clone(), v);
        }
        J::Object(o)
    };
    let mut extra = serde_json::Map::new();
    if let Some(reads) = case["read_after"].as_array() {
        for f in reads {
            let name = f.as_str().unwrap();
            extra.insert(name.to_string(), json!(std::fs::read_to_string(root.join(name)).unwrap_or_default()));
        }
    }
    json!({"results": results, "first": strip(&first), "final": strip(&before), "read": extra})
}

fn run_probe() -> J {
    // facts of the runtime the models take as parameters
    let f = tempfile::tempfile().unwrap();
    let tmpmode = f.metadata().unwrap().permissions().mode() & 0o7777;
    json!({"tmpmode": tmpmode, "uid": unsafe { libc::getuid() }})
}

fn main() {
    let args: Vec<String> = std::env::args().collect();
    let mode = args.get(1).map(|s| s.as_str()).unwrap_or("");
    log::set_logger(&CAP).unwrap();
    log::set_max_level(log::LevelFilter::Info);
    std::panic::set_hook(Box::new(|_| {}));
    if mode == "fakepacman" {
        std::process::exit(fakepacman::main(&args[2..]));
    }
    if mode == "argvdump" {
        // vh argvdump <outfile> args... : writes the arguments it received, hex encoded, one per line
        let body: Vec<String> = args[3..].iter().map(|a| hex(a.as_bytes())).collect();
        std::fs::write(&args[2], format!("{}\n{}\n", body.len(), body.join("\n"))).unwrap();
        return;
    }
    if mode == "execdump" {
        // vh execdump args... : records who it is ($VH_DUMP: pid, argv, cwd, the whole environment, uid, gid), exits with $VH_EXIT
        use std::os::unix::ffi::OsStrExt;
        let argv: Vec<String> = std::env::args_os().skip(2).map(|a| hex(a.as_bytes())).collect();
        let envs: serde_json::Map<String, J> = std::env::vars_os()
            .map(|(k, v)| (k.to_string_lossy().into_owned(), json!(hex(v.as_bytes()))))
            .collect();
        let argv0 = std::env::args_os().next().map(|a| hex(a.as_bytes())).unwrap_or_default();
        let rec = json!({"pid": std::process::id(), "argv": argv, "argv0": argv0,
                         "cwd": std::env::current_dir().map(|p| p.to_string_lossy().into_owned()).unwrap_or_default(),
                         "env": envs, "uid": unsafe { libc::getuid() }, "gid": unsafe { libc::getgid() },
                         "euid": unsafe { libc::geteuid() }});
        if let Ok(f) = std::env::var("VH_DUMP") {
            let _ = std::fs::write(f, rec.to_string());
        }
        let code: i32 = std::env::var("VH_EXIT").ok().and_then(|x| x.parse().ok()).unwrap_or(0);
        std::process::exit(code);
    }
    if mode == "probe" {
        println!("{}", run_probe());
        return;
    }
    let stdin = io::stdin();
    let out = io::stdout();
    let mut out = out.lock();
    for line in stdin.lock().lines() {
        let line = line.unwrap();
        if line.trim().is_empty() {
            continue;
        }
        let case: J = serde_json::from_str(&line).unwrap();
        let res = match mode {
            "state" => run_state(&case),
            "docopt" => docopt_h::run(&case),
            "find" => find_h::run(&case),
            _ => json!({"error": "unknown mode"}),
        };
        writeln!(out, "{}", res).unwrap();
        out.flush().unwrap();
    }
}
