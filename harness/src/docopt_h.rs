// docopt: {"file": "...", "args": [...], "repeat": n}  ->  {"outs": [distinct outcomes...], "n": n}
use serde_json::{json, Value as J};

// the frozen version of the module on which the docopt known findings were recorded (tools/pin_docopt.sh)
fn once_pinned(file: &str, args: &[String]) -> J {
    let r = std::panic::catch_unwind(|| {
        let a: Vec<&str> = args.iter().map(|s| s.as_str()).collect();
        crate::pinned_docopt::parse(file, &a)
    });
    match r {
        Ok(Ok(v)) => json!({"ok": v}),
        Ok(Err(e)) => match e.kind() {
            rash_core::error::ErrorKind::GracefulExit => json!({"help": format!("{}", e)}),
            k => json!({"err": format!("{:?}", k)}),
        },
        Err(_) => json!({"panic": true}),
    }
}

fn once(file: &str, args: &[String]) -> J {
    let r = std::panic::catch_unwind(|| {
        let a: Vec<&str> = args.iter().map(|s| s.as_str()).collect();
        rash_core::docopt::parse(file, &a)
    });
    match r {
        Ok(Ok(v)) => json!({"ok": v}),
        Ok(Err(e)) => match e.kind() {
            rash_core::error::ErrorKind::GracefulExit => json!({"help": format!("{}", e)}),
            k => json!({"err": format!("{:?}", k)}),
        },
        Err(_) => json!({"panic": true}),
    }
}

#[cfg(rash_verif)]
fn trace() -> Vec<String> {
    rash_core::docopt::VERIF_EXPANDED_USAGES.with(|t| t.borrow().clone())
}
#[cfg(not(rash_verif))]
fn trace() -> Vec<String> {
    Vec::new()
}
#[cfg(rash_verif)]
fn tail_inputs() -> J {
    rash_core::docopt::VERIF_TAIL_INPUTS.with(|t| {
        let (a, o) = &*t.borrow();
        json!([a, o])
    })
}
#[cfg(not(rash_verif))]
fn tail_inputs() -> J {
    J::Null
}
#[cfg(rash_verif)]
fn usages_read() -> J {
    rash_core::docopt::VERIF_USAGES.with(|t| json!(*t.borrow()))
}
#[cfg(not(rash_verif))]
fn usages_read() -> J {
    J::Null
}
#[cfg(rash_verif)]
fn clear_trace() {
    rash_core::docopt::VERIF_USAGES.with(|t| *t.borrow_mut() = None);
    rash_core::docopt::VERIF_EXPANDED_USAGES.with(|t| t.borrow_mut().clear());
    rash_core::docopt::VERIF_TAIL_INPUTS.with(|t| *t.borrow_mut() = (Vec::new(), Vec::new()));
}
#[cfg(not(rash_verif))]
fn clear_trace() {}

pub fn run(case: &J) -> J {
    let file = case["file"].as_str().unwrap().to_owned();
    let args: Vec<String> = case["args"].as_array().unwrap().iter().map(|x| x.as_str().unwrap().to_owned()).collect();
    let n = case["repeat"].as_u64().unwrap_or(1);
    clear_trace();
    let mut outs: Vec<J> = Vec::new();
    for _ in 0..n {
        let o = once(&file, &args);
        if !outs.contains(&o) {
            outs.push(o);
        }
    }
    if case["pinned"].as_bool().unwrap_or(false) {
        return json!({"outs": outs, "pinned": once_pinned(&file, &args)});
    }
    if case["trace"].as_bool().unwrap_or(false) {
        // the expanded usages in the order the last parse tried them (hook, --cfg rash_verif)
        let us = trace();
        if us.is_empty() {
            return json!({"outs": outs, "usages_read": usages_read()});     // parse returned before its last stage
        }
        return json!({"outs": outs, "usages": us, "tail": tail_inputs(), "usages_read": usages_read()});
    }
    json!({"outs": outs})
}
