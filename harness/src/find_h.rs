// find: {"root": dir, "world": [...nodes...], "params": yaml text with ROOT, "lookup": bool}
//   -> {"ok": [paths relative to root...]} | {"err": kind} | {"panic": true}; "lookup": same through the find() lookup
use serde_json::{json, Value as J};
use std::path::Path;

fn rel(root: &str, v: &serde_yaml::Value) -> Vec<String> {
    let pre = format!("{root}/");
    v.as_sequence()
        .map(|s| {
            s.iter()
                .map(|x| {
                    let p = x.as_str().unwrap_or("?").to_owned();
                    if p == root { ".".to_owned() } else { p.strip_prefix(&pre).map(|y| y.to_owned()).unwrap_or(p) }
                })
                .collect()
        })
        .unwrap_or_default()
}

pub fn run(case: &J) -> J {
    let root = case["root"].as_str().unwrap().to_owned();
    unsafe { libc::umask(0o022) };
    crate::build_world(Path::new(&root), &case["world"]);
    let text = case["params"].as_str().unwrap().replace("ROOT", &root);
    let gp = rash_core::context::GlobalParams::default();
    let r = std::panic::catch_unwind(std::panic::AssertUnwindSafe(|| {
        let yaml: serde_yaml::Value = serde_yaml::from_str(&text).map_err(|e| format!("yaml:{e}"))?;
        let m = rash_core::modules::MODULES.get("find").unwrap();
        m.exec(&gp, yaml, minijinja::context! {}, false)
            .map(|(res, _)| res.get_extra().unwrap_or(serde_yaml::Value::Null))
            .map_err(|e| format!("{:?}", e.kind()))
    }));
    let module = match r {
        Err(_) => json!({"panic": true}),
        Ok(Err(e)) => json!({"err": e}),
        Ok(Ok(v)) => json!({"ok": rel(&root, &v)}),
    };
    let mut out = json!({"module": module});
    if case["lookup"].as_bool().unwrap_or(false) {
        let r = std::panic::catch_unwind(std::panic::AssertUnwindSafe(|| {
            let yaml: serde_yaml::Value = serde_yaml::from_str(&text).map_err(|e| format!("yaml:{e}"))?;
            let vars = minijinja::context! { q => minijinja::Value::from_serialize(&yaml) };
            rash_core::jinja::render_string("{{ find(q) | tojson }}", &vars).map_err(|e| format!("{:?}", e.kind()))
        }));
        out["lookup"] = match r {
            Err(_) => json!({"panic": true}),
            Ok(Err(e)) => json!({"err": e}),
            Ok(Ok(s)) => {
                let v: serde_yaml::Value = serde_yaml::from_str(&s).unwrap_or(serde_yaml::Value::Null);
                json!({"ok": rel(&root, &v)})
            }
        };
    }
    out
}
