use serde_json::{json, Value as J};
pub fn run(_case: &J) -> J {
    json!({"error": "todo"})
}
