// A stateful stand-in for pacman implementing the documented transitions the model assumes
// (Pacman.v; three version levels: installed `sysver`, local sync database `dbver`, mirrors `upstream`): database = $FAKEPACMAN_DB (json), every invocation appended to $FAKEPACMAN_DB.log
use serde_json::{json, Value as J};
use std::io::Write;

pub fn main(args: &[String]) -> i32 {
    let dbp = std::env::var("FAKEPACMAN_DB").expect("FAKEPACMAN_DB");
    let mut db: J = serde_json::from_str(&std::fs::read_to_string(&dbp).unwrap()).unwrap();
    let has = |f: &str| args.iter().any(|a| a == f);
    let pkgs: Vec<String> = args.iter().filter(|a| !a.starts_with('-')).cloned().collect();
    let list = |db: &J, k: &str| -> Vec<String> {
        db[k].as_array().unwrap().iter().map(|x| x.as_str().unwrap().to_owned()).collect()
    };
    let mut log = std::fs::OpenOptions::new().create(true).append(true).open(format!("{dbp}.log")).unwrap();
    let mut rc = 0;
    let op: J;
    if has("--query") {
        if has("--upgrades") {
            op = json!(["query-upgrades"]);
            // answered from the LOCAL sync database
            if db["sysver"].as_u64().unwrap() < db["dbver"].as_u64().unwrap() {
                println!("linux");
            } else {
                rc = 1;
            }
        } else if has("--explicit") {
            op = json!(["query-explicit"]);
            for p in list(&db, "explicit") {
                println!("{p}");
            }
        } else {
            op = json!(["query"]);
            for p in list(&db, "installed") {
                println!("{p}");
            }
        }
    } else if has("--sync") && has("--refresh") && pkgs.is_empty() {
        op = json!(["refresh"]);
        db["dbver"] = db["upstream"].clone();
        println!(":: Synchronising package databases...");
    } else if has("--sync") && has("--sysupgrade") {
        op = json!(["sysupgrade"]);
        println!(":: Starting full system upgrade...");
        if db["sysver"].as_u64().unwrap() < db["dbver"].as_u64().unwrap() {
            db["sysver"] = db["dbver"].clone();
            println!("upgrading linux...");
        } else {
            println!(" there is nothing to do");
        }
    } else if has("--sync") {
        op = json!(["sync", pkgs]);
        let mut inst = list(&db, "installed");
        let mut expl = list(&db, "explicit");
        let mut done = 0;
        for p in &pkgs {
            if !inst.contains(p) {
                inst.push(p.clone());
                expl.push(p.clone());
                println!("installing {p}...");
                done += 1;
            } else if !has("--needed") {
                if !expl.contains(p) {
                    expl.push(p.clone());
                }
                println!("reinstalling {p}...");
                done += 1;
            } else {
                eprintln!("warning: {p} is up to date -- skipping");
            }
        }
        // what pacman prints when `--needed` has skipped every target
        if done == 0 {
            println!(" there is nothing to do");
        }
        db["installed"] = json!(inst);
        db["explicit"] = json!(expl);
    } else if has("--remove") {
        op = json!(["remove", pkgs]);
        let inst = list(&db, "installed");
        if let Some(missing) = pkgs.iter().find(|p| !inst.contains(p)) {
            eprintln!("error: target not found: {missing}");
            rc = 1;
        } else {
            db["installed"] = json!(inst.into_iter().filter(|p| !pkgs.contains(p)).collect::<Vec<_>>());
            db["explicit"] = json!(list(&db, "explicit").into_iter().filter(|p| !pkgs.contains(p)).collect::<Vec<_>>());
        }
    } else {
        op = json!(["unknown", args]);
        rc = 2;
    }
    writeln!(log, "{}", op).unwrap();
    std::fs::write(&dbp, db.to_string()).unwrap();
    rc
}
