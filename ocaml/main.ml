(* Oracle driver: one case per input line, one result per output line. All decoding,
   model execution and printing happen inside the extracted Coq function Oracle.run_line. *)
let explode s = List.init (String.length s) (String.get s)
let implode l = let b = Buffer.create 64 in List.iter (Buffer.add_char b) l; Buffer.contents b
let () =
  try
    while true do
      let line = input_line stdin in
      print_string (implode (Oracle.run_line (explode line)));
      print_char '\n'
    done
  with End_of_file -> ()
